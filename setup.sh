#!/bin/sh
# MANIFEST.setup_cmd: build everything from files on disk, offline.
set -e
cd "$(dirname "$0")"
export CARGO_NET_OFFLINE=true
mkdir -p work build evidence replays
./coq/mkproject.sh
timeout 3400 make -C coq -j16 >work/setup-coq.log 2>&1 || { tail -50 work/setup-coq.log; exit 1; }
for d in ocaml/c*/; do
  p=$(basename "$d")
  [ -f "$d/driver.ml" ] && ./ocaml/build.sh "$p"
done
(cd harness && timeout 3400 cargo build --offline --bins >../work/setup-cargo.log 2>&1) || { tail -50 work/setup-cargo.log; exit 1; }
echo setup ok
