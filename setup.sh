#!/bin/sh
# MANIFEST.setup_cmd: build everything from files on disk, offline.  Keep going on a failure in
# one slice: every check rebuilds exactly what it needs in its own proof / tie stage and reports a
# failure there, so one slice that does not build cannot take the others down.
cd "$(dirname "$0")"
ROOT=$(pwd)
export CARGO_NET_OFFLINE=true
unset RUSTFLAGS CARGO_ENCODED_RUSTFLAGS CARGO_BUILD_RUSTFLAGS CARGO_TARGET_DIR CARGO_BUILD_TARGET_DIR
mkdir -p work build evidence replays
./coq/mkproject.sh
timeout 3400 make -C coq -k -j16 >work/setup-coq.log 2>&1 || { [ $? = 124 ] && echo "setup: the Coq build was CUT by its 3400 s time limit (machine too slow/loaded); the checks will finish it"; echo "setup: some Coq files did not build (see work/setup-coq.log):"; grep -E "^(File|Error)" work/setup-coq.log | head -20; }
for d in ocaml/c*/; do
  p=$(basename "$d")
  [ -f "$d/driver.ml" ] && [ -f "$d/model.ml" ] && { ./ocaml/build.sh "$p" || echo "setup: ocaml driver $p did not build"; }
done
(cd harness && timeout 3400 cargo build --offline --bins --keep-going >../work/setup-cargo.log 2>&1) || { [ $? = 124 ] && echo "setup: the harness build was CUT by its 3400 s time limit; the checks will finish it"; echo "setup: some harness binaries did not build (see work/setup-cargo.log):"; grep -E "^error" work/setup-cargo.log | head -20; }
# C03 also ties the partition-key arithmetic with overflow checks off (second build of its runner)
(cd harness && CARGO_PROFILE_DEV_OVERFLOW_CHECKS=false CARGO_TARGET_DIR="$ROOT/build/cargo-c03-nochk" timeout 3400 cargo build --offline --bin c03 >../work/setup-cargo-c03-nochk.log 2>&1) || echo "setup: the unchecked C03 runner did not build (see work/setup-cargo-c03-nochk.log)"
echo setup done
exit 0
