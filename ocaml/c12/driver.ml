(* C12 correspondence driver: evaluates the extracted acceptor of Model/Route.v on the first
   frame of every real request recorded by harness/src/bin/c12.rs.
   Case:  K <nodes> <ring> <keyspaces> <cfg> <stmt> <tablets> <values>
   Impl:  <obs> <pools>                       (formats: see the header of c12.rs) *)

let hexn s = n_of_hex s
let nat_of_hex s = nat_of_int (int_of_string ("0x" ^ s))

let parse_strat (s : string) : strategy =
  match s.[0] with
  | 'S' -> Simple (nat_of_hex (String.sub s 1 (String.length s - 1)))
  | 'N' ->
    let body = String.sub s 1 (String.length s - 1) in
    NTS (List.filter_map (fun e ->
        if e = "" then None else
          match String.split_on_char '=' e with
          | [d; rf] -> Some (hexn d, nat_of_hex rf)
          | _ -> failwith "bad nts entry") (String.split_on_char '+' body))
  | 'L' -> LocalS
  | _ -> OtherS

let parse_pref (s : string) : pref option =
  let tl = String.sub s 1 (String.length s - 1) in
  match s.[0] with
  | 'i' -> None
  | 'a' -> Some PAny
  | 'd' -> Some (PDc (hexn tl))
  | 'r' -> (match String.split_on_char '.' tl with
      | [d; r] -> Some (PDcRack (hexn d, hexn r))
      | _ -> failwith "bad pref")
  | _ -> failwith "bad pref"

(* node: dc.rack.nr.msb.up.flt *)
type nd = { id : n; dc : n; rack : n; nr : n; msb : n; up : char; flt : bool }

let parse_nodes s =
  List.mapi (fun i e -> match String.split_on_char '.' e with
      | [d; r; nr; msb; up; f] ->
        { id = n_of_int (i + 1); dc = hexn d; rack = hexn r; nr = hexn nr; msb = hexn msb; up = up.[0]; flt = (f = "1") }
      | _ -> failwith "bad node") (split_on ',' s)

let parse_ring s : (z * n) list =
  if s = "-" then [] else
    List.map (fun e -> let k = String.rindex e ':' in
               (z_of_hex (String.sub e 0 k), hexn (String.sub e (k + 1) (String.length e - k - 1))))
      (split_on ',' s)

let parse_vals s : raw_value list =
  List.map (fun e -> if e = "n" then RNull else if e = "u" then RUnset
             else RValue (bytes_of_hexstr (String.sub e 1 (String.length e - 1)))) (split_on ',' s)

(* static part of a cluster, cached between consecutive lines *)
type static = {
  nodes : nd list; dcf : n -> n option; rackf : n -> n option; g : n ring;
  kss : (n * strategy) list; tab : bool list; pre : strategy list }
let cache_key = ref ""
let cache : static option ref = ref None
let static_of nodes_s ring_s ks_s =
  let key = nodes_s ^ " " ^ ring_s ^ " " ^ ks_s in
  (match !cache with
   | Some _ when !cache_key = key -> ()
   | _ ->
     let nodes = parse_nodes nodes_s in
     let entries = parse_ring ring_s in
     (* TokenRing::new sorts (stably) the entries listed node by node *)
     let g = sort_ring entries in
     let ksl = List.map (fun e -> let k = String.rindex e '/' in
                          (parse_strat (String.sub e 0 k), String.sub e (k + 1) 1 = "1"))
         (String.split_on_char ';' ks_s) in
     let kss = List.mapi (fun i (s, _) -> (n_of_int i, s)) ksl in
     let pre = List.filter_map (fun (s, t) -> if t then None else Some s) ksl in
     cache := Some { nodes; dcf = assoc_opt (List.map (fun x -> (x.id, Some x.dc)) nodes);
                     rackf = assoc_opt (List.map (fun x -> (x.id, Some x.rack)) nodes);
                     g; kss; tab = List.map snd ksl; pre };
     cache_key := key);
  match !cache with Some c -> c | None -> assert false

(* tablets state after the history, cached *)
let tcache_key = ref ""
let tcache : info option ref = ref None
let tablets_of (st : static) (k : n * n) (hist_s : string) key =
  let key = key ^ " " ^ hist_s in
  (if !tcache_key <> key then begin
      let known = List.map (fun x -> { host = x.id; gen = N0; ndc = Some x.dc }) st.nodes in
      let kss = List.mapi (fun i t ->
          { ks_name = n_of_int i; ks_tablet_based = t;
            ks_tables = (if n_of_int i = fst k then [snd k] else []); ks_views = [] }) st.tab in
      let ops = if hist_s = "-" then [] else
          List.map (fun o ->
              if o = "R" then CRefresh (kss, known) else
                match String.split_on_char ':' (String.sub o 1 (String.length o - 1)) with
                | [a; b; reps] ->
                  let raw = if reps = "_" then [] else
                      List.map (fun e -> match String.split_on_char '=' e with
                          | [h; s] -> (hexn h, z_of_hex s) | _ -> failwith "bad replica")
                        (String.split_on_char '+' reps) in
                  CLearn (k, z_of_hex a, z_of_hex b, raw)
                | _ -> failwith "bad tablet op") (String.split_on_char ';' hist_s) in
      tcache := run (cluster_ops [] (CRefresh (kss, known) :: ops));
      tcache_key := key
    end);
  match !tcache with Some i -> i | None -> failwith "tablets model panicked"

type obsr = Obs of (n * n) option | Bad of string

let verdict case impl =
  match case, impl with
  | ["K"; nodes_s; ring_s; ks_s; cfg_s; stmt_s; tabs_s; vals_s], [obs_s; pools_s] ->
    if String.length obs_s >= 5 && String.sub obs_s 0 5 = "skip:" then "ok skipped " ^ obs_s
    else if obs_s = "unsettled" then "ok skipped unsettled"
    else begin
      let st = static_of nodes_s ring_s ks_s in
      (* cfg: pool/nosap/polpref/ta/fo/shuf/sesspref *)
      let cfg = match String.split_on_char '/' cfg_s with
        | [_pool; _nosap; pp; ta; fo; _shuf; sp] ->
          { ex_pol = { pol_pref = parse_pref pp; pol_token_aware = (ta = "1"); pol_failover = (fo = "1") };
            ex_pref = (match parse_pref sp with Some p -> p | None -> PAny);
            ex_serial_cl = false }
        | _ -> failwith "bad cfg" in
      (* stmt: ks.tb/part/lwt/serial/markers *)
      let (stm, serial) = match String.split_on_char '/' stmt_s with
        | kt :: part :: lwt :: serial :: marks :: _api ->
          let k = match String.split_on_char '.' kt with
            | [ks; tb] -> (hexn ks, hexn tb) | _ -> failwith "bad table" in
          let ms = split_on ',' marks in
          let pos = List.mapi (fun i m -> (String.sub m 1 (String.length m - 1), i)) ms in
          let wire = List.filter_map (fun p -> List.assoc_opt (string_of_int p) pos) [0; 1; 2] in
          ({ st_table = Some k; st_ncols = nat_of_int (List.length ms);
             st_wire = List.map n_of_int wire;
             st_part = (if part = "c" then PCdc else PMurmur3); st_lwt = (lwt = "1") }, serial = "1")
        | _ -> failwith "bad stmt" in
      let cfg = { cfg with ex_serial_cl = serial } in
      let k = match stm.st_table with Some k -> k | None -> assert false in
      let tinfo = tablets_of st k tabs_s (!cache_key ^ " " ^ stmt_s) in
      let pools = List.map2 (fun x p ->
          match String.split_on_char ':' p with
          | [c; sh] ->
            let shards = if sh = "_" then [] else List.map hexn (String.split_on_char '+' sh) in
            let sharder = if x.nr = N0 then None else Some (x.nr, x.msb) in
            (x.id, (c = "c", shards, if c = "c" then pool_of sharder shards else PoolDown))
          | _ -> failwith "bad pool") st.nodes (split_on ',' pools_s) in
      (* the snapshot must be coherent: connected <=> the mock sees connections *)
      let coherent = List.for_all (fun (_, (c, sh, _)) -> c = (sh <> [])) pools in
      let cl = { c_dcf = st.dcf; c_rackf = st.rackf; c_ring = st.g; c_keyspaces = st.kss; c_pre = st.pre;
                 c_enabled = (fun n -> List.exists (fun x -> x.id = n && not x.flt) st.nodes);
                 c_pool = assoc_pool (List.map (fun (i, (_, _, p)) -> (i, p)) pools);
                 c_tablets = tinfo } in
      let values = parse_vals vals_s in
      let obs = match obs_s with
        | "none" -> Obs None
        | s when String.contains s ':' && s.[0] <> 'b' && s.[0] <> 's' ->
          (match String.split_on_char ':' s with
           | [n; sh] -> Obs (Some (hexn n, hexn sh)) | _ -> Bad s)
        | s -> Bad s in
      match obs with
      | Bad s -> "diff runner-reported " ^ s
      | Obs obs ->
        if not coherent then "error incoherent-pools-field"
        else if not (cluster_wfb cl (List.map (fun x -> x.id) st.nodes)) then "error ill-formed-cluster"
        else if route_ok cl cfg stm values obs then begin
          (* which part of the property this request exercised (counted in the evidence) *)
          match routing_request stm cfg values with
          | Err _ -> "ok kind=key-refused"
          | Ok rq ->
            let src = route_source cl cfg.ex_pol rq stm.st_table in
            let tab = find_table tinfo k <> None in
            (match src with
             | None -> "ok kind=not-token-aware"
             | Some _ ->
               let rc = replica_cands cl cfg rq src in
               let covered = match rq.rq_token with Some t -> lookup tinfo k t <> None | None -> false in
               if rc <> [] then begin
                 (* own=1: the pool of the chosen node holds a connection on the owning shard, so the
                    acceptor demanded exactly that shard; part=1: that pool does not cover every shard *)
                 let tag = match obs with
                   | Some (n, _) ->
                     let p = cl.c_pool n in
                     let own = List.exists (fun (m, sh) -> m = n && pool_has_shard p (shard_u16 sh)) rc in
                     let part = match pool_sharder p with
                       | Some (nr, _) -> List.exists (fun i -> not (pool_has_shard p (n_of_int i))) (List.init (int_of_n nr) (fun i -> i))
                       | None -> false in
                     Printf.sprintf " own=%d part=%d" (if own then 1 else 0) (if part then 1 else 0)
                   | None -> "" in
                 (if tab then "ok kind=tablet-replica" else "ok kind=ring-replica") ^ tag
               end
               else if tab then (if covered then "ok kind=tablet-no-usable-replica" else "ok kind=tablet-unknown-token")
               else "ok kind=ring-no-usable-replica")
        end
        else begin
          (* the acceptor refused: evaluate the property itself, phrased with the specification *)
          (* C12_prop_obs_complete / _sound: prop_obs_ok with the request's own token IS route_prop for this
             observation; the specification's token (C03) must be that token *)
          let spec_tok =
            if stm.st_wire <> [] && key_okb stm.st_ncols stm.st_wire values
            then Some (spec_token stm.st_part stm.st_wire values) else None in
          let req_tok = match routing_request stm cfg values with Ok rq -> rq.rq_token | Err _ -> None in
          if spec_tok <> None && spec_tok <> req_tok then "diff token-differs-from-specification" else
          let detail =
            match routing_request stm cfg values with
            | Err _ -> "request=err"
            | Ok rq ->
              let src = route_source cl cfg.ex_pol rq stm.st_table in
              let rc = replica_cands cl cfg rq src and nc = node_cands cl cfg rq in
              Printf.sprintf "token=%s lwt=%b replica_cands=%s node_cands=%s"
                (match rq.rq_token with Some t -> hex_of_z t | None -> "_") rq.rq_lwt
                (if rc = [] then "-" else String.concat "," (List.map (fun (n, s) -> hex_of_n n ^ ":" ^ hex_of_n s) rc))
                (string_of_nlist nc) in
          if prop_obs_ok cl cfg stm values spec_tok obs then "diff " ^ detail
          else "viol " ^ detail
        end
    end
  | ["P"; shd_s; _pool; want_s], [obs_s; pools_s] ->
    (* pool tie: a request aimed at (node, wanted shard) through a pinning policy *)
    if String.length obs_s >= 5 && String.sub obs_s 0 5 = "skip:" then "ok skipped " ^ obs_s
    else begin
      let (nr, msb) = match String.split_on_char '.' shd_s with
        | [a; b] -> (hexn a, hexn b) | _ -> failwith "bad sharder" in
      let shards = if pools_s = "_" || pools_s = "" then [] else List.map hexn (String.split_on_char '+' pools_s) in
      let p = pool_of (if nr = N0 then None else Some (nr, msb)) shards in
      if not (pool_wfb p) then "error ill-formed-pool"
      else if obs_s = "none" then "viol pool-tie nothing-sent"
      else if accept_conn_shard p (hexn want_s) (hexn obs_s) then "ok kind=pool-probe"
      else "viol pool-tie served-by-shard=" ^ obs_s   (* C12_conn_accept_sound / _complete: the acceptor IS the property *)
    end
  | ["R"; shd_s; pool_s; _rounds], [evs_s; fin_s] ->
    (* refiller tie: the model's refiller, fed the connection history the mock saw, ends with the
       observed pool *)
    if String.length evs_s >= 5 && String.sub evs_s 0 5 = "skip:" then "ok skipped " ^ evs_s
    else begin
      let (nr, msb) = match String.split_on_char '.' shd_s with
        | [a; b] -> (hexn a, hexn b) | _ -> failwith "bad sharder" in
      let (pool, _nosap) = match String.split_on_char '/' pool_s with
        | [a; b] -> (a, b) | _ -> failwith "bad pool" in
      let k = nat_of_hex (String.sub pool 1 (String.length pool - 1)) in
      let size = if pool.[0] = 'S' then PerShard k else PerHost k in
      ignore nr;
      (* every connection carries the shard count the node reported to IT (resharding changes it) *)
      let mk cid sh cnr = let cnr = hexn cnr in
        { cid = hexn cid; cinfo = (if cnr = N0 then None else Some ((hexn sh, cnr), msb)) } in
      let nrs = ref [] in
      (* 'c' events (the CLIENT closed a pool connection) are outputs: compared with what the model lets go *)
      let closed = ref [] in
      let evs = if evs_s = "-" then [] else
          List.filter_map (fun e ->
              let body = String.sub e 1 (String.length e - 1) in
              match e.[0], String.split_on_char '.' body with
              | 'r', [cid; sh; sap; cnr] -> (if not (List.mem cnr !nrs) then nrs := cnr :: !nrs); Some (EvReady (mk cid sh cnr, sap = "1"))
              | 'b', [cid; sh; cnr] -> Some (EvBroken (mk cid sh cnr))
              | 'c', [_cid; sh; cnr] -> closed := (hexn sh, hexn cnr) :: !closed; None
              | _ -> failwith "bad event") (String.split_on_char ';' evs_s) in
      (* The mock's READY order is not the order in which the driver's refiller handles the connections of one
         burst.  Canonical order inside a maximal run of consecutive ready events, among connections of the SAME
         (shard, shard count) only: the connection that was held longer was handled earlier (never closed by the client, or cut by the mock later: first; then by the
         position of the client's close, latest first).  Which of two same-shard connections of a burst was
         kept is thus read off the closes; how many are kept / let go, of which shard, and the resulting pool
         remain predictions of the model. *)
      let evs =
        if evs_s = "-" then evs else begin
          let toks = Array.of_list (String.split_on_char ';' evs_s) in
          let cid_of t = List.hd (String.split_on_char '.' (String.sub t 1 (String.length t - 1))) in
          let rank = Hashtbl.create 16 in
          Array.iteri (fun i t -> match t.[0] with
              | 'c' -> Hashtbl.replace rank (cid_of t) i
              | 'b' -> Hashtbl.replace rank (cid_of t) max_int
              | _ -> ()) toks;
          let rk c = match Hashtbl.find_opt rank (hex_of_n c.cid) with Some r -> r | None -> max_int in
          (* permute only connections of the SAME (shard, shard count) among the positions they occupy *)
          let fix_run (run : pool_event list) : pool_event list =
            let arr = Array.of_list run in
            let key e = match e with EvReady (c, _) -> c.cinfo | EvBroken c -> c.cinfo in
            let keys = List.sort_uniq compare (List.map key run) in
            List.iter (fun k ->
                let pos = List.filter (fun i -> key arr.(i) = k) (List.init (Array.length arr) (fun i -> i)) in
                let els = List.map (fun i -> arr.(i)) pos in
                let r e = match e with EvReady (c, _) -> rk c | EvBroken _ -> max_int in
                let sorted = List.stable_sort (fun a b -> compare (r b) (r a)) els in
                List.iter2 (fun i e -> arr.(i) <- e) pos sorted) keys;
            Array.to_list arr in
          let rec go acc run = function
            | [] -> List.rev_append acc (fix_run (List.rev run))
            | (EvReady _ as e) :: tl -> go acc (e :: run) tl
            | e :: tl -> go (e :: List.rev_append (fix_run (List.rev run)) acc) [] tl in
          go [] [] evs
        end in
      let fin = if fin_s = "_" then [] else List.map hexn (String.split_on_char '+' fin_s) in
      if refill_ok size evs fin && not (refill_closed_ok size evs !closed) then
        "diff refiller client-closed=" ^ String.concat "," (List.map (fun (a, b) -> hex_of_n a ^ "/" ^ hex_of_n b) !closed)
        ^ " model-released=" ^ String.concat "," (List.map (fun c -> match c.cinfo with Some ((s, n), _) -> hex_of_n s ^ "/" ^ hex_of_n n | None -> "0/0")
                                                   (refill_released size rf_init evs))
      else if refill_ok size evs fin then begin
        (* which branches of the refiller model this history went through (for the coverage floors) *)
        let reqdrop = ref 0 and trimmed = ref 0 and reshards = ref 0 in
        let has r c = List.exists (fun x -> x.cid = c.cid) (List.concat r.rf_conns) || List.exists (fun x -> x.cid = c.cid) r.rf_excess in
        ignore (List.fold_left (fun r e ->
            let r' = pool_step size r e in
            (match e with
             | EvReady (c, req) ->
               if r.rf_sharder <> r'.rf_sharder && List.concat r.rf_conns <> [] then incr reshards;
               if req && not (has r' c) then incr reqdrop;
               if r.rf_excess <> [] && r'.rf_excess = [] && r.rf_sharder = r'.rf_sharder then incr trimmed
             | EvBroken _ -> ());
            r') rf_init evs);
        Printf.sprintf "ok kind=refill events=%d dropped=%d sharders=%d reshards=%d reqdrop=%d trimmed=%d" (List.length evs)
          (int_of_nat (refill_dropped size evs)) (List.length !nrs) !reshards !reqdrop !trimmed
      end
      else "diff refiller model-pool=" ^
           string_of_nlist (List.map (fun c -> match c.cinfo with Some ((s, _), _) -> s | None -> N0)
                              (List.concat (pool_run size evs).rf_conns))
    end
  | _ -> "error unknown-case"

let () = run_lines verdict
