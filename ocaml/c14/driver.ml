(* C14 correspondence driver: rebuilds the recorded history as a run of the extracted
   interleaving systems (Model.g_accept / Model.s_accept) and compares every request and
   every outcome; on a mismatch it evaluates the property predicates (Model.prop_exec_ok /
   prop_batch_tail) on the implementation's own trace to decide viol / diff. *)

let fields c s = String.split_on_char c s

let ctype_of = function "i" -> TInt | "b" -> TBigInt | "t" -> TText | _ -> TBlob
let ctype_s = function TInt -> "i" | TBigInt -> "b" | TText -> "t" | TBlob -> "x"

let cols_of_string s : col list =
  if s = "-" then [] else
  List.map (fun p -> match fields '.' p with
    | [n; t] -> { c_name = n_of_hex n; c_type = ctype_of t }
    | _ -> failwith ("bad col " ^ p)) (fields '+' s)
let string_of_cols (c : col list) =
  if c = [] then "-" else String.concat "+" (List.map (fun x -> hex_of_n x.c_name ^ "." ^ ctype_s x.c_type) c)

let ob_of s : bytes option = if s = "~" then None else Some (bytes_of_hexstr s)
let s_of_ob = function None -> "~" | Some b -> hexstr_of_bytes b
let on_of s : n option = if s = "~" then None else Some (n_of_hex s)
let oz_of s : z option = if s = "~" then None else Some (z_of_hex s)
let cells_of s : cellv list =
  if s = "_" then [] else List.map (fun x -> if x = "N" then None else Some (bytes_of_hexstr x)) (fields '+' s)
let s_of_cells (c : cellv list) =
  if c = [] then "_" else String.concat "+" (List.map (function None -> "N" | Some b -> hexstr_of_bytes b) c)

let value_of s : bytes = if s = "N" || s = "U" then failwith "null/unset bind value" else bytes_of_hexstr s

let strip1 s = String.sub s 1 (String.length s - 1)

(* ---- requests / responses ---- *)
let request_of s : request =
  match fields ':' s with
  | ["x"; id; rmid; v; cons; serial; psize; paging; ts; skip] ->
    Q_execute { f_id = bytes_of_hexstr id; f_rmid = ob_of rmid; f_values = value_of v; f_cons = n_of_hex cons;
                f_serial = on_of serial; f_page_size = on_of psize; f_paging = ob_of paging; f_ts = oz_of ts;
                f_skip = (skip = "1") }
  | ["p"; t] -> Q_prepare (n_of_hex t)
  | ["b"; ty; cons; serial; ts; items] ->
    let item i =
      if i.[0] = 'i' then (match fields '.' (strip1 i) with
          | [id; v] -> BF_id (bytes_of_hexstr id, value_of v) | _ -> failwith "bad batch item")
      else BF_text (n_of_hex (strip1 i)) in
    Q_batch { bf_items = List.map item (fields '+' items); bf_type = n_of_hex ty; bf_cons = n_of_hex cons;
              bf_serial = on_of serial; bf_ts = oz_of ts }
  | _ -> failwith ("bad request " ^ s)

let string_of_request = function
  | Q_execute f ->
    Printf.sprintf "x:%s:%s:%s:%s:%s:%s:%s:%s:%d" (hexstr_of_bytes f.f_id) (s_of_ob f.f_rmid) (hexstr_of_bytes f.f_values)
      (hex_of_n f.f_cons) (match f.f_serial with None -> "~" | Some x -> hex_of_n x)
      (match f.f_page_size with None -> "~" | Some x -> hex_of_n x) (s_of_ob f.f_paging)
      (match f.f_ts with None -> "~" | Some x -> hex_of_z x) (if f.f_skip then 1 else 0)
  | Q_prepare t -> "p:" ^ hex_of_n t
  | Q_batch _ -> "b:..."

let empty_payload = { p_paging = None; p_nrows = N0; p_cells = [] }

(* response, ghost encoding columns, payload *)
let resp_of s : resp * col list * payload =
  match fields ':' s with
  | ["r"; m; paging; nrows; cells; enc] ->
    let meta =
      if m.[0] = 'n' then RM_none (n_of_hex (strip1 m))
      else if m.[0] = 'f' then RM_full (None, cols_of_string (strip1 m))
      else (match String.index_opt m '=' with
          | Some i -> RM_full (Some (bytes_of_hexstr (String.sub m 1 (i - 1))),
                               cols_of_string (String.sub m (i + 1) (String.length m - i - 1)))
          | None -> failwith "bad meta") in
    let pg = ob_of paging and nr = n_of_hex nrows and cl = cells_of cells in
    (RRows { rb_meta = meta; rb_paging = pg; rb_nrows = nr; rb_cells = cl }, cols_of_string enc,
     { p_paging = pg; p_nrows = nr; p_cells = cl })
  | ["v"] -> (RVoid, [], empty_payload)
  | ["u"; id] -> (RUnprepared (bytes_of_hexstr id), [], empty_payload)
  | ["d"; c] -> (RDbError (n_of_hex c), [], empty_payload)
  | ["z"] -> (ROther, [], empty_payload)
  | _ -> failwith ("bad response " ^ s)

(* PREPARED needs the connection's extension flag: the id is on the wire only then *)
let resp_of_ext ext s =
  match fields ':' s with
  | ["P"; id; mid; cols] ->
    let c = cols_of_string cols in
    (RPrepared (bytes_of_hexstr id, meta_of_cols (if ext then ob_of mid else None) c), [], empty_payload)
  | _ -> resp_of s

let err_of s : err =
  match fields ':' s with
  | ["idchanged"] -> E_IdChanged | ["idmissing"] -> E_IdMissingInBatch | ["unprepared"] -> E_Unprepared
  | ["unexpected"] -> E_Unexpected | ["parse"] -> E_Parse
  | ["db"; c] -> E_Db (n_of_hex c)
  | _ -> E_Db (n_of_hex "ffffffff")     (* a class the model never produces: always a mismatch *)

let rec chunk k l =
  if l = [] then [] else
  let rec take i l acc = if i = 0 then (List.rev acc, l) else match l with x :: r -> take (i - 1) r (x :: acc) | [] -> (List.rev acc, []) in
  let (a, b) = take k l [] in a :: chunk k b

let obs_out_of s : obs_out =
  match fields ':' s with
  | ["n"] -> OB_norows
  | "e" :: rest -> OB_err (err_of (String.concat ":" rest))
  | ["R"; cols; paging; rows; typed] ->
    let c = cols_of_string cols in
    let rows =
      if rows = "!" then None else
      match fields '*' rows with
      | [n; cells] ->
        let n = int_of_string ("0x" ^ n) and cl = cells_of cells in
        let w = List.length c in
        Some (if w = 0 then List.init n (fun _ -> []) else chunk w cl)
      | _ -> failwith "bad rows" in
    OB_rows (c, ob_of paging, rows, typed = "1")
  | _ -> failwith ("bad outcome " ^ s)

let string_of_err = function
  | E_IdChanged -> "idchanged" | E_IdMissingInBatch -> "idmissing" | E_Db c -> "db:" ^ hex_of_n c
  | E_Unprepared -> "unprepared" | E_Unexpected -> "unexpected" | E_Parse -> "parse"
let string_of_obs = function
  | OB_norows -> "n" | OB_err e -> "e:" ^ string_of_err e
  | OB_rows (c, pg, rows, t) ->
    Printf.sprintf "R:%s:%s:%s:%d" (string_of_cols c) (s_of_ob pg)
      (match rows with None -> "!" | Some r -> Printf.sprintf "%x*%s" (List.length r) (s_of_cells (List.concat r)))
      (if t then 1 else 0)
let string_of_cstate = function
  | CS_done o -> "done " ^ string_of_obs (obs_of_outcome o)
  | CS_idle -> "idle" | CS_exec1 _ -> "exec1" | CS_prep _ -> "prep" | CS_resend _ -> "resend"
  | CS_exec2 _ -> "exec2" | CS_batch _ -> "batch" | CS_bprep _ -> "bprep"

(* ---- the case ---- *)
type sdef = { late : bool; sid : bytes; vers : (bytes * col list) array }

let nth_default a i d = if i >= 0 && i < Array.length a then a.(i) else d

let verdict case impl =
  match case with
  | "H" :: ext :: nnodes :: ns :: rest ->
    let ext = (ext = "1") in
    let _nnodes = int_of_string ("0x" ^ nnodes) in
    let ns = int_of_string ("0x" ^ ns) in
    let rec split k l acc = if k = 0 then (List.rev acc, l) else match l with x :: r -> split (k - 1) r (x :: acc) | [] -> failwith "short case" in
    let (stoks, optoks) = split ns rest [] in
    let sdefs = Array.of_list (List.map (fun t ->
        match fields '/' t with
        | ["S"; late; sid; vers] ->
          { late = (late = "1"); sid = bytes_of_hexstr sid;
            vers = Array.of_list (List.map (fun v ->
                match String.index_opt v '=' with
                | Some i -> (bytes_of_hexstr (String.sub v 0 i), cols_of_string (String.sub v (i + 1) (String.length v - i - 1)))
                | None -> failwith "bad version") (fields ',' vers)) }
        | _ -> failwith ("bad stmt " ^ t)) stoks) in
    let dummy = { late = false; sid = []; vers = [| ([], []) |] } in
    let sd i = nth_default sdefs (int_of_nat i) dummy in
    let st : nat -> stmt = fun i ->
      let k = int_of_nat i in
      if k < ns then { s_id = (sd i).sid; s_text = n_of_int (k + 1) }
      else { s_id = [n_of_int 255; n_of_int k]; s_text = n_of_int (100000 + k) } in
    let ver i v = nth_default (sd i).vers (int_of_n v) ([], []) in
    let d : schema = {
      cols_of = (fun i v -> snd (ver i v));
      mid_of = (fun i v -> fst (ver i v));
      sid = (fun i k -> if k = N0 then (sd i).sid else (sd i).sid @ [k]);
      late = (fun i -> (sd i).late) } in
    let init : nat -> meta = fun i ->
      let (mid, cols) = ver i N0 in
      meta_of_cols (if ext then Some mid else None) (if (sd i).late then [] else cols) in
    let nodes : nat -> node = fun _ ->
      { n_ext = ext; n_prep = (fun _ -> true); n_ver = (fun _ -> N0); n_salt = (fun _ -> N0) } in
    (* observations *)
    let obs = ref impl in
    let next_obs () = match !obs with x :: r -> obs := r; x | [] -> failwith "missing observation" in
    let forced = ref false in
    let parse_obs node =
      match fields '/' (next_obs ()) with
      | ["O"; nd; xs; out] ->
        if xs = "TRACE-MISMATCH" then failwith "trace-mismatch: a user frame was not seen by the handler";
        if int_of_string ("0x" ^ nd) <> node then failwith "request arrived at another node than the case names";
        let xl = if xs = "-" then [] else List.map (fun e ->
            match String.index_opt e '>' with
            | Some i ->
              let (r, enc, pay) = resp_of_ext ext (String.sub e (i + 1) (String.length e - i - 1)) in
              { x_req = request_of (String.sub e 0 i); x_resp = r; x_enc = enc; x_pay = pay }
            | None -> failwith "bad exchange") (fields ';' xs) in
        (xl, obs_out_of out)
      | _ -> failwith "bad observation" in
    let tr = List.concat_map (fun t ->
        match fields '/' t with
        | ["X"; s; node; uc; psize; paging; value; cons; serial; ts; _pseed; _haspg] ->
          let node = int_of_string ("0x" ^ node) in
          let a = { xa_stmt = nat_of_int (int_of_string ("0x" ^ s)); xa_use_cached = (uc = "1");
                    xa_values = bytes_of_hexstr value; xa_cons = n_of_hex cons; xa_serial = on_of serial;
                    xa_page_size = on_of psize; xa_paging = ob_of paging; xa_ts = oz_of ts } in
          let (xl, out) = parse_obs node in
          [TO_exec (nat_of_int node, ext, a, xl, out)]
        | ["I"; s; node; uc; psize; value; cons; serial; ts; _pseed; _pages] ->
          (* execute_iter: one model call per page the pager fetched; page j+1 starts from the
             paging state the answer to page j carried *)
          let node = int_of_string ("0x" ^ node) in
          let k = (match fields '/' (next_obs ()) with
              | ["OI"; k] -> int_of_string ("0x" ^ k)
              | _ -> failwith "missing OI token") in
          if k < 1 then failwith "execute_iter sent nothing";
          let paging = ref None and more = ref true and acc = ref [] in
          for _j = 1 to k do
            if not !more then failwith "the pager fetched a page after the last one";
            let a = { xa_stmt = nat_of_int (int_of_string ("0x" ^ s)); xa_use_cached = (uc = "1");
                      xa_values = bytes_of_hexstr value; xa_cons = n_of_hex cons; xa_serial = on_of serial;
                      xa_page_size = on_of psize; xa_paging = !paging; xa_ts = oz_of ts } in
            let (xl, out) = parse_obs node in
            (match List.rev xl with
             | { x_resp = RRows b; _ } :: _ -> paging := b.rb_paging; more := (b.rb_paging <> None)
             | _ -> more := false);
            acc := TO_exec (nat_of_int node, ext, a, xl, out) :: !acc
          done;
          List.rev !acc
        | ["B"; node; ty; cons; serial; ts; items] ->
          let node = int_of_string ("0x" ^ node) in
          let item i =
            if i.[0] = 'p' then (match fields '.' (strip1 i) with
                | [s; v] -> BI_prep (nat_of_int (int_of_string ("0x" ^ s)), bytes_of_hexstr v)
                | _ -> failwith "bad item")
            else BI_query (n_of_hex (strip1 i)) in
          let b = { ba_items = List.map item (fields '+' items); ba_type = n_of_hex ty; ba_cons = n_of_hex cons;
                    ba_serial = on_of serial; ba_ts = oz_of ts } in
          let (xl, out) = parse_obs node in
          [TO_batch (nat_of_int node, ext, b, xl, out)]
        | ["E"; node; kind; s; arg] ->
          let s = nat_of_int (int_of_string ("0x" ^ s)) in
          let e = match kind with
            | "p" -> EV_prepared s | "e" -> EV_evicted s | "s" -> EV_schema (s, n_of_hex arg)
            | _ -> EV_idchange (s, n_of_hex arg) in
          [TO_event (nat_of_int (int_of_string ("0x" ^ node)), e)]
        | "F" :: _ -> forced := true; []
        | _ -> failwith ("bad op " ^ t)) optoks in
    let show_v = function
      | V_ok _ -> "ok"
      | V_req (pos, q) -> Printf.sprintf "request#%d model=%s" (int_of_nat pos) (match q with None -> "none" | Some q -> string_of_request q)
      | V_out cs -> "outcome model=" ^ string_of_cstate cs
      | V_srv (pos, _) -> Printf.sprintf "mock-answer#%d differs from the specification node" (int_of_nat pos)
      | V_stuck -> "stuck" in
    (* the property predicate on every client op of the implementation's own trace *)
    let prop_failures () =
      List.concat (List.mapi (fun i o ->
          match o with
          | TO_exec (_, e, a, xs, out) ->
            let faithful_expected = (not !forced) && (e || not a.xa_use_cached) in
            if prop_exec_ok st faithful_expected a xs out then [] else [i]
          | TO_batch (_, _, b, xs, out) ->
            if prop_batch_tail st b (mk_batch_frame st b) xs out then [] else [i]
          | TO_event _ -> []) tr) in
    let check_prop = (try Sys.getenv "C14_CHECK_PROP" = "1" with Not_found -> false) in
    (match g_accept st (ginit init) O tr with
     | (_, V_ok _) ->
       if check_prop && prop_failures () <> [] then "error property-predicate-rejects-accepted-trace" else
       if !forced then "ok" else
         (match s_accept d st (nat_of_int ns) (sinit init nodes) O tr with
          | (_, V_ok _) ->
            (* model = implementation = specification nodes.  The model follows the code AS IT IS;
               the property's own bookkeeping (columns most recently announced for the statement)
               is evaluated on the implementation's trace: known finding F17 *)
            let an0 = { an_latest = (fun i -> (init i).m_cols); an_reprep = (fun _ -> false) } in
            (match stale_check st (nat_of_int ns) an0 O tr with
             | [] -> "ok"
             | hits ->
               let idx l = String.concat "," (List.map (fun (i, _) -> string_of_int (int_of_nat i)) l) in
               let outside = List.filter (fun (_, c) -> not c) hits in
               if outside <> [] then
                 Printf.sprintf "viol rows-decoded-with-columns-other-than-most-recently-announced ops=%s" (idx outside)
               else
                 Printf.sprintf "viol class=stale-cached-metadata-without-ext ops=%s (no extension, cached metadata requested, re-preparation announced other columns)" (idx hits))
          | (i, v) -> Printf.sprintf "error spec-system op=%d %s" (int_of_nat i) (show_v v))
     | (i, v) ->
       (match prop_failures () with
        | [] -> Printf.sprintf "diff op=%d %s" (int_of_nat i) (show_v v)
        | l -> Printf.sprintf "viol ops=%s first-model-mismatch: op=%d %s"
                 (String.concat "," (List.map string_of_int l)) (int_of_nat i) (show_v v)))
  | _ -> "error unknown-case"

let () = run_lines verdict
