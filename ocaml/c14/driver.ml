(* C14 correspondence driver: rebuilds the recorded history as a run of the extracted
   interleaving systems (Model.g_accept / Model.s_accept) and compares every request and
   every outcome; on a mismatch it evaluates the property predicates (Model.prop_exec_ok /
   prop_batch_tail) on the implementation's own trace to decide viol / diff. *)

exception Notrun of string
exception Viol of string

let fields c s = String.split_on_char c s

let ctype_of = function "i" -> TInt | "b" -> TBigInt | "t" -> TText | _ -> TBlob
let ctype_s = function TInt -> "i" | TBigInt -> "b" | TText -> "t" | TBlob -> "x"

let cols_of_string s : col list =
  if s = "-" then [] else
  List.map (fun p -> match fields '.' p with
    | [n; t] -> { c_name = n_of_hex n; c_type = ctype_of t }
    | _ -> failwith ("bad col " ^ p)) (fields '+' s)
let string_of_cols (c : col list) =
  if c = [] then "-" else String.concat "+" (List.map (fun x -> hex_of_n x.c_name ^ "." ^ ctype_s x.c_type) c)

let ob_of s : bytes option = if s = "~" then None else Some (bytes_of_hexstr s)
let s_of_ob = function None -> "~" | Some b -> hexstr_of_bytes b
let on_of s : n option = if s = "~" then None else Some (n_of_hex s)
let oz_of s : z option = if s = "~" then None else Some (z_of_hex s)
let cells_of s : cellv list =
  if s = "_" then [] else List.map (fun x -> if x = "N" then None else Some (bytes_of_hexstr x)) (fields '+' s)
let s_of_cells (c : cellv list) =
  if c = [] then "_" else String.concat "+" (List.map (function None -> "N" | Some b -> hexstr_of_bytes b) c)

let value_of s : bytes = if s = "N" || s = "U" then failwith "null/unset bind value" else bytes_of_hexstr s

let strip1 s = String.sub s 1 (String.length s - 1)

(* ---- requests / responses ---- *)
let request_of s : request =
  match fields ':' s with
  | ["x"; id; rmid; v; cons; serial; psize; paging; ts; skip] ->
    Q_execute { f_id = bytes_of_hexstr id; f_rmid = ob_of rmid; f_values = value_of v; f_cons = n_of_hex cons;
                f_serial = on_of serial; f_page_size = on_of psize; f_paging = ob_of paging; f_ts = oz_of ts;
                f_skip = (skip = "1") }
  | ["p"; t] -> Q_prepare (n_of_hex t)
  | ["b"; ty; cons; serial; ts; items] ->
    let item i =
      if i.[0] = 'i' then (match fields '.' (strip1 i) with
          | [id; v] -> BF_id (bytes_of_hexstr id, value_of v) | _ -> failwith "bad batch item")
      else BF_text (n_of_hex (strip1 i)) in
    Q_batch { bf_items = List.map item (fields '+' items); bf_type = n_of_hex ty; bf_cons = n_of_hex cons;
              bf_serial = on_of serial; bf_ts = oz_of ts }
  | _ -> failwith ("bad request " ^ s)

let string_of_request = function
  | Q_execute f ->
    Printf.sprintf "x:%s:%s:%s:%s:%s:%s:%s:%s:%d" (hexstr_of_bytes f.f_id) (s_of_ob f.f_rmid) (hexstr_of_bytes f.f_values)
      (hex_of_n f.f_cons) (match f.f_serial with None -> "~" | Some x -> hex_of_n x)
      (match f.f_page_size with None -> "~" | Some x -> hex_of_n x) (s_of_ob f.f_paging)
      (match f.f_ts with None -> "~" | Some x -> hex_of_z x) (if f.f_skip then 1 else 0)
  | Q_prepare t -> "p:" ^ hex_of_n t
  | Q_batch _ -> "b:..."

let empty_payload = { p_paging = None; p_nrows = N0; p_cells = [] }

(* response, ghost encoding columns, payload *)
let resp_of s : resp * col list * payload =
  match fields ':' s with
  | ["r"; m; paging; nrows; cells; enc] ->
    let meta =
      if m.[0] = 'n' then RM_none (n_of_hex (strip1 m))
      else if m.[0] = 'f' then RM_full (None, cols_of_string (strip1 m))
      else (match String.index_opt m '=' with
          | Some i -> RM_full (Some (bytes_of_hexstr (String.sub m 1 (i - 1))),
                               cols_of_string (String.sub m (i + 1) (String.length m - i - 1)))
          | None -> failwith "bad meta") in
    let pg = ob_of paging and nr = n_of_hex nrows and cl = cells_of cells in
    (RRows { rb_meta = meta; rb_paging = pg; rb_nrows = nr; rb_cells = cl }, cols_of_string enc,
     { p_paging = pg; p_nrows = nr; p_cells = cl })
  | ["v"] -> (RVoid, [], empty_payload)
  | ["u"; id] -> (RUnprepared (bytes_of_hexstr id), [], empty_payload)
  | ["d"; c] -> (RDbError (n_of_hex c), [], empty_payload)
  | ["z"] -> (ROther, [], empty_payload)
  | _ -> failwith ("bad response " ^ s)

(* PREPARED needs the connection's extension flag: the id is on the wire only then *)
let resp_of_ext ext s =
  match fields ':' s with
  | ["P"; id; mid; cols] ->
    let c = cols_of_string cols in
    (RPrepared (bytes_of_hexstr id, meta_of_cols (if ext then ob_of mid else None) c), [], empty_payload)
  | _ -> resp_of s

let err_of s : err =
  match fields ':' s with
  | ["idchanged"] -> E_IdChanged | ["idmissing"] -> E_IdMissingInBatch | ["unprepared"] -> E_Unprepared
  | ["unexpected"] -> E_Unexpected | ["parse"] -> E_Parse
  | ["db"; c] -> E_Db (n_of_hex c)
  | "exec" :: _ ->
    (* request timeout, empty plan, no connection in the pool: the environment, not the property.
       Everything else the code under test produced (other:*, page:*, rows-missing, …) falls
       through to a class the model never yields: a mismatch, judged by the property predicate *)
    raise (Notrun ("client call ended with " ^ s))
  | _ -> E_Db (n_of_hex "ffffffff")     (* a class the model never produces: always a mismatch *)

let rec chunk k l =
  if l = [] then [] else
  let rec take i l acc = if i = 0 then (List.rev acc, l) else match l with x :: r -> take (i - 1) r (x :: acc) | [] -> (List.rev acc, []) in
  let (a, b) = take k l [] in a :: chunk k b

let obs_out_of s : obs_out =
  match fields ':' s with
  | ["n"] -> OB_norows
  | "e" :: rest -> OB_err (err_of (String.concat ":" rest))
  | ["R"; cols; paging; rows; typed] ->
    let c = cols_of_string cols in
    let rows =
      if rows = "!" then None else
      match fields '*' rows with
      | [n; cells] ->
        let n = int_of_string ("0x" ^ n) and cl = cells_of cells in
        let w = List.length c in
        Some (if w = 0 then List.init n (fun _ -> []) else chunk w cl)
      | _ -> failwith "bad rows" in
    OB_rows (c, ob_of paging, rows, typed = "1")
  | _ -> failwith ("bad outcome " ^ s)

let string_of_err = function
  | E_IdChanged -> "idchanged" | E_IdMissingInBatch -> "idmissing" | E_Db c -> "db:" ^ hex_of_n c
  | E_Unprepared -> "unprepared" | E_Unexpected -> "unexpected" | E_Parse -> "parse"
let string_of_obs = function
  | OB_norows -> "n" | OB_err e -> "e:" ^ string_of_err e
  | OB_rows (c, pg, rows, t) ->
    Printf.sprintf "R:%s:%s:%s:%d" (string_of_cols c) (s_of_ob pg)
      (match rows with None -> "!" | Some r -> Printf.sprintf "%x*%s" (List.length r) (s_of_cells (List.concat r)))
      (if t then 1 else 0)
let string_of_cstate = function
  | CS_done o -> "done " ^ string_of_obs (obs_of_outcome o)
  | CS_idle -> "idle" | CS_exec1 _ -> "exec1" | CS_prep _ -> "prep" | CS_resend _ -> "resend"
  | CS_exec2 _ -> "exec2" | CS_batch _ -> "batch" | CS_bprep _ -> "bprep"

(* ---- the case ---- *)
type sdef = { late : bool; sid : bytes; vers : (bytes * col list) array }

let nth_default a i d = if i >= 0 && i < Array.length a then a.(i) else d

let verdict case impl =
  match case with
  | "H" :: ext :: nnodes :: ns :: rest ->
    let nnodes = int_of_string ("0x" ^ nnodes) in
    let exts = if String.length ext = 1 then Array.make nnodes (ext = "1")
      else Array.init nnodes (fun i -> ext.[i] = '1') in
    let ext_of nd = if nd >= 0 && nd < nnodes then exts.(nd) else false in
    let mixed = Array.exists (fun e -> e <> exts.(0)) exts in
    let ns = int_of_string ("0x" ^ ns) in
    let rec split k l acc = if k = 0 then (List.rev acc, l) else match l with x :: r -> split (k - 1) r (x :: acc) | [] -> failwith "short case" in
    let (stoks, optoks) = split ns rest [] in
    let sdefs = Array.of_list (List.map (fun t ->
        match fields '/' t with
        | ["S"; late; sid; vers] ->
          { late = (late = "1"); sid = bytes_of_hexstr sid;
            vers = Array.of_list (List.map (fun v ->
                match String.index_opt v '=' with
                | Some i -> (bytes_of_hexstr (String.sub v 0 i), cols_of_string (String.sub v (i + 1) (String.length v - i - 1)))
                | None -> failwith "bad version") (fields ',' vers)) }
        | _ -> failwith ("bad stmt " ^ t)) stoks) in
    let dummy = { late = false; sid = []; vers = [| ([n_of_int 0], []) |] } in
    let sd i = nth_default sdefs (int_of_nat i) dummy in
    let st : nat -> stmt = fun i ->
      let k = int_of_nat i in
      if k < ns then { s_id = (sd i).sid; s_text = n_of_int (k + 1) }
      else { s_id = [n_of_int 255; n_of_int k]; s_text = n_of_int (100000 + k) } in
    let ver i v = nth_default (sd i).vers (int_of_n v) ([n_of_int 0], []) in
    let d : schema = {
      cols_of = (fun i v -> snd (ver i v));
      mid_of = (fun i v -> fst (ver i v));
      sid = (fun i k -> if k = N0 then (sd i).sid else (sd i).sid @ [k]);
      late = (fun i -> (sd i).late) } in
    (* the initial cell is the result metadata of the PREPARED answer Session::prepare picked: with the
       id of version 0 if that node has the extension, without an id otherwise (C14_prepare_on_all) *)
    (* version a node is at when Session::prepare runs: in a mixed cluster the nodes WITHOUT the extension
       start at version 1 (where the statement has one), so that the columns of the fresh statement tell
       which kind of node its PREPARED came from *)
    let plain_ver i = if mixed && Array.length (sd i).vers >= 2 then n_of_int 1 else N0 in
    (* the initial cell is the result metadata of the PREPARED answer Session::prepare kept
       (C14_prepare_on_all): from an extension node = id and columns of version 0; from a plain node =
       no id, columns of the plain nodes' version *)
    let init_from (choice : int -> bool) : nat -> meta = fun i ->
      if choice (int_of_nat i) then
        let (mid, cols) = ver i N0 in meta_of_cols (Some mid) (if (sd i).late then [] else cols)
      else
        let (_, cols) = ver i (plain_ver i) in meta_of_cols None (if (sd i).late then [] else cols) in
    let nodes : nat -> node = fun nd ->
      { n_ext = ext_of (int_of_nat nd); n_prep = (fun _ -> true);
        n_ver = (fun i -> if ext_of (int_of_nat nd) then N0 else plain_ver i); n_salt = (fun _ -> N0) } in
    (* observations *)
    let obs = ref (List.filter (fun t -> t <> "-") impl) in      (* "-" = a history without client calls *)
    let next_obs () = match !obs with x :: r -> obs := r; x | [] -> raise (Notrun "runner produced fewer observations than the case has calls") in
    let forced = ref false and has_par = ref false in
    let observed_init : col list array option =
      (match !obs with
       | t :: r when String.length t > 2 && String.sub t 0 2 = "J/" ->
         obs := r;
         Some (Array.of_list (List.map cols_of_string (fields ';' (String.sub t 2 (String.length t - 2)))))
       | _ -> None) in
    let parse_obs node =
      match fields '/' (next_obs ()) with
      | ["O"; nd; xs; out] ->
        if xs = "TRACE-MISMATCH" then raise (Notrun "a user frame bypassed the handler (trace mismatch)");
        let nd = int_of_string ("0x" ^ nd) in
        let out = obs_out_of out in
        (* exchanges of ONE call on different nodes: "re-prepares that statement ON THAT NODE" fails *)
        if nd = 0xfe then raise (Viol "re-preparation / resend went to another node than the first EXECUTE");
        if nd <> node then raise (Notrun "the pinned load-balancing policy did not route the call to the named node");
        let xl = if xs = "-" then [] else List.map (fun e ->
            match String.index_opt e '>' with
            | Some i ->
              let (r, enc, pay) = resp_of_ext (ext_of nd) (String.sub e (i + 1) (String.length e - i - 1)) in
              { x_req = request_of (String.sub e 0 i); x_resp = r; x_enc = enc; x_pay = pay }
            | None -> failwith "bad exchange") (fields ';' xs) in
        (xl, out)
      | _ -> failwith "bad observation" in
    let xargs_of s uc psize paging value cons serial ts =
      { xa_stmt = nat_of_int (int_of_string ("0x" ^ s)); xa_use_cached = (uc = "1");
        xa_values = bytes_of_hexstr value; xa_cons = n_of_hex cons; xa_serial = on_of serial;
        xa_page_size = on_of psize; xa_paging = paging; xa_ts = oz_of ts } in
    (* items: Seq op | Par (op, op) *)
    let pending_par = ref 0 in
    let items = ref [] in
    let par_buf = ref [] in
    let push_op o =
      if !pending_par > 0 then begin
        par_buf := o :: !par_buf; decr pending_par;
        if !pending_par = 0 then (match !par_buf with [b; a] -> items := `Par (a, b) :: !items; par_buf := [] | _ -> failwith "bad Y")
      end else items := `Seq o :: !items in
    List.iter (fun t ->
        match fields '/' t with
        | ["X"; s; node; uc; psize; paging; value; cons; serial; ts; _pseed; _haspg] ->
          let node = int_of_string ("0x" ^ node) in
          let a = xargs_of s uc psize (ob_of paging) value cons serial ts in
          let (xl, out) = parse_obs node in
          push_op (TO_exec (nat_of_int node, ext_of node, a, xl, out))
        | ["I"; s; node; uc; psize; value; cons; serial; ts; _pseed; _pages] ->
          (* execute_iter: one model call per page the pager fetched; page j+1 starts from the
             paging state the answer to page j carried *)
          let node = int_of_string ("0x" ^ node) in
          let k = (match fields '/' (next_obs ()) with
              | ["OI"; k] -> int_of_string ("0x" ^ k)
              | _ -> failwith "missing OI token") in
          if k < 1 then raise (Notrun "execute_iter sent nothing");
          let paging = ref None and more = ref true in
          for _j = 1 to k do
            if not !more then failwith "the pager fetched a page after the last one";
            let a = xargs_of s uc psize !paging value cons serial ts in
            let (xl, out) = parse_obs node in
            (match List.rev xl with
             | { x_resp = RRows b; _ } :: _ -> paging := b.rb_paging; more := (b.rb_paging <> None)
             | _ -> more := false);
            push_op (TO_exec (nat_of_int node, ext_of node, a, xl, out))
          done
        | ["B"; node; ty; cons; serial; ts; its] ->
          let node = int_of_string ("0x" ^ node) in
          let item i =
            if i.[0] = 'p' then (match fields '.' (strip1 i) with
                | [s; v] -> BI_prep (nat_of_int (int_of_string ("0x" ^ s)), bytes_of_hexstr v)
                | _ -> failwith "bad item")
            else BI_query (n_of_hex (strip1 i)) in
          let b = { ba_items = List.map item (fields '+' its); ba_type = n_of_hex ty; ba_cons = n_of_hex cons;
                    ba_serial = on_of serial; ba_ts = oz_of ts } in
          let (xl, out) = parse_obs node in
          push_op (TO_batch (nat_of_int node, ext_of node, b, xl, out))
        | ["E"; node; kind; s; arg] ->
          let s = nat_of_int (int_of_string ("0x" ^ s)) in
          let e = match kind with
            | "p" -> EV_prepared s | "e" -> EV_evicted s | "s" -> EV_schema (s, n_of_hex arg)
            | _ -> EV_idchange (s, n_of_hex arg) in
          push_op (TO_event (nat_of_int (int_of_string ("0x" ^ node)), e))
        | ["Y"; _; _] -> has_par := true; pending_par := 2
        | ["Z"; _; _] -> ()    (* k concurrent executes of DISTINCT statements on one connection: the statements are
                                 independent (own id, own cell, own entry in the node's cache), so each caller's
                                 exchanges — projected by statement id — are judged as one sequential operation *)
        | "F" :: _ -> forced := true
        | _ -> failwith ("bad op " ^ t)) optoks;
    let items = List.rev !items in
    if !obs <> [] then failwith "more observations than client calls";
    let tr = List.concat_map (function `Seq o -> [o] | `Par (a, b) -> [a; b]) items in
    let show_v = function
      | V_ok _ -> "ok"
      | V_req (pos, q) -> Printf.sprintf "request#%d model=%s" (int_of_nat pos) (match q with None -> "none" | Some q -> string_of_request q)
      | V_out cs -> "outcome model=" ^ string_of_cstate cs
      | V_srv (pos, _) -> Printf.sprintf "mock-answer#%d differs from the specification node" (int_of_nat pos)
      | V_stuck -> "stuck" in
    let judge (init : nat -> meta) =
      let an0 = { an_latest = (fun i -> (init i).m_cols); an_id = (fun i -> (init i).m_id); an_reprep = (fun _ -> false) } in
      let spec_history = (not !forced) && (not !has_par) in
      let book_history = spec_history && not mixed in
      (* the property predicate on one client op of the implementation's own trace *)
      let prop_ok o =
        match o with
        | TO_exec (_, e, a, xs, out) ->
          prop_exec_ok st ((not !forced) && (e || not a.xa_use_cached)) a xs out
        | TO_batch (_, _, b, xs, out) -> prop_batch_tail st b (mk_batch_frame st b) xs out
        | TO_event _ -> true in
      (* the announced-metadata bookkeeping (decoded columns, presented id, skip flag) up to op k *)
      let bookkeeping upto =
        if not book_history then [] else
          let rec firstn k l = if k <= 0 then [] else match l with x :: r -> x :: firstn (k - 1) r | [] -> [] in
          stale_check st (nat_of_int ns) true an0 O (firstn upto tr) in
      (* run the model over the items *)
      let rec run g c idx = function
        | [] -> `Fine g
        | `Seq o :: rest ->
          (match g_accept st g (nat_of_int c) [o] with
           | (_, V_ok g') -> run g' (c + 1) (idx + 1) rest
           | (_, v) -> `Bad (idx, [o], show_v v))
        | `Par (a, b) :: rest ->
          let pc id o = match o with
            | TO_exec (_, e, ar, xs, out) -> { pc_id = nat_of_int id; pc_ext = e; pc_args = ar; pc_started = false; pc_xs = xs; pc_out = out }
            | _ -> failwith "Y needs two X ops" in
          (* any interleaving of the two calls' client-side steps after which the rest of the history runs *)
          let fine g' = (match run g' (c + 2) (idx + 2) rest with `Fine _ -> true | `Bad _ -> false) in
          (match g_par (nat_of_int 80) st fine g [] [pc c a; pc (c + 1) b] with
           | Some g' -> run g' (c + 2) (idx + 2) rest
           | None ->
             (match g_par (nat_of_int 80) st (fun _ -> true) g [] [pc c a; pc (c + 1) b] with
              | Some g' -> run g' (c + 2) (idx + 2) rest      (* reports the later op that no interleaving explains *)
              | None -> `Bad (idx, [a; b], "no interleaving of the two concurrent calls is a run of the model"))) in
      (* "the new metadata id … is also what the next execution presents", for histories with
         concurrent callers too: per statement, [recent] = the ids announced by the latest item (operation
         or concurrent pair) that announced any, [older] = every id announced before (and the one of
         preparation).  An EXECUTE of the mismatching ops that presents an id of [older] that is not in
         [recent] has gone back to an older announcement. *)
      let older_id_presented idx ops =
        let announced o = match o with
          | TO_exec (_, _, a, xs, _) ->
            List.concat_map (fun x -> match x.x_req, x.x_resp with
                | Q_execute _, RRows { rb_meta = RM_full (Some i, _); _ } -> [(int_of_nat a.xa_stmt, i)]
                | Q_prepare _, RPrepared (id, m) when id = (st a.xa_stmt).s_id && m.m_cols <> [] ->
                  (match m.m_id with Some i -> [(int_of_nat a.xa_stmt, i)] | None -> [])
                | _ -> []) xs
          | _ -> [] in
        let recent = Hashtbl.create 4 and older = Hashtbl.create 4 in
        for s = 0 to ns - 1 do
          (match (init (nat_of_int s)).m_id with Some i -> Hashtbl.replace recent s [i] | None -> Hashtbl.replace recent s []);
          Hashtbl.replace older s []
        done;
        let pos = ref 0 in
        List.iter (fun it ->
            let os = (match it with `Seq o -> [o] | `Par (a, b) -> [a; b]) in
            if !pos < idx then begin
              let ann = List.concat_map announced os in
              List.iter (fun s ->
                  let mine = List.filter_map (fun (s', i) -> if s' = s then Some i else None) ann in
                  if mine <> [] then begin
                    Hashtbl.replace older s ((try Hashtbl.find recent s with Not_found -> []) @ (try Hashtbl.find older s with Not_found -> []));
                    Hashtbl.replace recent s mine
                  end) (List.init ns (fun s -> s))
            end;
            pos := !pos + List.length os) items;
        List.exists (fun o -> match o with
            | TO_exec (_, true, a, xs, _) ->
              let s = int_of_nat a.xa_stmt in
              let r = (try Hashtbl.find recent s with Not_found -> []) and ol = (try Hashtbl.find older s with Not_found -> []) in
              (match xs with
               | { x_req = Q_execute f; _ } :: _ ->
                 (match f.f_rmid with Some i -> i <> [] && List.mem i ol && not (List.mem i r) | None -> false)
               | _ -> false)
            | _ -> false) ops in
      (match run (ginit init) 0 0 items with
       | `Bad (idx, ops, why) ->
         (* model and implementation differ on these ops: property failure or broken correspondence? *)
         let bad_book = List.filter (fun (i, _) -> int_of_nat i >= idx) (bookkeeping (idx + List.length ops)) in
         if List.exists (fun o -> not (prop_ok o)) ops then
           Printf.sprintf "viol op=%d property predicate fails on the implementation's trace; model mismatch: %s" idx why
         else if bad_book <> [] then
           Printf.sprintf "viol op=%d %s; model mismatch: %s" idx
             (match snd (List.hd bad_book) with
              | None -> "an EXECUTE presents another metadata id / skip flag than the most recently announced metadata asks for"
              | _ -> "rows decoded with columns other than the most recently announced") why
         else if (not !forced) && older_id_presented idx ops then
           Printf.sprintf "viol op=%d an EXECUTE presents a metadata id older than the last announced one (stale snapshot written back?); model mismatch: %s" idx why
         else Printf.sprintf "diff op=%d %s" idx why
       | `Fine gfinal ->
         (* accepted by the generic system.  Property predicate before every ok. *)
         let bad = List.concat (List.mapi (fun i o -> if prop_ok o then [] else [i]) tr) in
         if bad <> [] then
           Printf.sprintf "viol ops=%s property predicate fails on a trace the model accepts" (String.concat "," (List.map string_of_int bad))
         else if not spec_history then "ok" else
           (match s_accept d st (nat_of_int ns) (sinit init nodes) O tr with
            | (_, V_ok _) ->
              (* model = implementation = specification nodes.  The model follows the code AS IT IS;
                 the property's own bookkeeping (metadata most recently announced for the statement)
                 is evaluated on the implementation's trace: known finding F17 *)
              let ncalls = nat_of_int (List.length tr) in
              let decoded i = match List.nth tr (int_of_nat i) with
                | TO_exec (_, _, _, _, OB_rows (c, _, _, _)) -> c | _ -> [] in
              (match bookkeeping (List.length tr) with
               | [] when mixed ->
                 (* mixed cluster: per-node bookkeeping of the nodes WITHOUT the extension (the nodes announce
                    different columns): rows that came without metadata from such a node, decoded with other
                    columns than that node most recently announced (at preparation / in a re-preparation) *)
                 let prep_cols nd i = (init_from (fun _ -> ext_of (int_of_nat nd)) i).m_cols in
                 let an_nodes = (fun nd i -> (prep_cols nd i, false)) in
                 (match plain_node_check st (nat_of_int ns) an_nodes O tr with
                  | [] -> "ok"
                  | hits ->
                    let idx l = String.concat "," (List.map (fun (i, _) -> string_of_int (int_of_nat i)) l) in
                    let in_class (i, from_reprep) =
                      (match List.nth tr (int_of_nat i) with
                       | TO_exec (_, e, a, _, OB_rows (c, _, _, _)) ->
                         if from_reprep then known_classb st gfinal ncalls i c
                         else known_class_prepb (List.init nnodes (fun nd -> prep_cols (nat_of_int nd) a.xa_stmt)) e a.xa_use_cached c
                       | _ -> false) in
                    (* two open findings: F17 (the node's re-preparation was ignored) and F25 (the node's answer at
                       preparation was discarded).  A tag only if EVERY hit of the history is in the class of its own
                       shape; a history with hits of both shapes (about 2 per 1 200 cases: the stricter "one class per
                       history" rule fails seeds 1 and 7) is tagged with the class of its FIRST hit and says so; a hit
                       outside its class is a plain viol *)
                    let all_reprep = List.for_all (fun (_, r) -> r) hits and all_prep = List.for_all (fun (_, r) -> not r) hits in
                    if List.for_all in_class hits && all_reprep then
                      Printf.sprintf "viol class=stale-cached-metadata-without-ext shape=re-preparation-ignored ops=%s (mixed cluster: node without the extension, cached metadata requested, its re-preparation announced other columns)" (idx hits)
                    else if List.for_all in_class hits && all_prep then
                      Printf.sprintf "viol class=foreign-cached-metadata-without-ext shape=answer-at-preparation-discarded ops=%s (nodes announce different columns: node without the extension, cached metadata requested, its own PREPARED at preparation was discarded by Session::prepare)" (idx hits)
                    else if List.for_all in_class hits then
                      Printf.sprintf "viol class=%s shape=both-first-hit-decides ops=%s (mixed cluster: hits of both known shapes F17 and F25 in one history, each in its own class)"
                        (if snd (List.hd hits) then "stale-cached-metadata-without-ext" else "foreign-cached-metadata-without-ext") (idx hits)
                    else
                      Printf.sprintf "viol rows from a node without the extension decoded with columns other than that node announced ops=%s"
                        (idx (List.filter (fun h -> not (in_class h)) hits)))
               | [] -> "ok"
               | hits ->
                 let idx l = String.concat "," (List.map (fun (i, _) -> string_of_int (int_of_nat i)) l) in
                 let in_class (i, cl) = cl = Some true && known_classb st gfinal ncalls i (decoded i) in
                 let outside = List.filter (fun h -> not (in_class h)) hits in
                 if outside <> [] then
                   Printf.sprintf "viol %s ops=%s"
                     (if List.exists (fun (_, cl) -> cl = None) outside
                      then "an EXECUTE presents another metadata id / skip flag than announced"
                      else "rows decoded with columns other than the most recently announced") (idx outside)
                 else
                   Printf.sprintf "viol class=stale-cached-metadata-without-ext ops=%s (no extension, cached metadata requested, re-preparation announced other columns)" (idx hits))
            | (i, v) -> Printf.sprintf "error spec-system op=%d %s" (int_of_nat i) (show_v v))) in
    (* which PREPARED answer Session::prepare kept, per statement.  Uniform cluster: no choice.  Mixed
       cluster: the column specs observed right after the prepare decide (extension nodes are at version
       0, plain nodes at version 1); where the two answers have the same columns both are tried.  Columns
       that no node announced: the sentence "at preparation" fails. *)
    let choices_of i : bool list =
      if not mixed then [exts.(0)]
      else
        let c_ext = (init_from (fun _ -> true) (nat_of_int i)).m_cols
        and c_plain = (init_from (fun _ -> false) (nat_of_int i)).m_cols in
        (match observed_init with
         | Some a when i < Array.length a ->
           let o = a.(i) in
           (if o = c_ext then [true] else []) @ (if o = c_plain then [false] else [])
         | _ -> raise (Notrun "mixed cluster without the initial column specs")) in
    let per_stmt = List.init ns choices_of in
    if List.exists (fun l -> l = []) per_stmt then
      "viol the column specs of a freshly prepared statement are not what any node announced at preparation"
    else begin
      let rec product = function
        | [] -> [[]]
        | l :: r -> List.concat_map (fun x -> List.map (fun t -> x :: t) (product r)) l in
      let verdicts = List.map (fun ch -> judge (init_from (fun i -> if i < List.length ch then List.nth ch i else true))) (product per_stmt) in
      (match List.filter (fun v -> String.length v >= 2 && String.sub v 0 2 = "ok") verdicts with
       | v :: _ -> v
       | [] -> (match List.filter (fun v -> String.length v >= 10 && String.sub v 0 10 = "viol class") verdicts with
           | v :: _ -> v
           | [] -> List.hd verdicts))
    end
  | "P" :: exts :: stok :: optoks ->
    (* Session::prepare against nodes in different states *)
    let nnodes = String.length exts in
    let ext_of nd = nd >= 0 && nd < nnodes && exts.[nd] = '1' in
    let (late, sid, vers) = (match fields '/' stok with
        | ["S"; late; sid; vers] ->
          (late = "1", bytes_of_hexstr sid,
           Array.of_list (List.map (fun v -> match String.index_opt v '=' with
               | Some i -> (bytes_of_hexstr (String.sub v 0 i), cols_of_string (String.sub v (i + 1) (String.length v - i - 1)))
               | None -> failwith "bad version") (fields ',' vers)))
        | _ -> failwith "bad stmt") in
    let st : nat -> stmt = fun i -> if i = O then { s_id = sid; s_text = n_of_int 1 } else { s_id = [n_of_int 255]; s_text = n_of_int 99999 } in
    let ver v = nth_default vers (int_of_n v) ([n_of_int 0], []) in
    let d : schema = { cols_of = (fun _ v -> snd (ver v)); mid_of = (fun _ v -> fst (ver v));
                       sid = (fun _ k -> if k = N0 then sid else sid @ [k]); late = (fun _ -> late) } in
    let nodes = Array.init nnodes (fun nd -> { n_ext = ext_of nd; n_prep = (fun _ -> false); n_ver = (fun _ -> N0); n_salt = (fun _ -> N0) }) in
    let forced = ref false in
    List.iter (fun t -> match fields '/' t with
        | ["E"; node; kind; s; arg] ->
          let nd = int_of_string ("0x" ^ node) and s = nat_of_int (int_of_string ("0x" ^ s)) in
          let e = match kind with "p" -> EV_prepared s | "e" -> EV_evicted s | "s" -> EV_schema (s, n_of_hex arg) | _ -> EV_idchange (s, n_of_hex arg) in
          nodes.(nd) <- node_event nodes.(nd) e
        | "F" :: _ -> forced := true
        | _ -> failwith "bad P op") optoks;
    (match impl with
     | [tok] ->
       (match fields '/' tok with
        | ["Q"; xs; out] ->
          let rs = List.map (fun e -> match String.index_opt e '@' with
              | Some i ->
                let nd = int_of_string ("0x" ^ String.sub e 0 i) in
                let (r, _, _) = resp_of_ext (ext_of nd) (String.sub e (i + 1) (String.length e - i - 1)) in
                (nd, r)
              | None -> failwith "bad P exchange") (fields ';' xs) in
          (* every unforced answer is the specification node's *)
          let n_rs = List.length rs in
          let rec split k l = if k = 0 then ([], l) else match l with x :: r -> let (a, b) = split (k - 1) r in (x :: a, b) | [] -> ([], []) in
          let (round1, round2) = split nnodes rs in
          let conform = !forced || List.for_all (fun (nd, r) ->
              let ((_, r'), _) = node_answer d st (nat_of_int 1) nodes.(nd) (Q_prepare (n_of_int 1)) { p_paging = None; p_nrows = N0; p_cells = [] } in
              resp_eqb r' r) rs in
          let obs = (match fields ':' out with
              | ["ok"; id; cols] -> PO_ok (bytes_of_hexstr id, cols_of_string cols)
              | ["e"; "mismatch"] -> PO_err PE_IdsMismatch
              | ["e"; "allfailed"] -> PO_err PE_AllFailed
              | _ -> raise (Notrun ("prepare ended with " ^ out))) in
          if not conform then "error mock-answer differs from the specification node (P)"
          else if (n_rs <> nnodes && n_rs <> 2 * nnodes)
               || List.sort compare (List.map fst round1) <> List.init nnodes (fun i -> i)
               || (round2 <> [] && List.sort compare (List.map fst round2) <> List.init nnodes (fun i -> i))
          then raise (Notrun "a round of PREPAREs did not reach every node exactly once")
          else if session_prep_accept (List.map snd round1) (if round2 = [] then None else Some (List.map snd round2)) obs then "ok"
          else "diff Session::prepare returned something no order of the nodes' answers explains (model of prepare_on_all)"
        | _ -> failwith "bad P observation")
     | _ -> failwith "bad P observation")
  | _ -> "error unknown-case"

let verdict case impl =
  (* a history that could not be run (environment) is counted, never judged *)
  match impl with
  | "error" :: (("session" | "session-timeout" | "start-cluster") :: _ as rest) -> "ok notrun=" ^ String.concat "_" rest
  | "error" :: rest -> "error runner: " ^ String.concat " " rest     (* a panic, a malformed case, … : not the environment *)
  | _ ->
    (try verdict case impl with
     | Notrun why -> "ok notrun=" ^ String.concat "_" (String.split_on_char ' ' why)
     | Viol why -> "viol " ^ why)

let () = run_lines verdict
