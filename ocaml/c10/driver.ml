(* C10 correspondence driver: replays the byte-level trace mocknode recorded for every pool
   connection through the extracted connection model (Model/ConnFail.v: [simulate]) and
   compares the model's outcome of every request with what the real Session returned.
   On a mismatch the property predicate itself is evaluated on the implementation's output. *)

let kv_of (toks : string list) : (string * string) list =
  List.filter_map (fun t -> match String.index_opt t '=' with
    | Some i -> Some (String.sub t 0 i, String.sub t (i + 1) (String.length t - i - 1))
    | None -> None) toks

(* request ids: markers are >= 0, synthetic ids of handshake frames are < 0 *)
let n_of_rid (r : int) : n = if r >= 0 then n_of_int (2 * r) else n_of_int (2 * (- r) + 1)

let parse_ev (e : string) : tev option =
  (* "@<ms>" suffixes are diagnostics of the runner, not part of the trace *)
  let e = match String.index_opt e '@' with Some i -> String.sub e 0 i | None -> e in
  let rest () = String.sub e 1 (String.length e - 1) in
  match e.[0] with
  | 'i' | 'k' ->
    (match String.split_on_char '.' (rest ()) with
     | [s; r] -> Some (TIn (n_of_int (int_of_string s), n_of_rid (int_of_string r), e.[0] = 'k'))
     | _ -> failwith ("bad event " ^ e))
  | 'o' -> Some (TOut (bytes_of_hexstr (rest ())))
  | 'F' -> Some TFin
  | 'R' -> Some TRst
  | 'X' -> Some TClose
  | 'S' -> None
  | _ -> failwith ("bad event " ^ e)

let parse_conns (s : string) : tev list list =
  if s = "-" then [] else
  List.map (fun c ->
    match String.index_opt c ':' with
    | None -> failwith "bad conn"
    | Some i ->
      let evs = String.sub c (i + 1) (String.length c - i - 1) in
      if evs = "-" then [] else List.filter_map parse_ev (String.split_on_char ',' evs))
    (String.split_on_char ';' s)

let ints_of (b : n list) : int list = List.map int_of_n b
let rec drop k l = if k <= 0 then l else match l with [] -> [] | _ :: t -> drop (k - 1) t
let rec firstk k l = if k <= 0 then [] else match l with [] -> [] | x :: t -> x :: firstk (k - 1) t
let be l = List.fold_left (fun a x -> a * 256 + x) 0 l

(* what the client may have returned for one request *)
type expect =
  | ExactOk of int * int          (* ok:<marker>:<padlen>:1 *)
  | ErrIn of string list          (* err:<class> with class in the list; [] = any class *)
  | OwnOkOrErr                    (* the model delivered a frame this driver cannot decode: an error, or
                                     at most an intact body of the request's OWN marker *)

let count_outs t = List.length (List.filter (function TOut _ -> true | _ -> false) t)
let has_rst t = List.exists (function TRst -> true | _ -> false) t

(* a request the client wrote before it saw our FIN is read by the mock after the FIN was sent:
   in the schedule it belongs before the end of stream *)
let reorder_after_fin (t : tev list) : tev list =
  let rec split acc = function
    | TFin :: rest -> Some (List.rev acc, rest)
    | x :: rest -> split (x :: acc) rest
    | [] -> None in
  match split [] t with
  | Some (before, after) -> before @ List.filter (function TIn _ -> true | _ -> false) after @ [TFin]
  | None -> t

(* candidate runs of one connection: (final state, labels skipped); one, or one per delivered prefix
   when the connection was reset *)
let rec seq_range a b : int Seq.t = fun () -> if a >= b then Seq.Nil else Seq.Cons (a, seq_range (a + 1) b)
let rec seq_exists f (s : 'a Seq.t) = match s () with Seq.Nil -> false | Seq.Cons (x, r) -> f x || seq_exists f r
let candidates_seq (t : tev list) : (conn * int) Seq.t =
  let one keep () = (simulate keep t, int_of_nat (skipped_labels (conn_init false) (labels_of keep t))) in
  if has_rst t then
    (* lazily, most delivered first: the client usually has read everything written before the reset *)
    let n = count_outs t in
    Seq.append (Seq.return (one None ()))
      (Seq.map (fun k -> one (Some (nat_of_int (n - 1 - k))) ()) (seq_range 0 n))
  else Seq.return (one None ())
let candidates (t : tev list) : (conn * int) list = List.of_seq (candidates_seq t)

let rec product = function
  | [] -> [[]]
  | c :: r -> let pr = product r in List.concat_map (fun x -> List.map (fun p -> x :: p) pr) c

let classes_of_err (e : err_kind) : string list = match e with
  | EHeaderIo | EClosedInBody | EHeader _ -> ["broken.FrameHeaderParseError"]
  | EUnexpectedStream _ -> ["broken.UnexpectedStreamId"]
  | EKeepaliveTimeout -> ["broken.KeepaliveTimeout"]
  | EKeepaliveRequest -> ["broken.KeepaliveRequestError"]
  | EEnv _ -> ["broken.WriteError"; "broken.FrameHeaderParseError"]

(* the echo at the FRONT of a body that has trailing bytes (a frame whose length field the mock corrupted
   upwards swallows bytes of the next frames; the driver's Rows parser ignores what follows the rows) *)
let echo_front (px : n list) (body : n list) : (int * int) option =
  let rec firstk k l = if k <= 0 then [] else match l with [] -> [] | x :: t -> x :: firstk (k - 1) t in
  let npx = List.length px in
  let lenb = List.map int_of_n (firstk 4 (let rec drop k l = if k <= 0 then l else match l with [] -> [] | _ :: t -> drop (k - 1) t in drop npx body)) in
  if List.length lenb < 4 then None else
  let l = List.fold_left (fun a x -> a * 256 + x) 0 lenb in
  if l < 8 || List.length body < npx + 4 + l then None else
  (match echo_of px (firstk (npx + 4 + l) body) with Some (m, p) -> Some (int_of_n m, int_of_n p) | None -> None)

let expect_of_outcome (px : n list) (idem : bool) (o : outcome option) : expect option =
  let decode_echo px b = match echo_of px b with Some (m, p) -> Some (int_of_n m, int_of_n p) | None -> None in
  match o with
  | Some (Resp f) ->
    if int_of_n (f_opcode f) = 8 && int_of_n (f_flags f) = 0 then
      (match decode_echo px f.f_body with
       | Some (m, p) -> Some (ExactOk (m, p))
       | None -> (match echo_front px f.f_body with Some _ -> Some OwnOkOrErr | None -> Some (ErrIn [])))
    else Some OwnOkOrErr
  | Some (FailBroken e) ->
    (* an idempotent request is sent again; when no connection is left the pool's error is returned *)
    Some (ErrIn (classes_of_err e @ (if idem then ["pool"] else [])))
  | Some FailChannel -> Some (ErrIn (["broken.ChannelError"] @ (if idem then ["pool"] else [])))
  | Some FailAlloc -> Some (ErrIn ["attempt.UnableToAllocStreamId"])
  | None -> None                   (* seen by the mock, but neither answered nor failed in the model *)

(* multi-attempt requests (idempotent, retried): first delivered frame wins, else some error *)
let expectation_multi (px : n list) (finals : conn list) (marker : int) : expect =
  let outs = List.filter_map (fun st -> outcome_of (n_of_rid marker) st.c_done) finals in
  match List.find_opt (function Resp _ -> true | _ -> false) outs with
  | Some o -> (match expect_of_outcome px true (Some o) with Some e -> e | None -> ErrIn [])
  | None -> ErrIn []

let matches (own : int) (e : expect) (r : string) : bool =
  match e, String.split_on_char ':' r with
  | _, ["cancelled"] -> true        (* the caller dropped its future: nothing to compare *)
  | ExactOk (m, p), ["ok"; m'; p'; "1"] -> int_of_string m' = m && int_of_string p' = p
  | ErrIn [], "err" :: _ -> true
  | ErrIn l, ["err"; c] -> List.mem c l
  | OwnOkOrErr, "err" :: _ -> true
  | OwnOkOrErr, ["ok"; m'; _; "1"] -> int_of_string m' = own
  | _ -> false

let show = function
  | ExactOk (m, p) -> Printf.sprintf "ok:%d:%d" m p
  | ErrIn [] -> "err"
  | ErrIn l -> "err:" ^ String.concat "/" l
  | OwnOkOrErr -> "err-or-own-ok"

let cres_of (r : string) : cres =
  match String.split_on_char ':' r with
  | ["ok"; m; p; k] ->
    let m = int_of_string m and p = int_of_string p in
    if m < 0 || p < 0 then ROk (n_of_int 0, n_of_int 0, false) else ROk (n_of_int m, n_of_int p, k = "1")
  | ["err"; "panic"] -> RPanic
  | "err" :: _ -> RErr
  | ["cancelled"] -> RCancelled
  | _ -> RHang

(* pool events per node: "a<node>.<conn>@<ms>" | "g.." | "b.." in the mock's global order.  The order of
   events logged by different connection tasks of the mock is only approximately the real order: a request
   frame of a broken connection that is logged up to 200 ms after the replacement's STARTUP is placed
   before it. *)
let pool_events (s : string) : (int * pev list) list =
  if s = "-" then [] else
  let evs = List.map (fun tok ->
    let tok, at = match String.index_opt tok '@' with
      | Some i -> String.sub tok 0 i, int_of_string (String.sub tok (i + 1) (String.length tok - i - 1))
      | None -> tok, 0 in
    let body = String.sub tok 1 (String.length tok - 1) in
    match String.split_on_char '.' body with
    | [nd; c] -> (int_of_string nd, tok.[0], int_of_string c, at)
    | _ -> failwith "bad pool event") (String.split_on_char ',' s) in
  let nodes = List.sort_uniq compare (List.map (fun (n, _, _, _) -> n) evs) in
  List.map (fun nd ->
    let l = List.filter (fun (n, _, _, _) -> n = nd) evs in
    (* late request frames of broken connections: move before the replacement they trail by <= 200 ms *)
    let arr = Array.of_list l in
    let n = Array.length arr in
    let keep = Array.make n true in
    let out = ref [] in
    for i = 0 to n - 1 do
      if keep.(i) then begin
        let (_, k, _, t) = arr.(i) in
        if k = 'a' then
          for j = i + 1 to n - 1 do
            let (_, kj, cj, tj) = arr.(j) in
            if keep.(j) && kj = 'g' && tj <= t + 200
               && List.exists (fun (_, kb, cb, _) -> kb = 'b' && cb = cj) (Array.to_list (Array.sub arr 0 i)) then begin
              out := arr.(j) :: !out; keep.(j) <- false
            end
          done;
        out := arr.(i) :: !out
      end
    done;
    (nd, List.rev_map (fun (_, k, c, _) ->
      let c = n_of_int c in
      match k with 'a' -> EvAdd c | 'g' -> EvGet c | 'b' -> EvBreak c | _ -> failwith "bad pool event") !out))
    nodes

let starts_with pre s = String.length s >= String.length pre && String.sub s 0 (String.length pre) = pre

let verdict case impl =
  match case with
  | "F" :: fields ->
    (match impl with
     | "error" :: _ -> "error runner " ^ String.concat " " impl
     | s :: _ when starts_with "skip" s -> "ok skipped " ^ s
     | _ ->
       let idem = (try List.nth fields 8 = "1" with _ -> false) in
       let shards = (try int_of_string (List.nth fields 1) with _ -> 0) in
       let fault = (try let f = List.nth fields 4 in if starts_with "2x" f then String.sub f 2 (String.length f - 2) else f with _ -> "") in
       (* kinds in which the MOCK mis-frames the stream: only there may a body be justified by the model's
          frame-aligned reader instead of the chunk-aligned, kernel-checked predicate *)
       let misframing = fault = "corr" || fault = "short" || starts_with "garb" fault in
       let kv = kv_of impl in
       let get k = try List.assoc k kv with Not_found -> failwith ("missing " ^ k) in
       let geto k d = try List.assoc k kv with Not_found -> d in
       let res = String.split_on_char ',' (get "res") in
       let fu = get "fu" and tmax = int_of_string (get "tmax") and bound = int_of_string (get "bound") in
       let probe_hangs = int_of_string (geto "ph" "0") in
       let px = bytes_of_hexstr (get "pxb") in
       let aux = (match geto "aux" "-" with "-" -> [] | a -> String.split_on_char ',' a) in
       (* the pool machine has one processing order per node; with several pool connections per node the
          replacement of one says nothing about the other, so the pool-level comparison is made for
          one-connection pools (shards = 0) only *)
       let pools = if shards = 0 then pool_events (geto "pool" "-") else [] in
       let stall = int_of_string (geto "stall" "0") in
       let conns = List.map reorder_after_fin (parse_conns (get "conns")) in
       let nres = List.length res in
       let res_arr = Array.of_list res in
       (* client requests (markers) seen on each connection *)
       let markers_of t = List.sort_uniq compare (List.filter_map (function
         | TIn (_, r, _) -> let v = int_of_n r in if v mod 2 = 0 && v / 2 >= 1 && v / 2 <= nres then Some (v / 2) else None
         | _ -> None) t) in
       let per_conn = List.map markers_of conns in
       let seen = Array.make (nres + 1) 0 in
       List.iter (List.iter (fun m -> seen.(m) <- seen.(m) + 1)) per_conn;
       (* every complete frame the mock wrote, by the request that held its stream id (one pass per
          connection through the extracted [sent_table]) *)
       let sent_tbl : (int, n list) Hashtbl.t = Hashtbl.create 64 in
       List.iter (fun t -> List.iter (fun (r, b) -> Hashtbl.add sent_tbl (int_of_n r) b) (sent_table [] t)) conns;
       (* ---- 1. the property predicate on the implementation's own output, ALWAYS ---- *)
       let viol = ref [] in
       let realigned = ref false in
       let add v = viol := v :: !viol in
       (* A request that never completes is outside the property when its connection never died: in a
          mis-framing case the corrupted length field can swallow exactly one whole reply frame and leave
          the stream aligned -- the reply is lost, the connection is healthy, no driver can notice.  Such a
          hang is excused iff the mock's trace shows the connection alive to the end and the model's run of
          that trace has the request still pending on an open connection WHOSE READER IS FRAME-ALIGNED at
          the end (empty read buffer).  A reader stuck inside an over-long frame
          (non-empty buffer: every later byte, keepalive replies included, disappears into that frame) is
          the property's "stops answering keep-alives" case and is NOT excused. *)
       let excused_hang m =
         misframing && seen.(m) = 1 &&
         List.exists2 (fun t ms ->
           List.mem m ms
           && not (List.exists (function TFin | TRst | TClose -> true | _ -> false) t)
           && (let st = simulate None t in
               (match st.c_status with Open -> true | _ -> false)
               && st.c_rbuf = []
               && outcome_of (n_of_rid m) st.c_done = None)) conns per_conn in
       let hangs = List.filter (fun i -> res_arr.(i - 1) = "hang") (List.init nres (fun i -> i + 1)) in
       let unexcused = List.filter (fun m -> not (excused_hang m)) hangs in
       let excused = hangs <> [] && unexcused = [] in
       if unexcused <> [] || (tmax > bound && hangs = []) || fu = "hang" || probe_hangs > 0 || List.mem "hang" aux then add "request-hangs";
       let decode_echo px b = match echo_of px b with Some (m, p) -> Some (int_of_n m, int_of_n p) | None -> None in
       List.iteri (fun i r ->
         match String.split_on_char ':' r with
         | ["err"; "panic"] -> add (Printf.sprintf "client-task-%d-panicked" (i + 1))
         | ["ok"; m; p; padok] ->
           let m = int_of_string m and p = int_of_string p in
           if m <> i + 1 || padok <> "1" then
             add (Printf.sprintf "request-%d-got-foreign-or-damaged-body" (i + 1))
           else begin
             let rid = n_of_rid (i + 1) in
             let sent = List.exists (fun b -> decode_echo px b = Some (m, p))
                 (Hashtbl.find_all sent_tbl (int_of_n rid))
               (* after the mock itself mis-framed the stream (corrupted length field) frames are no longer
                  aligned with the written chunks: then the frame-aligned parse of the whole byte stream
                  decides, i.e. the model's reader (C10_framing, C10_no_partial, C10_no_cross) *)
               || misframing && List.exists (fun t -> List.exists (fun (st, _) ->
                    match outcome_of rid st.c_done with
                    | Some (Resp f) -> decode_echo px f.f_body = Some (m, p) || echo_front px f.f_body = Some (m, p)
                    | _ -> false) (candidates t)) conns in
             if sent && not (List.exists (fun b -> decode_echo px b = Some (m, p)) (Hashtbl.find_all sent_tbl (int_of_n rid)))
             then realigned := true;
             if not sent then
               add (Printf.sprintf "request-%d-returned-a-body-never-completely-sent-for-it" (i + 1))
           end
         | _ -> ()) res;
       (* "retried elsewhere only as the retry policy allows": with the policies of C06 a non-idempotent
          request whose connection broke is never sent again (C10_retry_clause) *)
       for m = 1 to nres do
         if not (resend_ok idem (nat_of_int seen.(m))) then
           add (Printf.sprintf "non-idempotent-request-%d-sent-on-%d-connections" m seen.(m))
       done;
       (* the session must keep working: a follow-up that fails although the mock holds a live,
          handshaken pool connection is the driver's doing; without one it is the environment *)
       let live_conn = List.exists (fun t ->
         List.exists (function TOut _ -> true | _ -> false) t
         && not (List.exists (function TFin | TRst | TClose -> true | _ -> false) t)) conns in
       if fu = "err" && live_conn then add "session-does-not-serve-follow-up";
       (* the kernel-checked conjunction (C10_accept_sound): must hold before any `ok` *)
       if !viol = [] && not !realigned && not excused && not (accept_obs px idem conns (List.map cres_of res)) then add "property-predicate-rejects-the-observation";
       (* A broken correspondence found while the runner's own runtime was starved (stall >= 200 ms) is a
          counted not-run ONLY when it has one of the shapes starvation explains:
            (P) the pool log order (events of different connection tasks of the mock, logged late);
            (K) a client-side keepalive timeout that the mock's trace does not account for (keepalive answered
                but read too late by the starved client; keepalive not yet read by the mock; the client's close
                not yet seen by the mock): the model agrees with every result once the results
                err:broken.KeepaliveTimeout are taken out of the comparison -- and, for idempotent requests
                (retried after the timeout, no connection left), the results err:pool, provided the client
                itself closed a connection (X, no F/R) whose model run stays Open.
          Every other diff stays a diff; a viol is never converted. *)
       let starved_skip why = Printf.sprintf "ok skipped runner-starved-%dms (%s)" stall why in
       let client_closed_open_conn = lazy (List.exists (fun t ->
           List.exists (function TClose -> true | _ -> false) t
           && List.exists (function TOut _ -> true | _ -> false) t
           && not (List.exists (function TFin | TRst -> true | _ -> false) t)
           && (match (simulate None t).c_status with Open -> true | _ -> false)) conns) in
       let ka_res = List.mem "err:broken.KeepaliveTimeout" res in
       let pool_after_ka = idem && List.mem "err:pool" res && Lazy.force client_closed_open_conn in
       match !viol with
       | v :: _ -> "viol " ^ v
       | [] ->
         if List.exists (fun (_, es) -> not (pool_accept es)) pools then
           (if stall >= 200 then starved_skip "diff pool-events-are-not-a-run-of-the-pool-machine"
            else "diff pool-events-are-not-a-run-of-the-pool-machine") else
         if fu <> "ok" then "diff follow-up-failed-and-no-live-pool-connection-was-observed-at-the-mock" else
         (* ---- 2. does some admissible run of the model give exactly these outcomes? ---- *)
         let independent = Array.for_all (fun c -> c <= 1) seen in
         (* requests the mock never saw: a non-idempotent one (no retry) was still in the channel when the
            router ended -> the connection's ROOT CAUSE (C10_root_cause: one error per connection, handlers and
            drained tasks alike), or it was refused after close() -> ChannelError, or it found no connection ->
            the pool's error.  Unseen requests are not part of any model run (they are in no trace): this is a
            CLASS-SET check against the union of the root causes of all connections that broke in this case
            (every delivered-prefix candidate), not a run comparison. *)
         let root_classes =
           List.concat_map (fun t ->
             List.concat_map (fun (st, _) ->
               match st.c_status with
               | Broken e | TearingDown e | Draining e -> classes_of_err e
               | Open -> []) (candidates t)) conns in
         let agrees relax =
           let ka_out r = relax && (r = "err:broken.KeepaliveTimeout" || (pool_after_ka && r = "err:pool")) in
           let matches m e r = ka_out r || matches m e r in
           let unseen_ok = ref true in
           for m = 1 to nres do
             if seen.(m) = 0 && not (ka_out res_arr.(m - 1)) then begin
               match String.split_on_char ':' res_arr.(m - 1) with
               | ["cancelled"] -> ()
               | ["err"; c] when c = "pool" || c = "broken.ChannelError" -> ()
               | ["err"; c] when (not idem) && List.mem c root_classes -> ()
               | ["err"; c] when idem && (starts_with "broken." c) -> ()
               | _ -> unseen_ok := false
             end
           done;
           let conn_agrees t ms =
             seq_exists (fun (st, skipped) ->
               (skipped = 0 || relax) &&
               List.for_all (fun m ->
                 match expect_of_outcome px idem (outcome_of (n_of_rid m) st.c_done) with
                 | Some e -> matches m e res_arr.(m - 1)
                 | None -> matches m (ErrIn ["-"]) res_arr.(m - 1) (* only "cancelled" *)
                           || (res_arr.(m - 1) = "hang" && excused_hang m)) ms)
               (candidates_seq t) in
           if independent then List.for_all2 conn_agrees conns per_conn && !unseen_ok
           else
             !unseen_ok &&
             List.exists (fun cands ->
               (relax || List.for_all (fun (_, sk) -> sk = 0) cands) &&
               (let finals = List.map fst cands in
                let ok = ref true in
                for m = 1 to nres do
                  if seen.(m) > 0 && not (matches m (expectation_multi px finals m) res_arr.(m - 1)) then ok := false
                done; !ok))
               (product (List.map candidates conns)) in
         let model_agrees = agrees false in
         if model_agrees then "ok"
         else begin
           let finals = List.map (fun t -> simulate None t) conns in
           let skipped = List.fold_left (fun a t -> a + int_of_nat (skipped_labels (conn_init false) (labels_of None t))) 0 conns in
           let d = Printf.sprintf "diff skipped-labels=%d model=%s" skipped
             (String.concat "," (List.mapi (fun i _ ->
                if seen.(i + 1) = 0 then "err:pool/ChannelError/root-cause"
                else if seen.(i + 1) = 1 then
                  (let st = List.find (fun st -> outcome_of (n_of_rid (i + 1)) st.c_done <> None || true) finals in
                   ignore st;
                   let o = List.fold_left (fun acc st -> match acc with Some _ -> acc | None -> outcome_of (n_of_rid (i + 1)) st.c_done) None finals in
                   match expect_of_outcome px idem o with Some e -> show e | None -> "pending")
                else show (expectation_multi px finals (i + 1))) res)) in
           if stall >= 200 && (ka_res || pool_after_ka) && agrees true
           then starved_skip (String.sub d 0 (min 60 (String.length d))) else d
         end)
  | _ -> "error unknown-case"

let () = run_lines verdict
