(* C10 correspondence driver: replays the byte-level trace mocknode recorded for every pool
   connection through the extracted connection model (Model/ConnFail.v: [simulate]) and
   compares the model's outcome of every request with what the real Session returned.
   On a mismatch the property predicate itself is evaluated on the implementation's output. *)

let kv_of (toks : string list) : (string * string) list =
  List.filter_map (fun t -> match String.index_opt t '=' with
    | Some i -> Some (String.sub t 0 i, String.sub t (i + 1) (String.length t - i - 1))
    | None -> None) toks

(* request ids: markers are >= 0, synthetic ids of handshake frames are < 0 *)
let n_of_rid (r : int) : n = if r >= 0 then n_of_int (2 * r) else n_of_int (2 * (- r) + 1)

let parse_ev (e : string) : tev option =
  (* "@<ms>" suffixes are diagnostics of the runner, not part of the trace *)
  let e = match String.index_opt e '@' with Some i -> String.sub e 0 i | None -> e in
  let rest () = String.sub e 1 (String.length e - 1) in
  match e.[0] with
  | 'i' | 'k' ->
    (match String.split_on_char '.' (rest ()) with
     | [s; r] -> Some (TIn (n_of_int (int_of_string s), n_of_rid (int_of_string r), e.[0] = 'k'))
     | _ -> failwith ("bad event " ^ e))
  | 'o' -> Some (TOut (bytes_of_hexstr (rest ())))
  | 'F' -> Some TFin
  | 'R' -> Some TRst
  | 'X' -> Some TClose
  | 'S' -> None
  | _ -> failwith ("bad event " ^ e)

let parse_conns (s : string) : tev list list =
  if s = "-" then [] else
  List.map (fun c ->
    match String.index_opt c ':' with
    | None -> failwith "bad conn"
    | Some i ->
      let evs = String.sub c (i + 1) (String.length c - i - 1) in
      if evs = "-" then [] else List.filter_map parse_ev (String.split_on_char ',' evs))
    (String.split_on_char ';' s)

let ints_of (b : n list) : int list = List.map int_of_n b
let rec drop k l = if k <= 0 then l else match l with [] -> [] | _ :: t -> drop (k - 1) t
let rec firstk k l = if k <= 0 then [] else match l with [] -> [] | x :: t -> x :: firstk (k - 1) t
let be l = List.fold_left (fun a x -> a * 256 + x) 0 l

(* the runner's echo body: <px bytes of result metadata> <int len> <8 byte marker> <padding> *)
let decode_echo (px : int) (body : n list) : (int * int) option =
  let b = ints_of body in
  let len = List.length b in
  if len < px + 12 then None else
  let l = be (firstk 4 (drop px b)) in
  if l <> len - px - 4 || l < 8 then None else
  Some (be (firstk 8 (drop (px + 4) b)), l - 8)

type expect = ExactOk of int * int | AnyErr | Unsure

let count_outs t = List.length (List.filter (function TOut _ -> true | _ -> false) t)
let has_rst t = List.exists (function TRst -> true | _ -> false) t

(* candidate final states of one connection: one, or one per delivered prefix when it was reset *)
let candidates (t : tev list) : conn list =
  if has_rst t then
    simulate None t :: List.init (count_outs t + 1) (fun k -> simulate (Some (nat_of_int (count_outs t - k))) t)
  else [simulate None t]

let rec product = function
  | [] -> [[]]
  | c :: r -> let pr = product r in List.concat_map (fun x -> List.map (fun p -> x :: p) pr) c

let expectation (px : int) (finals : conn list) (marker : int) : expect =
  let outs = List.filter_map (fun st -> outcome_of (n_of_rid marker) st.c_done) finals in
  match List.find_opt (function Resp _ -> true | _ -> false) outs with
  | Some (Resp f) ->
    if int_of_n (f_opcode f) = 8 && int_of_n (f_flags f) = 0 then
      (match decode_echo px f.f_body with Some (m, p) -> ExactOk (m, p) | None -> AnyErr)
    else Unsure
  | _ -> AnyErr

let matches (e : expect) (r : string) : bool =
  match e, String.split_on_char ':' r with
  | ExactOk (m, p), ["ok"; m'; p'; "1"] -> int_of_string m' = m && int_of_string p' = p
  | AnyErr, "err" :: _ -> true
  | Unsure, ("err" :: _ | "ok" :: _) -> true
  | _, ["cancelled"] -> true        (* the caller dropped its future: nothing to compare *)
  | _ -> false

let show = function ExactOk (m, p) -> Printf.sprintf "ok:%d:%d" m p | AnyErr -> "err" | Unsure -> "?"

let verdict case impl =
  match case with
  | "F" :: _ ->
    (match impl with
     | "error" :: _ -> "error runner " ^ String.concat " " impl
     | s :: _ when String.length s >= 4 && String.sub s 0 4 = "skip" -> "ok skipped " ^ s
     | _ ->
       let kv = kv_of impl in
       let get k = try List.assoc k kv with Not_found -> failwith ("missing " ^ k) in
       let res = String.split_on_char ',' (get "res") in
       let fu = get "fu" and tmax = int_of_string (get "tmax") and bound = int_of_string (get "bound") in
       let px = int_of_string (get "px") in
       let conns = parse_conns (get "conns") in
       let side_ok = fu = "ok" && tmax <= bound in
       (* 1. the cheap thing: does some admissible run of the model give exactly these outcomes? *)
       let nres = List.length res in
       let res_arr = Array.of_list res in
       (* markers (client requests) seen on each connection *)
       let markers_of t = List.sort_uniq compare (List.filter_map (function
         | TIn (_, r, _) -> let v = int_of_n r in if v mod 2 = 0 && v / 2 >= 1 && v / 2 <= nres then Some (v / 2) else None
         | _ -> None) t) in
       let per_conn = List.map markers_of conns in
       let seen = Array.make (nres + 1) 0 in
       List.iter (List.iter (fun m -> seen.(m) <- seen.(m) + 1)) per_conn;
       let independent = Array.for_all (fun c -> c <= 1) seen in
       let model_agrees =
         if independent then
           (* no request was attempted on two connections: every connection is judged on its own
              (for a reset connection: some delivered prefix must explain all of its requests) *)
           List.for_all2 (fun t ms ->
             List.exists (fun st -> List.for_all (fun m -> matches (expectation px [st] m) res_arr.(m - 1)) ms)
               (candidates t)) conns per_conn
           && (let ok = ref true in
               for m = 1 to nres do
                 if seen.(m) = 0 && not (matches AnyErr res_arr.(m - 1)) then ok := false
               done; !ok)
         else
           List.exists (fun finals ->
             List.for_all2 (fun i r -> matches (expectation px finals (i + 1)) r)
               (List.init nres (fun i -> i)) res)
             (product (List.map candidates conns)) in
       if side_ok && model_agrees then "ok"
       else begin
         (* 2. the property itself, on the implementation's output *)
         let viol = ref [] in
         if tmax > bound || List.mem "hang" res then viol := "request-hangs" :: !viol;
         if fu <> "ok" then viol := "session-does-not-serve-follow-up" :: !viol;
         List.iteri (fun i r ->
           match String.split_on_char ':' r with
           | ["ok"; m; p; padok] ->
             let m = int_of_string m and p = int_of_string p in
             if m <> i + 1 || padok <> "1" then
               viol := Printf.sprintf "request-%d-got-foreign-or-damaged-body" (i + 1) :: !viol
             else begin
               let rid = n_of_rid (i + 1) in
               let sent = List.exists (fun t ->
                 List.exists (fun s ->
                   List.exists (fun b -> decode_echo px b = Some (m, p)) (sent_for s rid false t))
                   (streams_of rid t)) conns in
               if not sent then
                 viol := Printf.sprintf "request-%d-returned-a-body-never-completely-sent-for-it" (i + 1) :: !viol
             end
           | _ -> ()) res;
         match !viol with
         | v :: _ -> "viol " ^ v
         | [] ->
           let finals = List.map (fun t -> simulate None t) conns in
           "diff model=" ^ String.concat "," (List.mapi (fun i _ -> show (expectation px finals (i + 1))) res)
       end)
  | _ -> "error unknown-case"

let () = run_lines verdict
