(* Shared glue between text case files and the extracted Coq datatypes.  This file is
   concatenated in front of each property's driver (the extracted module is [Model]).
   All numbers travel as hexadecimal (optionally signed), so nothing is truncated to OCaml's
   63-bit ints: positives are rebuilt bit by bit. *)
open Model

let hexval c = match c with
  | '0'..'9' -> Char.code c - 48 | 'a'..'f' -> Char.code c - 87 | 'A'..'F' -> Char.code c - 55
  | _ -> failwith ("bad hex digit " ^ String.make 1 c)

(* bits, most significant first *)
let bits_of_hex (s : string) : bool list =
  let l = ref [] in
  String.iter (fun c -> let v = hexval c in
    l := (v land 1 = 1) :: (v land 2 = 2) :: (v land 4 = 4) :: (v land 8 = 8) :: !l) s;
  List.rev !l |> fun bits ->
  let rec strip = function false :: r -> strip r | l -> l in strip bits

let n_of_hex (s : string) : n =
  match bits_of_hex s with
  | [] -> N0
  | _ :: rest -> Npos (List.fold_left (fun p b -> if b then XI p else XO p) XH rest)

let z_of_hex (s : string) : z =
  let neg = String.length s > 0 && s.[0] = '-' in
  let body = if neg then String.sub s 1 (String.length s - 1) else s in
  match n_of_hex body with
  | N0 -> Z0
  | Npos p -> if neg then Zneg p else Zpos p

let hex_of_pos (p : positive) : string =
  let rec bits p acc = match p with
    | XH -> true :: acc | XO q -> bits q (false :: acc) | XI q -> bits q (true :: acc) in
  let b = bits p [] in
  let pad = (4 - List.length b mod 4) mod 4 in
  let b = List.init pad (fun _ -> false) @ b in
  let buf = Buffer.create 16 in
  let rec go = function
    | b3 :: b2 :: b1 :: b0 :: r ->
      let v = (if b3 then 8 else 0) + (if b2 then 4 else 0) + (if b1 then 2 else 0) + (if b0 then 1 else 0) in
      Buffer.add_char buf "0123456789abcdef".[v]; go r
    | [] -> () | _ -> assert false in
  go b; Buffer.contents buf

let hex_of_n = function N0 -> "0" | Npos p -> hex_of_pos p
let hex_of_z = function Z0 -> "0" | Zpos p -> hex_of_pos p | Zneg p -> "-" ^ hex_of_pos p

let rec nat_of_int (i : int) : nat = if i <= 0 then O else S (nat_of_int (i - 1))
let rec int_of_nat (n : nat) : int = match n with O -> 0 | S k -> 1 + int_of_nat k

let n_of_int (i : int) : n = n_of_hex (Printf.sprintf "%x" i)
let int_of_n (v : n) : int = int_of_string ("0x" ^ hex_of_n v)

let split_on c s = if s = "" then [] else String.split_on_char c s

(* comma-separated hex list; "-" is the empty list *)
let nlist_of_string (s : string) : n list =
  if s = "-" then [] else List.map n_of_hex (split_on ',' s)
let string_of_nlist (l : n list) : string =
  if l = [] then "-" else String.concat "," (List.map hex_of_n l)

(* byte strings: contiguous hex pairs; "-" is empty.  As N list (each < 256). *)
let bytes_of_hexstr (s : string) : n list =
  if s = "-" then [] else
  List.init (String.length s / 2) (fun i -> n_of_int (hexval s.[2*i] * 16 + hexval s.[2*i+1]))
let hexstr_of_bytes (l : n list) : string =
  if l = [] then "-" else String.concat "" (List.map (fun b -> Printf.sprintf "%02x" (int_of_n b)) l)

(* OCaml string <-> char list (Coq [string] under ExtrOcamlString) *)
let chars_of_string (s : string) : char list = List.init (String.length s) (String.get s)
let string_of_chars (l : char list) : string = String.of_seq (List.to_seq l)
let chars_of_hexstr (s : string) : char list =
  if s = "-" then [] else
  List.init (String.length s / 2) (fun i -> Char.chr (hexval s.[2*i] * 16 + hexval s.[2*i+1]))

(* Driver main loop: each input line is "<case> | <impl output>"; [f case impl] returns the
   verdict line.  Exceptions are reported per line, never abort the run. *)
let run_lines (f : string list -> string list -> string) : unit =
  let split_ws s = List.filter (fun x -> x <> "") (String.split_on_char ' ' s) in
  (try
    while true do
      let line = input_line stdin in
      let verdict =
        try
          match String.index_opt line '|' with
          | None -> f (split_ws line) []
          | Some i ->
            f (split_ws (String.sub line 0 i))
              (split_ws (String.sub line (i + 1) (String.length line - i - 1)))
        with e -> "error driver-exception " ^ Printexc.to_string e in
      print_endline verdict
    done
  with End_of_file -> ())
