(* C03 correspondence driver: evaluates the extracted Murmur / PartKey model on the harness'
   cases.  The cheap thing (the model of the code) is computed first and compared exactly with
   the implementation's output; only on a mismatch is the specification side evaluated
   (token_spec / prop_token_ok / prop_pk_token_ok) to decide between `viol` and `diff`. *)

let part_of = function
  | "m" -> PMurmur3
  | "c" -> PCdc
  | s -> failwith ("bad partitioner " ^ s)

(* chunk lists: "-" = no chunk, otherwise comma separated, "." = the empty chunk *)
let chunks_of_string (s : string) : n list list =
  if s = "-" then []
  else List.map (fun c -> if c = "." then [] else bytes_of_hexstr c) (String.split_on_char ',' s)
let string_of_chunks (l : n list list) : string =
  if l = [] then "-"
  else String.concat "," (List.map (fun c -> if c = [] then "." else hexstr_of_bytes c) l)

(* bound values: "-" = none, otherwise comma separated N | U | V<hex> *)
let values_of_string (s : string) : raw_value list =
  if s = "-" then []
  else List.map (fun v ->
      if v = "N" then RNull else if v = "U" then RUnset
      else if String.length v >= 1 && v.[0] = 'V' then
        RValue (if String.length v = 1 then [] else bytes_of_hexstr (String.sub v 1 (String.length v - 1)))
      else failwith ("bad value " ^ v))
    (String.split_on_char ',' s)

let err_string = function
  | NoPkIndexValue (i, c) -> Printf.sprintf "err:nopk:%s:%s" (hex_of_n i) (hex_of_n c)
  | ValueTooLong n -> "err:toolong:" ^ hex_of_n n
  | RustPanic -> "panic"

let slots_string = function
  | Err e -> err_string e
  | Ok slots ->
    "ok:" ^ (if slots = [] then "-" else
               String.concat "," (List.map (function
                   | None -> "N"
                   | Some b -> "S" ^ (if b = [] then "" else hexstr_of_bytes b)) slots))

let chunks_result_string = function
  | Err e -> err_string e
  | Ok cs -> "ok:" ^ string_of_chunks cs

let token_opt_string = function
  | Err e -> err_string e
  | Ok None -> "none"
  | Ok (Some t) -> "some:" ^ hex_of_z t

let pk_string = function
  | Err e -> err_string e
  | Ok b -> "ok:" ^ hexstr_of_bytes b

let token_string = function
  | Err e -> err_string e
  | Ok t -> "ok:" ^ hex_of_z t

(* observed strings back to model values (for the property predicates) *)
let parse_err (s : string) : c03_error =
  match String.split_on_char ':' s with
  | ["panic"] -> RustPanic
  | ["err"; "toolong"; n] -> ValueTooLong (n_of_hex n)
  | ["err"; "nopk"; i; c] -> NoPkIndexValue (n_of_hex i, n_of_hex c)
  | _ -> failwith ("bad error " ^ s)
let parse_token_opt (s : string) : (c03_error, z option) result =
  if s = "none" then Ok None
  else if String.length s > 5 && String.sub s 0 5 = "some:" then
    Ok (Some (z_of_hex (String.sub s 5 (String.length s - 5))))
  else Err (parse_err s)
let parse_token (s : string) : (c03_error, z) result =
  if String.length s > 3 && String.sub s 0 3 = "ok:" then
    Ok (z_of_hex (String.sub s 3 (String.length s - 3)))
  else Err (parse_err s)

let verdict case impl =
  match case, impl with
  | ["H"; p; data], [obs] ->
    let p = part_of p and data = bytes_of_hexstr data in
    let m = hex_of_z (hash_one p data) in
    if obs = m then "ok"
    else
      let sp = hex_of_z (token_spec p data) in
      if obs <> sp then "viol spec=" ^ sp ^ " model=" ^ m else "diff model=" ^ m
  | ["W"; p; chunks], [obs] ->
    let p = part_of p and chunks = chunks_of_string chunks in
    let m = hex_of_z (feed p chunks) in
    if obs = m then "ok"
    else
      let sp = hex_of_z (token_spec p (List.concat chunks)) in
      if obs <> sp then "viol spec=" ^ sp ^ " model=" ^ m else "diff model=" ^ m
  | [("K" | "R") as kind; p; ncols; wire; values], [o_slots; o_chunks; o_token; o_typed; o_pk] ->
    (* K: the main (overflow-checks) build; R: the same code built without overflow checks *)
    let chk = (kind = "K") in
    let p = part_of p and ncols = nat_of_int (int_of_string ("0x" ^ ncols))
    and wire = nlist_of_string wire and values = values_of_string values in
    let slots = pk_new chk ncols wire values in
    let m_slots = slots_string slots in
    let m_chunks = chunks_result_string (match slots with Err e -> Err e | Ok s -> encoded_pk_chunks s) in
    let m_token = token_opt_string (ps_calculate_token chk p ncols wire values) in
    let m_pk = pk_string (ps_compute_partition_key chk ncols wire values) in
    let typed_ok = (o_typed = "na" || o_typed = m_token) in
    let pk_ok = (o_pk = "na" || o_pk = m_pk) in
    if o_slots = m_slots && o_chunks = m_chunks && o_token = m_token && typed_ok && pk_ok then "ok"
    else begin
      let model = Printf.sprintf "model=%s;%s;%s;%s" m_slots m_chunks m_token m_pk in
      (* the property on the implementation's own outputs *)
      let tok_viol o = o <> "na" && (if o = "err:ser" then key_okb ncols wire values
                                     else not (prop_token_ok p ncols wire values (parse_token_opt o))) in
      let pk_viol =
        o_pk <> "na" && key_okb ncols wire values &&
        (let comps = spec_components wire values in
         let single = (match comps with [_] -> true | _ -> false) in
         let fits = List.for_all (fun c -> List.length c <= 65535) comps in
         if single || fits then o_pk <> "ok:" ^ hexstr_of_bytes (spec_serialized_key comps)
         else not (String.length o_pk > 12 && String.sub o_pk 0 12 = "err:toolong:")) in
      if tok_viol o_token || tok_viol o_typed || pk_viol then
        "viol spec_token=" ^ hex_of_z (spec_token p wire values) ^ " " ^ model
      else "diff " ^ model
    end
  | ["T"; p; values], [obs] ->
    let p = part_of p and values = values_of_string values in
    let m = token_string (token_for_partition_key p values) in
    if obs = m then "ok"
    else if not (prop_pk_token_ok p values (parse_token obs)) then "viol model=" ^ m
    else "diff model=" ^ m
  | ["P"; name; data], [o_from; o_tok] ->
    (* partitioner selection: from_str, then name.and_then(from_str).unwrap_or_default() hashing *)
    let name = if name = "N" then None else Some (chars_of_hexstr (String.sub name 1 (String.length name - 1))) in
    let data = bytes_of_hexstr data in
    let pstr = function None -> "none" | Some PMurmur3 -> "m" | Some PCdc -> "c" in
    let m_from = (match name with None -> "na" | Some s -> pstr (partitioner_from_str s)) in
    let tp = table_partitioner name in
    let m_tok = hex_of_z (feed tp [data]) in
    if o_from = m_from && o_tok = m_tok then "ok"
    else begin
      (* property: a table naming ...CDCPartitioner gets the CDC token, ...Murmur3Partitioner the Murmur3 one *)
      let want = (match name with
          | Some s when ends_with s cdc_suffix -> Some (token_spec PCdc data)
          | Some s when ends_with s murmur3_suffix -> Some (token_spec PMurmur3 data)
          | _ -> None) in
      match want with
      | Some t when o_tok <> hex_of_z t -> "viol spec=" ^ hex_of_z t ^ " model=" ^ m_from ^ ";" ^ m_tok
      | _ -> "diff model=" ^ m_from ^ ";" ^ m_tok
    end
  | ("E" :: _), ("error" :: ("cluster-start" | "session") :: _) ->
    "ok not-run"   (* the scenario could not start (environment): counted and capped by checks/c03.py *)
  | ("E" :: _), ("error" :: "prepare" :: _) ->
    "diff prepare-failed"   (* Session::prepare failing against a healthy mock is implementation behaviour *)
  | (("K" | "R") :: _), ("notrun" :: _) -> "ok not-this-build"
  | ["E"; mode; rows; table; key], [o_part; o_tok] ->
    (* end to end: mock cluster metadata -> Session::prepare -> partitioner of the statement -> token *)
    let cs s = chars_of_string s in
    let rows = if rows = "-" then [] else List.map (fun r ->
        match String.split_on_char ':' r with
        | [k; t; v] -> ((cs k, cs t), (if v = "N" then None else Some (chars_of_hexstr (String.sub v 1 (String.length v - 1)))))
        | _ -> failwith "bad row") (String.split_on_char ',' rows) in
    let (ks, t) = (match String.split_on_char ':' table with [k; t] -> (cs k, cs t) | _ -> failwith "bad table") in
    (* mode = scenario (s: scylla_tables has exactly the rows, x: no such table, u: target table unknown
       to the metadata, n: target table listed but without column rows) + fetch mode (f full, m minimal,
       d disabled; absent = full) *)
    let scen = String.sub mode 0 1 in
    let fm = (if String.length mode < 2 then FetchFull else
                match mode.[1] with 'm' -> FetchMinimal | 'd' -> FetchDisabled | _ -> FetchFull) in
    let st = if scen = "x" then None else Some rows in
    let in_md = (scen <> "u") in
    let has_cols = (scen <> "n") in
    let key = bytes_of_hexstr key in
    let p = session_partitioner fm st in_md has_cols (Some (ks, t)) in
    let m_part = (match p with PMurmur3 -> "m" | PCdc -> "c") in
    let m_tok = "some:" ^ hex_of_z (feed p [key]) in
    if o_part = m_part && o_tok = m_tok then "ok"
    else begin
      (* inside C03_*_table_fetch_modes: table listed, and Full with column rows or Minimal *)
      let want = (if fm = FetchDisabled || not (scen = "s" || (scen = "n" && fm = FetchMinimal)) then None else
                    match partitioners_get rows ks t None with
                    | Some (Some name) when ends_with name cdc_suffix -> Some (token_spec PCdc key)
                    | Some (Some name) when ends_with name murmur3_suffix -> Some (token_spec PMurmur3 key)
                    | _ -> None) in
      match want with
      | Some tk when o_tok <> "some:" ^ hex_of_z tk -> "viol spec=" ^ hex_of_z tk ^ " model=" ^ m_part ^ ";" ^ m_tok
      | _ -> "diff model=" ^ m_part ^ ";" ^ m_tok
    end
  | ["Y"; p; types; wire; cells], [o_tok; o_pk] ->
    (* typed values through serialize_values (C01's ser_value) *)
    let p = part_of p and wire = nlist_of_string wire in
    let ty = function
      | "i" -> TNative NInt | "b" -> TNative NBigInt | "s" -> TNative NText | "u" -> TNative NUuid
      | "o" -> TNative NBoolean | "h" -> TNative NSmallInt | "t" -> TNative NTinyInt | "x" -> TNative NBlob
      | s -> failwith ("bad type " ^ s) in
    let cols = if types = "-" then [] else List.map ty (String.split_on_char ',' types) in
    let cell s =
      if s = "N" then CNull else if s = "U" then CUnset else
        let k = String.sub s 0 1 and v = String.sub s 2 (String.length s - 2) in
        CVal (match k with
            | "i" -> CInt (z_of_hex v) | "b" -> CBigInt (z_of_hex v) | "h" -> CSmallInt (z_of_hex v)
            | "t" -> CTinyInt (z_of_hex v) | "s" -> CText (bytes_of_hexstr v) | "x" -> CBlob (bytes_of_hexstr v)
            | "u" -> CUuid (bytes_of_hexstr v) | "o" -> CBoolean (v = "1")
            | _ -> failwith ("bad cell " ^ s)) in
    let cells = if cells = "-" then [] else List.map cell (String.split_on_char ',' cells) in
    let terr = function TSerialization -> "err:ser" | TKey e -> err_string e in
    let m_tok = (match ps_calculate_token_typed true p cols wire cells with
        | Err e -> terr e | Ok None -> "none" | Ok (Some t) -> "some:" ^ hex_of_z t) in
    let m_pk = (match ps_compute_partition_key_typed true cols wire cells with
        | Err e -> terr e | Ok b -> "ok:" ^ hexstr_of_bytes b) in
    if o_tok = m_tok && o_pk = m_pk then "ok"
    else begin
      match typed_row cols cells with
      | Some raws when o_tok <> "err:ser"
                    && not (prop_token_ok p (length cols) wire raws (parse_token_opt o_tok)) ->
        "viol spec_token=" ^ hex_of_z (spec_token p wire raws) ^ " model=" ^ m_tok ^ ";" ^ m_pk
      | _ -> "diff model=" ^ m_tok ^ ";" ^ m_pk
    end
  | ["Z"; p; n; msb; data], [o_tok; o_shard] ->
    (* token -> Sharder::shard_of (C11's model) *)
    let p = part_of p and n = n_of_hex n and msb = n_of_hex msb and data = bytes_of_hexstr data in
    let t = hash_one p data in
    let m_tok = hex_of_z t and m_sh = hex_of_n (shard_of n msb t) in
    if o_tok = m_tok && o_shard = m_sh then "ok"
    else begin
      let st = token_spec p data in
      if o_shard <> hex_of_n (spec_shard_of n msb st) || o_tok <> hex_of_z st
      then "viol spec=" ^ hex_of_z st ^ "," ^ hex_of_n (spec_shard_of n msb st)
      else "diff model=" ^ m_tok ^ "," ^ m_sh
    end
  | ["S"; data], [r1; r2] ->
    (* census-style tie of the SPECIFICATION: hash3_x64_128 against the independent reference of
       checks/c03.py; a mismatch is a broken correspondence of the spec, never a violation *)
    let (h1, h2) = hash3_x64_128 (bytes_of_hexstr data) in
    if hex_of_z h1 = r1 && hex_of_z h2 = r2 then "ok"
    else "diff spec=" ^ hex_of_z h1 ^ "," ^ hex_of_z h2
  | _ -> "error unknown-case"

let () = run_lines verdict
