(* C09 correspondence driver: rebuilds the abstract request of each case line, runs the extracted
   encoder (Model.encode_request) and compares it byte for byte with what the real
   SerializedRequest::make produced.  The property predicate (Model.frame_says = the independent
   protocol parser applied to the REAL bytes) is evaluated on every mismatch and, additionally, on
   a deterministic 1-in-8 sample of the agreeing frames below 20 000 bytes.
   Case syntax: see harness/src/bin/c09.rs. *)

(* Lists of several 10^5 bytes go through non-tail-recursive extracted functions (app, map):
   re-run ourselves with a large stack (Sys.command keeps stdin/stdout). *)
let () =
  match Sys.getenv_opt "C09_CHILD" with
  | Some _ -> ()
  | None ->
    let rc = Sys.command ("ulimit -s unlimited 2>/dev/null || ulimit -s 4000000 2>/dev/null; C09_CHILD=1 OCAMLRUNPARAM=s=4M exec "
                          ^ Filename.quote Sys.executable_name) in
    exit rc

let byte_tab : n array = Array.init 256 n_of_int
let int_of_pos (p : positive) : int =
  let rec go p sh acc = match p with
    | XH -> acc lor (1 lsl sh)
    | XO q -> go q (sh + 1) acc
    | XI q -> go q (sh + 1) (acc lor (1 lsl sh)) in
  go p 0 0
let int_of_nn = function N0 -> 0 | Npos p -> int_of_pos p

let hexdigits = "0123456789abcdef"
let hex_of_nlist (l : n list) : string =
  if l = [] then "-" else begin
    let buf = Buffer.create 256 in
    List.iter (fun b -> let v = int_of_nn b in
                Buffer.add_char buf hexdigits.[(v lsr 4) land 15];
                Buffer.add_char buf hexdigits.[v land 15]) l;
    Buffer.contents buf
  end
let nlist_of_hex (s : string) : n list =
  if s = "-" then [] else begin
    let k = String.length s / 2 in
    let r = ref [] in
    for i = k - 1 downto 0 do
      r := byte_tab.(hexval s.[2*i] * 16 + hexval s.[2*i+1]) :: !r
    done; !r
  end
let int_of_hexs s = int_of_string ("0x" ^ s)

(* byte string: "-" | hex | x<hh>^<count> *)
let parse_bytes (s : string) : n list =
  if s = "-" then []
  else if s.[0] = 'x' then begin
    match String.index_opt s '^' with
    | None -> failwith "bad repeated byte"
    | Some i ->
      let b = byte_tab.(int_of_hexs (String.sub s 1 (i - 1))) in
      let n = int_of_hexs (String.sub s (i + 1) (String.length s - i - 1)) in
      List.init n (fun _ -> b)
  end else nlist_of_hex s

let split_rep (item : string) (sep : char) : string * int =
  match String.rindex_opt item sep with
  | Some i -> String.sub item 0 i, int_of_hexs (String.sub item (i + 1) (String.length item - i - 1))
  | None -> item, 1
let rec repeat_onto x n acc = if n <= 0 then acc else repeat_onto x (n - 1) (x :: acc)
let tl_str s = String.sub s 1 (String.length s - 1)

let parse_cells (s : string) : cell list =
  if s = "-" then [] else
    List.fold_left (fun acc item ->
        let c, n = split_rep item '*' in
        let cell = match c.[0] with
          | 'n' -> CNull | 'u' -> CUnset | 'v' -> CVal (parse_bytes (tl_str c))
          | _ -> failwith "bad cell" in
        repeat_onto cell n acc) [] (split_on ',' s) |> List.rev

let cons_of_code = function
  | 0 -> Any | 1 -> One | 2 -> Two | 3 -> Three | 4 -> Quorum | 5 -> All | 6 -> LocalQuorum
  | 7 -> EachQuorum | 8 -> Serial | 9 -> LocalSerial | 10 -> LocalOne | _ -> failwith "bad consistency"
let serial_of = function "-" -> None | "8" -> Some SSerial | "9" -> Some SLocalSerial | _ -> failwith "bad serial"
let comp_of = function "n" -> None | "l" -> Some Lz4 | "s" -> Some Snappy | _ -> failwith "bad comp"
let optz s = if s = "-" then None else Some (z_of_hex s)

let qparams_of = function
  | [c; sc; ts; ps; pg; skip; vals] ->
    { qp_consistency = cons_of_code (int_of_hexs c); qp_serial = serial_of sc; qp_timestamp = optz ts;
      qp_page_size = optz ps; qp_paging = (if pg = "N" then None else Some (parse_bytes pg));
      qp_skip_metadata = (skip = "1"); qp_values = parse_cells vals }
  | _ -> failwith "bad qparams"

let decimal_bytes (i : int) : n list =
  let s = string_of_int i in List.init (String.length s) (fun k -> byte_tab.(Char.code s.[k]))

(* entries of a STARTUP case, expanded *)
let parse_entries (s : string) : (n list * n list) list =
  if s = "-" then [] else
    List.concat_map (fun item ->
        if item.[0] = '#' then List.init (int_of_hexs (tl_str item)) (fun i -> (decimal_bytes i, []))
        else match String.index_opt item '=' with
          | Some i -> [ (parse_bytes (String.sub item 0 i),
                         parse_bytes (String.sub item (i + 1) (String.length item - i - 1))) ]
          | None -> failwith "bad entry") (split_on ',' s)

(* the request of a case; for STARTUP the entries are taken in the observed iteration order *)
let request_of (case : string list) (impl : string list) : request =
  match case with
  | "Q" :: _ :: _ :: text :: qp -> Query (parse_bytes text, qparams_of qp)
  | ["P"; _; _; text] -> Prepare (parse_bytes text)
  | "E" :: _ :: _ :: _ :: id :: mid :: qp ->
    Execute (parse_bytes id, (if mid = "N" then None else Some (parse_bytes mid)), qparams_of qp)
  | ["B"; _; _; _; ty; c; sc; ts; stmts; vals] ->
    let bt = match ty with "0" -> Logged | "1" -> Unlogged | "2" -> Counter | _ -> failwith "bad batch type" in
    let stmts = if stmts = "-" then [] else
        List.fold_left (fun acc item ->
            let s, n = split_rep item '*' in
            let st = match s.[0] with
              | 'q' -> SQuery (parse_bytes (tl_str s)) | 'p' -> SPrepared (parse_bytes (tl_str s))
              | _ -> failwith "bad stmt" in
            repeat_onto st n acc) [] (split_on ',' stmts) |> List.rev in
    let vals = if vals = "0" then [] else
        List.fold_left (fun acc item ->
            let l, n = split_rep item '@' in
            repeat_onto (parse_cells l) n acc) [] (split_on ';' vals) |> List.rev in
    Batch (bt, stmts, vals, cons_of_code (int_of_hexs c), serial_of sc, optz ts)
  | ["S"; _; _; entries] ->
    let es = Array.of_list (parse_entries entries) in
    (match impl with
     | "ok" :: order :: _ ->
       let idx = if order = "-" then [] else List.map int_of_hexs (split_on ',' order) in
       Startup (List.map (fun i -> es.(i)) idx)
     | _ ->
       (* refused: any order of the distinct keys gives the same verdict; keep first occurrences *)
       let seen = Hashtbl.create 16 in
       Startup (List.filter (fun (k, _) -> if Hashtbl.mem seen k then false else (Hashtbl.add seen k (); true))
                  (Array.to_list es)))
  | ["R"; _; _; _; evs] ->
    let evs = if evs = "-" then [] else
        List.fold_left (fun acc item ->
            let e, n = split_rep item '*' in
            let ev = match e with "t" -> EvTopology | "s" -> EvStatus | "c" -> EvSchema | "r" -> EvClientRoutes
                                | _ -> failwith "bad event" in
            repeat_onto ev n acc) [] (split_on ',' evs) |> List.rev in
    Register evs
  | ["O"; _; _] -> Options
  | ["A"; _; _; tok] -> AuthResponse (if tok = "N" then None else Some (parse_bytes tok))
  | _ -> failwith "unknown case"

let stmt_err_name = function
  | StmtString -> "string" | StmtId -> "id" | StmtValues -> "values"
  | StmtTooManyValues n -> "too-many-values " ^ hex_of_n n
let err_name = function
  | ErrCellOverflow -> "values-cell-overflow" | ErrValuesTooMany -> "values-too-many"
  | ErrQueryString -> "query-string" | ErrQueryParams -> "query-params"
  | ErrPrepareString -> "prepare-string"
  | ErrExecId -> "exec-id" | ErrExecMetaId -> "exec-mid" | ErrExecParams -> "exec-params"
  | ErrBatchTooManyStatements n -> "batch-too-many-statements " ^ hex_of_n n
  | ErrBatchMismatch (a, b) -> Printf.sprintf "batch-mismatch %s %s" (hex_of_n a) (hex_of_n b)
  | ErrBatchStatement (i, e) -> Printf.sprintf "batch-stmt %s %s" (hex_of_n i) (stmt_err_name e)
  | ErrBadBatch (a, b) -> Printf.sprintf "bad-batch %s %s" (hex_of_n a) (hex_of_n b)
  | ErrStartup -> "startup" | ErrRegister -> "register" | ErrAuthResponse -> "auth" | ErrSnap -> "snap"
  | ErrBodyTooLong n -> "body-too-long " ^ hex_of_n n

let rec drop k l = if k <= 0 then l else match l with [] -> [] | _ :: r -> drop (k - 1) r

let first_diff (a : string) (b : string) : string =
  let n = min (String.length a) (String.length b) in
  let i = ref 0 in
  while !i < n && a.[!i] = b.[!i] do incr i done;
  let cut s = String.sub s !i (min 24 (String.length s - !i)) in
  Printf.sprintf "at-hex-offset=%d model=..%s impl=..%s lens=%d/%d" !i (cut a) (cut b)
    (String.length a) (String.length b)

let no_codec = { lz4_compress = (fun b -> b); lz4_decompress = (fun _ _ -> None);
                 snap_compress = (fun _ -> None); snap_decompress = (fun _ -> None) }

(* L cases: only the sizes are observed.  The model's outcome is uniform_batch_outcome
   (C09_uniform_batch ties it to encode_request): Ok size = a frame whose length field is the
   size, Err size = BodyTooLong(size).  The property on the implementation's own output is
   "length field = body size" (a body that does not fit must be refused, not truncated). *)
let verdict_len n t impl =
  let model = uniform_batch_outcome (n_of_hex n) (n_of_hex t) in
  let ms = match model with Ok b -> "len " ^ hex_of_n b ^ " " ^ hex_of_n b
                          | Err b -> "err body-too-long " ^ hex_of_n b in
  match impl with
  | ["skipped"] -> "ok not-run-not-enough-memory"
  | ["len"; b; f] ->
    let b = n_of_hex b and f = n_of_hex f in
    if f <> b then
      Printf.sprintf "viol length-field=%s differs-from-body-size=%s (truncated, not refused) model=%s"
        (hex_of_n f) (hex_of_n b) ms
    else if model = Ok b then "ok" else "diff model=" ^ ms
  | ["err"; "body-too-long"; b] ->
    if model = Err (n_of_hex b) then "ok" else "diff model=" ^ ms
  | "err" :: _ -> "diff model=" ^ ms
  | ["panic"] -> "diff impl-panic"
  | _ -> "error bad-impl-output"

(* M cases: make() of a body of <len> untouched zero bytes; only sizes are observed.  Model:
   size_outcome (C09_make_sizes, C09_lz4_sizes).  For compressed Ok cases the observed payload size
   is the codec oracle; Snappy refusing its input is the codec's ErrSnap. *)
let verdict_blob comp len impl =
  let len = n_of_hex len in
  let ms = function Ok b -> "len " ^ hex_of_n b ^ " " ^ hex_of_n b | Err b -> "err body-too-long " ^ hex_of_n b in
  match impl with
  | ["skipped"] -> "ok not-run-allocation-refused"
  | ["len"; p; f] ->
    let p = n_of_hex p and f = n_of_hex f in
    if f <> p then
      Printf.sprintf "viol length-field=%s differs-from-body-size=%s (truncated, not refused)" (hex_of_n f) (hex_of_n p)
    else begin
      match comp with
      | None -> if size_outcome len = Ok p then "ok" else "diff model=" ^ ms (size_outcome len)
      | Some Lz4 ->
        (match size_outcome len, size_outcome p with
         | Ok _, Ok _ -> "ok"
         (* C09_oversize: a body of 2^32 bytes or more must be refused with LZ4 (its size prefix has 32 bits) *)
         | Err _, _ -> "viol oversize-body-accepted-with-lz4 model=" ^ ms (size_outcome len)
         | a, _ -> "diff model=" ^ ms a)
      | Some Snappy -> if size_outcome p = Ok p then "ok" else "diff model=" ^ ms (size_outcome p)
    end
  | ["err"; "body-too-long"; b] ->
    let b = n_of_hex b in
    (match comp with
     | Some Snappy -> if size_outcome b = Err b then "ok" else "diff model=ok"   (* compressed payload too long *)
     | _ -> if size_outcome len = Err b then "ok" else "diff model=" ^ ms (size_outcome len))
  | ["err"; "snap"] -> if comp = Some Snappy then "ok" else "diff model-has-no-snappy-here"
  | "err" :: _ -> "diff model=" ^ ms (size_outcome len)
  | ["panic"] -> "diff impl-panic"
  | _ -> "error bad-impl-output"

(* G cases: one huge component; model = big_outcome (C09_int_boundary) *)
let verdict_big what len impl =
  let k = match what with "p" -> BigPrepare | "q" -> BigQuery | "a" -> BigAuth | "c" -> BigCell | "b" -> BigBatch
                        | _ -> failwith "bad G kind" in
  let m = big_outcome k (n_of_hex len) in
  let ms = match m with Ok b -> "len " ^ hex_of_n b ^ " " ^ hex_of_n b | Err e -> "err " ^ err_name e in
  match impl with
  | ["skipped"] -> "ok not-run-not-enough-memory"
  | ["len"; b; f] ->
    let b = n_of_hex b and f = n_of_hex f in
    if f <> b then Printf.sprintf "viol length-field=%s differs-from-body-size=%s" (hex_of_n f) (hex_of_n b)
    else (match m with
        | Ok mb -> if mb = b then "ok" else "diff model=" ^ ms
        | Err _ -> "viol oversize-component-accepted model=" ^ ms)     (* C09_oversize *)
  | "err" :: cls ->
    (match m with
     | Err e -> if err_name e = String.concat " " cls then "ok" else "diff model=" ^ ms
     | Ok _ -> "viol legitimate-request-refused impl=err " ^ String.concat " " cls)
  | ["panic"] -> "diff impl-panic"
  | _ -> "error bad-impl-output"

(* C census: the crate's public constants against the model's tables; the model's private flag
   bits (6 query + 2 batch values computed by qp_flags / batch_flags) are printed in the verdict for
   the source scan of checks/c09.py.  WITH_NAMES_FOR_VALUES:40 is a literal of this driver, not a
   model value: the model never sets that bit, its parser refuses it (PNamedValues, bit 6). *)
let verdict_census impl =
  let qp0 = { qp_consistency = One; qp_serial = None; qp_timestamp = None; qp_page_size = None;
              qp_paging = None; qp_skip_metadata = false; qp_values = [] } in
  let hl l = String.concat "," (List.map hex_of_n l) in
  let model = [
    "ops=" ^ hl (List.map opcode [Startup []; Options; Query ([], qp0); Prepare []; Execute ([], None, qp0);
                                  Register []; Batch (Logged, [], [], One, None, None); AuthResponse None]);
    "cons=" ^ hl (List.map cons_code [Any; One; Two; Three; Quorum; All; LocalQuorum; EachQuorum; Serial; LocalSerial; LocalOne]);
    "serial=" ^ hl (List.map serial_code [SSerial; SLocalSerial]);
    "bt=" ^ hl (List.map batch_type_code [Logged; Unlogged; Counter]);
    (* the model uses header flags 1 (compression) and 2 (tracing); 4 and 8 are what parse_frame refuses *)
    "fflags=" ^ hl [frame_flags true false; frame_flags false true; n_of_int 4; n_of_int 8];
    "events=" ^ String.concat "," (List.map (fun e -> hex_of_nlist (event_name e)) [EvTopology; EvStatus; EvSchema; EvClientRoutes]) ] in
  let t = true and f = false in
  let table = Printf.sprintf "qflags=VALUES:%s,SKIP_METADATA:%s,PAGE_SIZE:%s,WITH_PAGING_STATE:%s,WITH_SERIAL_CONSISTENCY:%s,WITH_DEFAULT_TIMESTAMP:%s,WITH_NAMES_FOR_VALUES:40 bflags=WITH_SERIAL_CONSISTENCY:%s,WITH_DEFAULT_TIMESTAMP:%s"
      (hex_of_n (qp_flags t f f f f f)) (hex_of_n (qp_flags f t f f f f)) (hex_of_n (qp_flags f f t f f f))
      (hex_of_n (qp_flags f f f t f f)) (hex_of_n (qp_flags f f f f t f)) (hex_of_n (qp_flags f f f f f t))
      (hex_of_n (batch_flags t f)) (hex_of_n (batch_flags f t)) in
  if impl = model then "ok " ^ table
  else "diff census model=" ^ String.concat " " model

let stream_of_frame (f : n list) : z =
  match f with
  | _ :: _ :: a :: b :: _ ->
    let v = int_of_nn a * 256 + int_of_nn b in
    let v = if v >= 32768 then v - 65536 else v in
    z_of_hex (if v < 0 then "-" ^ Printf.sprintf "%x" (-v) else Printf.sprintf "%x" v)
  | _ -> Z0

(* N cases: every item is <what was asked>:<frame the node received>.  No model of the Session
   is involved: the property predicate (independent parser on the real bytes = what was asked,
   version 4, right opcode, length = body size, no header flags) decides alone. *)
let verdict_e2e impl =
  match impl with
  | "skip-env" :: _ -> "ok not-run-environment"
  | "e2e-fail" :: why -> "diff e2e-call-failed " ^ String.concat " " why
  | "e2e" :: _ :: items ->
    let bad = ref [] in
    let miscount = ref [] in
    List.iteri (fun k item ->
        match String.index_opt item ':' with
        | None -> bad := Printf.sprintf "item%d:malformed" k :: !bad
        | Some i when String.contains (String.sub item 0 i) '#' && String.sub item (i + 1) (String.length item - i - 1) = "-" ->
          miscount := Printf.sprintf "item%d:no-frame-for-the-call" k :: !miscount
        | Some i ->
          let descr = String.sub item 0 i in
          (* <asked>#<n>: the call put n <> 1 frames on the wire *)
          let descr = match String.index_opt descr '#' with
            | Some j -> miscount := Printf.sprintf "item%d:%s-frames-for-one-call" k
                            (String.sub descr (j + 1) (String.length descr - j - 1)) :: !miscount;
              String.sub descr 0 j
            | None -> descr in
          let asked = String.split_on_char '/' descr in
          let frame = nlist_of_hex (String.sub item (i + 1) (String.length item - i - 1)) in
          let case = match asked with k :: rest -> k :: "n" :: "0" :: rest | [] -> [] in
          (match (try Some (request_of case []) with _ -> None) with
           | None -> bad := Printf.sprintf "item%d:cannot-read-what-was-asked" k :: !bad
           | Some r ->
             (* STARTUP maps and REGISTER lists are sets: adopt the order on the wire when the
                contents agree *)
             let canon = function
               | Startup l -> Startup (List.sort compare l)
               | Register l -> Register (List.sort compare l)
               | x -> x in
             let r = match r, parse_frame no_codec None (uses_mid r) frame with
               | (Startup _ | Register _), Ok (_, r') when canon r' = canon r -> r'
               | _ -> r in
             if not (frame_says no_codec None false (stream_of_frame frame) r frame) then
               bad := Printf.sprintf "item%d:%s" k (String.sub item 0 (min i 60)) :: !bad)) items;
    if items = [] then "diff e2e-without-frames"
    else if !bad <> [] then "viol session-frame-does-not-say-what-was-asked " ^ String.concat "," (List.rev !bad)
    else if !miscount <> [] then "diff e2e-frame-count " ^ String.concat "," (List.rev !miscount)
    else "ok"
  | _ -> "error bad-impl-output"

let rec take_l k l = if k <= 0 then [] else match l with [] -> [] | x :: r -> x :: take_l (k - 1) r

(* comparison of an observed make()/set_stream outcome with the model, for a given abstract request *)
let verdict_frame comp tr r impl =
  match impl with
  | ["panic"] -> "diff impl-panic"
  | "err" :: cls ->
    let cls = String.concat " " cls in
    (match encode_request no_codec None tr r with
     | Err e -> if err_name e = cls then "ok" else "diff model=err " ^ err_name e
     | Ok _ ->
       (* C09_encode_total: a request with nothing oversize and matching counts must not be refused
          (Snappy refusing inside the codec is the codec's business) *)
       if cls <> "snap" && not (oversize r) && batch_counts_match r && not (body_too_long r)
       then "viol legitimate-request-refused impl=err " ^ cls
       else "diff model=ok impl-refused oversize=" ^ string_of_bool (oversize r)
            ^ " counts-match=" ^ string_of_bool (batch_counts_match r))
  | "ok" :: st :: hdr0 :: frame_hex :: rest ->
    let st = z_of_hex st in
    let frame = nlist_of_hex frame_hex in
    (* codec oracles: what the real compressor / decompressor returned for this very case; the
       decompressors answer only for the real payload (and, LZ4, the real announced size) *)
    let payload = drop 9 frame in
    let decomp = match rest with
      | [d] when d <> "FAIL" -> Some (nlist_of_hex d)
      | _ -> None in
    let block = drop 4 payload in
    let dlen = match decomp with Some d -> n_of_int (List.length d) | None -> N0 in
    let cd = { lz4_compress = (fun _ -> block);
               lz4_decompress = (fun b n -> if b = block && n = dlen then decomp else None);
               snap_compress = (fun _ -> Some payload);
               snap_decompress = (fun b -> if b = payload then decomp else None) } in
    (* the property on the implementation's own output: the frame handed to the socket (after
       set_stream st) says the request, with stream id st *)
    let property () = frame_says cd comp tr st r frame in
    (match encode_request cd comp tr r with
     | Err e ->
       if property () then "diff model=err " ^ err_name e ^ " impl-frame-parses-back"
       else "viol impl-emitted-frame-that-does-not-say-the-request model=err " ^ err_name e
     | Ok f0 ->
       let mh = hex_of_nlist (set_stream st f0) in
       let mh0 = hex_of_nlist (take_l 9 f0) in
       let body_ok = match comp with
         | None -> rest = []
         | Some _ -> (match decomp, serialize_request r with
             | Some d, Ok b -> d = b
             | _ -> false) in
       if mh = frame_hex && mh0 = hdr0 && body_ok then begin
         (* agreement.  On a deterministic 1-in-8 sample of the smaller frames the independent
            parser is additionally run on the REAL bytes (cannot fail by C09_frame_says_complete;
            guards the extraction / this driver). *)
         if String.length frame_hex < 40000 && Hashtbl.hash frame_hex land 7 = 0 && not (property ())
         then "viol frame-does-not-say-the-request (model agrees with impl!)"
         else "ok"
       end
       else if not (property ()) then
         "viol frame-does-not-say-the-request " ^ first_diff mh frame_hex
         ^ (if body_ok then "" else " decompressed-body-differs")
       else if mh0 <> hdr0 then "diff header-as-made model=" ^ mh0 ^ " impl=" ^ hdr0
       else "diff " ^ first_diff mh frame_hex ^ (if body_ok then "" else " decompressed-body-differs"))
  | _ -> "error bad-impl-output"

(* V cases: a typed row bound to columns by the real SerializeRow impls.  Model: bind_row with
   mini_ser (C09_values_in_order / C09_bind_row_total), then the EXECUTE frame carrying the cells. *)
let parse_mval (s : string) : mval =
  match s.[0] with
  | 'i' -> MInt (z_of_hex (tl_str s))
  | 't' -> MText (parse_bytes (tl_str s))
  | 'b' -> MBlob (parse_bytes (tl_str s))
  | 'n' -> MNull | 'u' -> MUnset
  | _ -> failwith "bad mval"
let row_err_name = function
  | WrongColumnCount (a, b) -> Printf.sprintf "row wrong-column-count %s %s" (hex_of_n a) (hex_of_n b)
  | ValueMissingForColumn n -> "row value-missing " ^ hex_of_nlist n
  | NoColumnWithName n -> "row no-column " ^ hex_of_nlist n
  | ColumnSerializationFailed n -> "row column-failed " ^ hex_of_nlist n
  | RowTooManyValues -> "row too-many-values"
let verdict_row kind cols row impl =
  let cols = if cols = "-" then [] else
      List.fold_left (fun acc item ->
          let c, n = split_rep item '*' in
          let i = String.index c ':' in
          let ty = match c.[i + 1] with 'i' -> TInt | 't' -> TText | 'b' -> TBlob | _ -> failwith "bad type" in
          repeat_onto (parse_bytes (String.sub c 0 i), ty) n acc) [] (split_on ',' cols) |> List.rev in
  let r =
    if kind.[0] = 'm' then begin
      let kvs = if row = "-" then [] else
          List.map (fun item -> let i = String.index item '=' in
                     (parse_bytes (String.sub item 0 i), parse_mval (String.sub item (i + 1) (String.length item - i - 1))))
            (split_on ',' row) in
      (* a repeated key keeps the first, as the runner does *)
      let seen = Hashtbl.create 8 in
      RMap (List.filter (fun (k, _) -> if Hashtbl.mem seen k then false else (Hashtbl.add seen k (); true)) kvs)
    end else if kind = "u" || kind = "z" then RUnit
    else begin
      let vs = if row = "-" then [] else
          List.fold_left (fun acc item -> let m, n = split_rep item '*' in repeat_onto (parse_mval m) n acc) []
            (split_on ',' row) |> List.rev in
      (* the tuple of arity 0 is () *)
      if kind = "t" && vs = [] then RUnit else RSeq vs
    end in
  match bind_row mini_ser cols r, impl with
  | Err e, "err" :: cls ->
    let cls = String.concat " " cls in
    if row_err_name e = cls then "ok" else "diff model=err " ^ row_err_name e
  | Err e, "ok" :: _ ->
    (* C09_bind_row_total: no value list can be this row bound in order with nothing left over *)
    "viol row-accepted-although-it-cannot-be-bound model=err " ^ row_err_name e
  | Ok _, "err" :: cls -> "viol legitimate-row-refused impl=err " ^ String.concat " " cls
  | Ok cells, _ ->
    let qp = { qp_consistency = One; qp_serial = None; qp_timestamp = None; qp_page_size = None;
               qp_paging = None; qp_skip_metadata = false; qp_values = cells } in
    verdict_frame None false (Execute ([byte_tab.(12); byte_tab.(9)], None, qp)) impl
  | _, _ -> "error bad-impl-output"

let verdict_inner case impl =
  match case with
  | ["L"; n; t] -> verdict_len n t impl
  | ["M"; c; _; len] -> verdict_blob (comp_of c) len impl
  | ["N"; _] -> verdict_e2e impl
  | ["G"; what; len] -> verdict_big what len impl
  | ["C"; _] -> verdict_census impl
  | ["V"; kind; cols; row] -> verdict_row kind cols row impl
  | _ ->
  let comp = comp_of (List.nth case 1) in
  let tr = (List.nth case 2 = "1") in
  let r = request_of case impl in
  (* STARTUP lines carry the iteration order before the frame *)
  let impl = match case, impl with
    | "S" :: _, "ok" :: _ :: rest -> "ok" :: rest
    | _ -> impl in
  verdict_frame comp tr r impl

(* Where the host forbids raising the stack limit (hard RLIMIT_STACK), the 65 534..65 537-element boundary cases
   overflow the stack inside the non-tail-recursive extracted list functions: a counted not-run (WARNING and cap
   in checks/c09.py), never an error verdict. *)
let verdict case impl =
  try verdict_inner case impl with Stack_overflow -> "ok not-run-stack-limit"

let () = run_lines verdict
