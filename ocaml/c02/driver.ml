(* C02 correspondence driver: runs the extracted handler-map model (Model/Streams.v) on the
   operation sequence of each case and compares every return value and the final state with
   what the real ResponseHandlerMap produced.  Cheap thing first: exact comparison with the
   model; only on a mismatch the specification predicate [sm_check] (the property itself, on the
   implementation's own results) decides between `viol` and `diff`. *)

let split_dot s = String.split_on_char '.' s

let expand_ops (toks : string list) : op list =
  let out = ref [] in
  List.iter (fun t ->
    let c = t.[0] and rest = String.sub t 1 (String.length t - 1) in
    let parts = split_dot rest in
    match c, parts with
    | 'a', [r; k] -> out := OpAlloc (n_of_hex r, n_of_hex k) :: !out
    | 'o', [r] -> out := OpOrphan (n_of_hex r) :: !out
    | 'l', [s] -> out := OpLookup (n_of_hex s) :: !out
    | 'p', [k] -> out := OpProbe (n_of_hex k) :: !out
    | 'F', [n; r0] ->
      let n = int_of_string ("0x" ^ n) and r0 = int_of_string ("0x" ^ r0) in
      for i = 0 to n - 1 do
        let v = n_of_int (r0 + i) in out := OpAlloc (v, v) :: !out
      done
    | 'D', [k; st; sd] ->
      let k = int_of_string ("0x" ^ k) and st = int_of_string ("0x" ^ st)
      and sd = int_of_string ("0x" ^ sd) in
      for i = 0 to k - 1 do
        out := OpLookup (n_of_int ((st + i * sd) mod 32768)) :: !out
      done
    | _ -> failwith ("bad op " ^ t)) toks;
  List.rev !out

let res_text (r : op_res) : string =
  match r with
  | RAlloc (AllocOk sid, _) -> "s" ^ hex_of_n sid
  | RAlloc (AllocFull, tok) -> "f" ^ hex_of_n tok
  | RAlloc (AllocPanic, _) -> "panic"
  | RUnit -> "-"
  | RLookup LOrphaned -> "O"
  | RLookup LMissing -> "M"
  | RLookup (LHandler (rid, tok)) -> "H" ^ hex_of_n rid ^ "." ^ hex_of_n tok
  | RProbe b -> if b then "1" else "0"

(* implementation result token -> op_res (for the specification predicate) *)
let res_parse (o : op) (t : string) : op_res option =
  let tok_of = function OpAlloc (_, k) -> k | _ -> N0 in
  try
    if t = "-" then Some RUnit
    else if t = "O" then Some (RLookup LOrphaned)
    else if t = "M" then Some (RLookup LMissing)
    else if t = "1" then Some (RProbe true)
    else if t = "0" then Some (RProbe false)
    else if t = "panic" then Some (RAlloc (AllocPanic, tok_of o))
    else
      let rest = String.sub t 1 (String.length t - 1) in
      match t.[0] with
      | 's' -> Some (RAlloc (AllocOk (n_of_hex rest), tok_of o))
      | 'f' -> Some (RAlloc (AllocFull, n_of_hex rest))
      | 'H' -> (match split_dot rest with
          | [r; k] -> Some (RLookup (LHandler (n_of_hex r, n_of_hex k)))
          | _ -> None)
      | _ -> None
  with _ -> None

let sort_ints l = List.sort compare l
let join f l = if l = [] then "-" else String.concat "," (List.map f l)
let hx = Printf.sprintf "%x"

let final_text (m : hmap) : string list =
  let hs = sort_ints (List.map (fun (sid, (rid, tok)) -> (int_of_n sid, int_of_n rid, int_of_n tok))
                        (hm_into_handlers m)) in
  let ws = List.mapi (fun i w -> (i, w)) (hm_words m) in
  let ws = List.filter (fun (_, w) -> w <> N0) ws in
  let rs = sort_ints (List.map (fun (r, s) -> (int_of_n r, int_of_n s)) (melements (hm_r2s m))) in
  let os = sort_ints (List.map int_of_n (hm_orphans m)) in
  [ "H=" ^ join (fun (s, r, t) -> hx s ^ ":" ^ hx r ^ ":" ^ hx t) hs;
    "W=" ^ join (fun (i, w) -> hx i ^ ":" ^ hex_of_n w) ws;
    "R=" ^ join (fun (r, s) -> hx r ^ ":" ^ hx s) rs;
    "O=" ^ join hx os;
    (* by_orphaning_times holds one (time, id) per orphaned id *)
    "B=" ^ hx (List.length os);
    "L=" ^ hx (List.length (hm_words m)) ]

(* runs of >= 3 allocation results with consecutive ids are written S<first>.<count> *)
let sid_of_tok t =
  if String.length t > 1 && t.[0] = 's' then
    (try Some (int_of_string ("0x" ^ String.sub t 1 (String.length t - 1))) with _ -> None)
  else None

let compress (l : string list) : string list =
  let a = Array.of_list l in
  let n = Array.length a in
  let out = ref [] in
  let i = ref 0 in
  while !i < n do
    (match sid_of_tok a.(!i) with
     | Some k ->
       let j = ref (!i + 1) in
       while !j < n && sid_of_tok a.(!j) = Some (k + (!j - !i)) do incr j done;
       if !j - !i >= 3 then begin
         out := Printf.sprintf "S%x.%x" k (!j - !i) :: !out; i := !j
       end else begin out := a.(!i) :: !out; incr i end
     | None -> out := a.(!i) :: !out; incr i)
  done;
  List.rev !out

let expand (l : string list) : string list =
  List.concat_map (fun t ->
    if String.length t > 1 && t.[0] = 'S' then
      (match split_dot (String.sub t 1 (String.length t - 1)) with
       | [k; c] ->
         let k = int_of_string ("0x" ^ k) and c = int_of_string ("0x" ^ c) in
         List.init c (fun i -> Printf.sprintf "s%x" (k + i))
       | _ -> [t])
    else [t]) l

let rec take n l = if n <= 0 then [] else match l with [] -> [] | x :: r -> x :: take (n - 1) r

let first_diff a b =
  let rec go i a b = match a, b with
    | [], [] -> None
    | x :: a', y :: b' -> if x = y then go (i + 1) a' b' else Some (i, x, y)
    | x :: _, [] -> Some (i, x, "<none>")
    | [], y :: _ -> Some (i, "<none>", y) in
  go 0 a b

(* ------------------------------------------------------------------ state-machine cases *)
let verdict_sm optoks impl =
    let ops = expand_ops optoks in
    let (m, rs) = hm_run hm_new ops in
    let model = compress (List.map res_text rs) @ final_text m in
    if model = impl then "ok"
    else begin
      let model = List.map res_text rs @ final_text m in
      let impl = expand impl in
      let nops = List.length ops in
      let where = match first_diff model impl with
        | Some (i, x, y) -> Printf.sprintf "at=%d model=%s impl=%s" i x y
        | None -> "at=?" in
      (* the property on the implementation's own results: sm_check when request ids and tokens
         are not repeated, else its stream-id part ids_check (C02_ids_spec: holds for every sequence) *)
      let impl_res = take nops impl in
      let parsed = List.map2 (fun o t -> res_parse o t)
          (take (List.length impl_res) ops) impl_res in
      if List.exists (fun t -> t = "panic" || t = "X=panic") impl then
        "diff implementation-panicked " ^ where
      else if List.length impl_res = nops && List.for_all (fun x -> x <> None) parsed then begin
        let prs = List.map (function Some x -> x | None -> RUnit) parsed in
        let holds = if sm_applicable ops then sm_check ops prs else ids_check ops prs in
        if holds then "diff " ^ where
        else "viol property-fails-on-impl-results " ^ where
      end
      else "diff " ^ where
    end

(* ------------------------------------------------------------------ timed state-machine cases (kind T)
   ops additionally: w<ms> (time passes; no model step) and c (old_orphans_count).  The real clock
   reading of an `o` / `c` operation lies between the two stamps of K=: the model is run with the
   latest orphaning times and earliest count times (smallest count) and the other way round
   (largest count: C02_old_count_bracket); every other result does not depend on the clock
   (C02_clock_independent) and is compared exactly. *)
type titem = TI of op | TW | TC

let expand_titems (toks : string list) : titem list =
  List.concat_map (fun t ->
    match t.[0] with
    | 'w' -> [TW]
    | 'c' -> [TC]
    | _ -> List.map (fun o -> TI o) (expand_ops [t])) toks

let th_final_text (t : thmap) : string list =
  let hs = sort_ints (List.map (fun (sid, (rid, tok)) -> (int_of_n sid, int_of_n rid, int_of_n tok))
                        (melements t.th_handlers)) in
  let ws = List.mapi (fun i w -> (i, w)) t.th_words in
  let ws = List.filter (fun (_, w) -> w <> N0) ws in
  let rs = sort_ints (List.map (fun (r, s) -> (int_of_n r, int_of_n s)) (melements t.th_r2s)) in
  let os = sort_ints (List.map (fun (s, _) -> int_of_n s) t.th_ot.ot_orphans) in
  [ "H=" ^ join (fun (s, r, t) -> hx s ^ ":" ^ hx r ^ ":" ^ hx t) hs;
    "W=" ^ join (fun (i, w) -> hx i ^ ":" ^ hex_of_n w) ws;
    "R=" ^ join (fun (r, s) -> hx r ^ ":" ^ hx s) rs;
    "O=" ^ join hx os;
    "B=" ^ hx (List.length t.th_ot.ot_by);
    "L=" ^ hx (List.length t.th_words) ]

let starts_with p s = String.length s >= String.length p && String.sub s 0 (String.length p) = p

let verdict_timed optoks impl =
  let items = expand_titems optoks in
  let ktok = List.find_opt (starts_with "K=") impl in
  let impl = List.filter (fun t -> not (starts_with "K=" t)) impl in
  match ktok with
  | None ->
    if List.exists (fun t -> t = "panic" || t = "X=panic") impl then "diff implementation-panicked"
    else "error no-stamps"
  | Some k ->
    let stamps =
      let body = String.sub k 2 (String.length k - 2) in
      if body = "-" then [] else
        List.map (fun p -> match split_dot p with
            | [lo; hi] -> (n_of_hex lo, n_of_hex hi)
            | _ -> failwith "bad stamp") (String.split_on_char ',' body) in
    let nstamped = List.length (List.filter (function TI (OpOrphan _) | TC -> true | _ -> false) items) in
    if List.length stamps <> nstamped then "error stamp-count"
    else begin
      (* min: orphans late (hi), counts early (lo); max: the other way round *)
      let build pick_orphan pick_count =
        let rec go items stamps = match items with
          | [] -> []
          | TW :: r -> go r stamps
          | TC :: r -> (match stamps with st :: sr -> TCount (pick_count st) :: go r sr | [] -> [])
          | TI (OpOrphan rid) :: r ->
            (match stamps with st :: sr -> TOp (OpOrphan rid, pick_orphan st) :: go r sr | [] -> [])
          | TI o :: r -> TOp (o, N0) :: go r stamps in
        go items stamps in
      let (tmin, rmin) = th_run th_new (build snd fst) in
      let (tmax, rmax) = th_run th_new (build fst snd) in
      let impl_x = expand impl in
      (* model tokens in item order; a count is replaced by the implementation's when in range *)
      let rec toks items rmin rmax impl = match items with
        | [] -> []
        | TW :: r -> "-" :: toks r rmin rmax (match impl with _ :: i -> i | [] -> [])
        | _ :: r ->
          (match rmin, rmax with
           | TRes a :: rmin', TRes b :: rmax' ->
             let t = if a = b then res_text a else "clock-dependent!" ^ res_text a ^ "/" ^ res_text b in
             t :: toks r rmin' rmax' (match impl with _ :: i -> i | [] -> [])
           | TCnt a :: rmin', TCnt b :: rmax' ->
             let lo = int_of_n a and hi = int_of_n b in
             let it = match impl with x :: _ -> x | [] -> "" in
             let inrange =
               String.length it > 1 && it.[0] = 'n' &&
               (match int_of_string_opt ("0x" ^ String.sub it 1 (String.length it - 1)) with
                | Some v -> lo <= v && v <= hi | None -> false) in
             let t = if inrange then it else Printf.sprintf "n%x..%x" lo hi in
             t :: toks r rmin' rmax' (match impl with _ :: i -> i | [] -> [])
           | _ -> ["model-shape"]) in
      let model = toks items rmin rmax impl_x @ th_final_text tmin in
      (* when the sequence ends with a count probe, the implementation's count is also compared with
         the declarative reading of C02_old_count_char on the final states: the number of ids
         orphaned for more than 1 s ([old_ids]) at the earliest / latest clock reading *)
      let last_probe =
        match List.rev items, List.rev stamps with
        | TC :: _, (lo, hi) :: _ ->
          let n = List.length items in
          (match List.nth_opt impl_x (n - 1) with
           | Some it when String.length it > 1 && it.[0] = 'n' ->
             (match int_of_string_opt ("0x" ^ String.sub it 1 (String.length it - 1)) with
              | Some v -> Some (List.length (old_ids tmin lo) <= v && v <= List.length (old_ids tmax hi))
              | None -> None)
           | _ -> None)
        | _ -> None in
      if model = impl_x then
        (match last_probe with
         | Some true -> "ok oldids"
         | Some false -> "diff old_ids-bracket-excludes-the-count"
         | None -> "ok")
      else begin
        let where = match first_diff model impl_x with
          | Some (i, x, y) -> Printf.sprintf "at=%d model=%s impl=%s" i x y
          | None -> "at=?" in
        (* the property on the implementation's own results (time and counts left out) *)
        let n = List.length items in
        let pairs = List.combine items (take n (impl_x @ List.init n (fun _ -> "?"))) in
        let sel = List.filter_map (function (TI o, t) -> Some (o, t) | _ -> None) pairs in
        let ops = List.map fst sel in
        let parsed = List.map (fun (o, t) -> res_parse o t) sel in
        if List.exists (fun t -> t = "panic" || t = "X=panic") impl then
          "diff implementation-panicked " ^ where
        else if List.length impl_x >= n && List.for_all (fun x -> x <> None) parsed then begin
          let prs = List.map (function Some x -> x | None -> RUnit) parsed in
          let holds = if sm_applicable ops then sm_check ops prs else ids_check ops prs in
          if holds then "diff " ^ where else "viol property-fails-on-impl-results " ^ where
        end
        else "diff " ^ where
      end
    end

(* ------------------------------------------------------------------ end-to-end histories (kinds P R N S X K G)
   the extracted acceptor c02_trace_ok (accepts every history of the connection model: C02_trace_sound; what acceptance means: C02_trace_no_share, C02_trace_delivery)
   on the merged event list *)
type etok = Ev of ev | Cancel | Bad of string

let parse_event (t : string) : etok =
  try
    let rest = String.sub t 1 (String.length t - 1) in
    match t.[0] with
    | 's' -> Ev (ESub (n_of_hex rest))
    | 'c' when String.length t > 1 && (match rest.[0] with '0'..'9' | 'a'..'f' -> true | _ -> false)
               && not (starts_with "close" t) -> Cancel
    | 'i' -> (match split_dot rest with [s; m] -> Ev (EIn (n_of_hex s, n_of_hex m)) | _ -> Bad t)
    | 'o' -> (match split_dot rest with
        | [s; m] ->
          (* reader(): only ids >= 0 are looked up (C02_dispatch_lookup); a frame on a negative id
             reaches nobody and answers nothing *)
          (match reader_dispatch (n_of_hex s) with
           | DLookup sid -> Ev (EOut (sid, n_of_hex m))
           | DEvent | DIgnore -> Cancel)
        | _ -> Bad t)
    | 'd' ->
      (match String.index_opt rest '.' with
       | None -> Bad t
       | Some i ->
         let m = n_of_hex (String.sub rest 0 i) in
         let o = String.sub rest (i + 1) (String.length rest - i - 1) in
         if o = "a" then Ev (EDone (m, OErrAlloc))
         else if o <> "" && o.[0] = 'r' then Ev (EDone (m, ORows (n_of_hex (String.sub o 1 (String.length o - 1)))))
         else if o <> "" && o.[0] = 'x' then Ev (EDone (m, OOther))
         else Bad t)
    | _ -> Bad t
  with _ -> Bad t

let ev_text = function
  | ESub m -> "s" ^ hex_of_n m
  | EIn (s, m) -> "i" ^ hex_of_n s ^ "." ^ hex_of_n m
  | EOut (s, m) -> "o" ^ hex_of_n s ^ "." ^ hex_of_n m
  | EDone (m, ORows x) -> "d" ^ hex_of_n m ^ ".r" ^ hex_of_n x
  | EDone (m, OErrAlloc) -> "d" ^ hex_of_n m ^ ".a"
  | EDone (m, OOther) -> "d" ^ hex_of_n m ^ ".x"

let verdict_e2e_base impl =
  match impl with
  | "setup-error" :: r -> "ok notrun " ^ String.concat " " r   (* counted and capped by checks/c02.py post *)
  | _ ->
    match List.find_opt (starts_with "T=") impl with
    | None -> "error no-trace " ^ String.concat " " (take 3 impl)
    | Some t ->
      let body = String.sub t 2 (String.length t - 2) in
      let toks = if body = "-" then [] else String.split_on_char ',' body in
      (* informational tokens: the connection was closed / went silent / raw bytes without a frame *)
      let info t = starts_with "close" t || t = "stalled" || t = "rawout" in
      let rec upto_close = function
        | [] -> []
        | t :: _ when starts_with "close" t -> []
        | t :: r -> t :: upto_close r in
      let closed = List.exists (fun t -> starts_with "close" t) toks in
      let conns = match List.find_opt (starts_with "conns=") impl with
        | Some c -> (try int_of_string (String.sub c 6 (String.length c - 6)) with _ -> 1) | None -> 1 in
      let broken = closed || conns > 1 in
      let judged = if broken then upto_close toks else toks in
      let parsed = List.map (fun t -> (t, parse_event t)) (List.filter (fun t -> not (info t)) judged) in
      (match List.find_opt (function (_, Bad _) -> true | _ -> false) parsed with
       | Some (t, _) -> "error unknown-event " ^ t
       | None ->
         let evs = List.filter_map (function (_, Ev e) -> Some e | _ -> None) parsed in
         let others = List.filter (fun t -> String.length t > 2 && t.[0] = 'd' &&
                                            (match String.index_opt t '.' with
                                             | Some i -> i + 1 < String.length t && t.[i + 1] = 'x'
                                             | None -> false)) toks in
         (* which event / which final clause rejects *)
         let rec go a i = function
           | [] -> Ok a
           | e :: r ->
             (match acc_step a e with
              | Some a' -> go a' (i + 1) r
              | None ->
                let what = match e with
                  | ESub _ -> "error harness-duplicate-submit"
                  | EOut _ -> "error mock-answer-not-owed"
                  | EIn (sid, m) ->
                    let has k mp = PositiveMap.find (mkey k) mp <> None in
                    (* the property clause only when it is the one that rejects: the frame is otherwise
                       regular (id in range, submitted, written once, no outcome yet) *)
                    let regular = int_of_n sid < 32768 && has m a.a_sub && not (has m a.a_recv) && not (has m a.a_done) in
                    (match (if regular then PositiveMap.find (mkey sid) a.a_owed else None) with
                     | Some m' -> "viol stream-carried-by-two-unanswered-requests stream=" ^ hex_of_n sid
                                  ^ " first=" ^ hex_of_n m' ^ " second=" ^ hex_of_n m
                     | None -> "diff bad-request-frame")   (* id >= 32768 / not submitted / written twice / after the outcome: not the property *)
                  | EDone (m, ORows _) ->
                    if PositiveMap.find (mkey m) a.a_done <> None then "diff second-outcome"
                    else if PositiveMap.find (mkey m) a.a_sub = None then "error harness-outcome-without-submit"
                    else "viol caller-got-a-response-not-sent-for-it"
                  | EDone (_, OErrAlloc) -> "diff alloc-failure-for-a-written-request"
                  | EDone (_, OOther) -> "diff second-outcome" in
                Error (Printf.sprintf "%s at=%d event=%s" what i (ev_text e))) in
         if broken then begin
           (* the connection ended inside the scenario although the mock never cuts it: only the
              history up to the close is judged, event by event (C02_trace_prefix) *)
           match go acc_init 0 evs with
           | Error v -> v
           | Ok _ -> "diff connection-closed-unexpectedly conns=" ^ string_of_int conns
         end
         else if c02_trace_ok evs then begin
           let judged_rows = List.exists (function EDone (_, ORows _) -> true | _ -> false) evs in
           match others, List.filter info toks with
           | [], [] -> if judged_rows then "ok" else "diff nothing-judged (no caller completed with a response in this history)"
           | t :: _, _ ->
             (* no marker request ever reached the mock and every outcome is an error: the pool
                connection never came up (environment) -- counted as not run, capped in post *)
             if conns = 0 && not (List.exists (function EIn _ -> true | _ -> false) evs)
                && not (List.exists (function EDone (_, (ORows _ | OErrAlloc)) -> true | _ -> false) evs)
             then "ok notrun pool-never-connected " ^ t
             else "diff unexpected-error-outcome " ^ t   (* the mock never faults in these scenarios *)
           | [], t :: _ -> "diff unexpected-event " ^ t
         end else begin
           match go acc_init 0 evs with
           | Error v -> v
           | Ok a ->
             if final_ok a then "error acceptor-inconsistent" else
               let bad = List.filter (fun (m, _) -> not (exhaust_ok a m)) (melements a.a_done) in
               (match bad with
                | (m, _) :: _ -> "diff alloc-failure-without-exhaustion request=" ^ hex_of_n m
                | [] -> "error acceptor-inconsistent")
         end)

(* kind K: `K <seed> <abandon> <live> <hold>`: the model (th_run + orphaner_tick_breaks, C02_tick) says
   whether a tick two seconds after the callers were abandoned ends the connection *)
let model_breaks (abandon : int) (live : int) : bool =
  let total = abandon + live in
  let ops = List.init total (fun i -> TOp (OpAlloc (n_of_int (i + 1), n_of_int (i + 1)), N0))
            @ List.init abandon (fun i -> TOp (OpOrphan (n_of_int (i + 1)), N0)) in
  let (t, _) = th_run th_new ops in
  orphaner_tick_breaks t (n_of_hex "77359400")   (* 2 s *)

let verdict_threshold case impl =
  match impl with
  | "setup-error" :: r -> "ok notrun " ^ String.concat " " r
  | _ ->
  match case with
  | [_seed; a; l; _hold] ->
    let abandon = int_of_string a and live = int_of_string l in
    let expect = model_breaks abandon live in
    let toks = match List.find_opt (starts_with "T=") impl with
      | Some t -> String.split_on_char ',' (String.sub t 2 (String.length t - 2)) | None -> [] in
    let closed = List.exists (starts_with "close") toks in
    let too_many = List.length (List.filter (fun t -> starts_with "d" t &&
        (match String.index_opt t '.' with
         | Some i -> String.sub t (i + 1) (String.length t - i - 1) = "xTooManyOrphanedStreamIds" | None -> false)) toks) in
    let rows = List.length (List.filter (fun t -> starts_with "d" t &&
        (match String.index_opt t '.' with Some i -> i + 1 < String.length t && t.[i + 1] = 'r' | None -> false)) toks) in
    if expect then begin
      (* the history up to the close is judged by the acceptor; afterwards every live caller must
         have failed with the orphan error, none may hold rows *)
      match verdict_e2e_base impl with
      | v when not (v = "ok" || starts_with "diff connection-closed-unexpectedly" v
                    || starts_with "diff unexpected-error-outcome" v) -> v
      | _ ->
        if closed && too_many = live && rows = 0 then "ok"
        else Printf.sprintf "diff orphan-threshold model=break closed=%b failed=%d/%d rows=%d" closed too_many live rows
    end else begin
      match verdict_e2e_base impl with
      | "ok" -> if rows = live then "ok" else Printf.sprintf "diff orphan-threshold model=no-break rows=%d/%d" rows live
      | v -> v
    end
  | _ -> "error bad-K-case"

(* ------------------------------------------------------------------ reader cases (kind O) *)
let unhex (h : string) : int array =
  if h = "-" then [||] else Array.init (String.length h / 2) (fun i -> hexval h.[2*i] * 16 + hexval h.[2*i+1])

type seg = { hdr : int array; blen : int; seed : int; ins : (int * int array) list }

let parse_seg (t : string) : seg =
  match String.split_on_char ':' t with
  | [h; l; sd; ins] ->
    { hdr = unhex h; blen = int_of_string ("0x" ^ l); seed = int_of_string ("0x" ^ sd);
      ins = if ins = "-" then [] else
          List.map (fun x -> match String.split_on_char '=' x with
              | [o; b] -> (int_of_string ("0x" ^ o), unhex b)
              | _ -> failwith "bad insert") (String.split_on_char '+' ins) }
  | _ -> failwith "bad segment"

(* byte i of a segment's body; later inserts override earlier ones (the runner overlays in order) *)
let body_byte (s : seg) (i : int) : int =
  List.fold_left (fun acc (o, b) -> if i >= o && i < o + Array.length b then b.(i - o) else acc)
    ((i + s.seed) mod 251) s.ins

let fnv_prime = 0x100000001b3L
let digest_fn (len : int) (byte : int -> int) : int64 =
  let h = ref 0xcbf29ce484222325L in
  let tail = max 0 (len - 70000) in
  let i = ref 0 in
  while !i < len do
    if !i < 4096 || !i >= tail || !i mod 4099 = 0 then begin
      h := Int64.mul (Int64.logxor !h (Int64.of_int (byte !i))) fnv_prime; incr i
    end else begin
      let next_mult = (!i / 4099 + 1) * 4099 in
      i := min next_mult (max tail (!i + 1))
    end
  done; !h

let valid_op o = List.mem o [0; 2; 3; 6; 8; 12; 14; 16]

(* the stream as a function: total length and byte at an absolute offset *)
let stream_of (segs : seg list) =
  let arr = Array.of_list segs in
  let starts = Array.make (Array.length arr + 1) 0 in
  Array.iteri (fun i s -> starts.(i + 1) <- starts.(i) + Array.length s.hdr + s.blen) arr;
  let total = starts.(Array.length arr) in
  let cur = ref 0 in
  let byte (p : int) : int =
    (* sequential access mostly: keep a cursor *)
    while !cur > 0 && p < starts.(!cur) do decr cur done;
    while !cur < Array.length arr - 1 && p >= starts.(!cur + 1) do incr cur done;
    let s = arr.(!cur) in
    let off = p - starts.(!cur) in
    if off < Array.length s.hdr then s.hdr.(off) else body_byte s (off - Array.length s.hdr) in
  (total, byte)

(* the law of C02_reader_frames, directly on the description: each frame = 9 header bytes + exactly
   `length` body bytes, the next frame starts right behind *)
let reader_law (segs : seg list) : string list =
  let (total, byte) = stream_of segs in
  let rec go pos acc =
    if total - pos < 9 then List.rev ("eHeaderIoError" :: acc)
    else begin
      let b k = byte (pos + k) in
      let ver = b 0 in
      if ver land 0x80 <> 0x80 then List.rev ("eFrameFromClient" :: acc)
      else if ver land 0x7f <> 4 then List.rev (Printf.sprintf "eVersionNotSupported.%x" (ver land 0x7f) :: acc)
      else if not (valid_op (b 4)) then List.rev ("eUnknownResponseOpcode" :: acc)
      else begin
        let len = (b 5 lsl 24) lor (b 6 lsl 16) lor (b 7 lsl 8) lor b 8 in
        let avail = total - pos - 9 in
        if avail < len then List.rev (Printf.sprintf "eConnectionClosed.%x.%x" (len - avail) len :: acc)
        else begin
          let start = pos + 9 in
          let d = digest_fn len (fun i -> byte (start + i)) in
          let tok = Printf.sprintf "f%x.%x.%x.%x.%Lx" ((b 2 lsl 8) lor b 3) (b 1) (b 4) len d in
          go (start + len) (tok :: acc)
        end
      end
    end in
  go 0 []

(* the same through the extracted reader model, on the materialised bytes *)
let reader_model (segs : seg list) : string list =
  let (total, byte) = stream_of segs in
  let bytes = List.init total (fun i -> n_of_int (byte i)) in
  let (fs, e) = read_frames (nat_of_int (List.length segs + 70)) bytes in
  let ftok (f : frame) =
    let h = Array.of_list (List.map int_of_n f.f_hdr) in
    let body = Array.of_list (List.map int_of_n f.f_body) in
    Printf.sprintf "f%x.%x.%x.%x.%Lx" ((h.(2) lsl 8) lor h.(3)) h.(1) h.(4) (Array.length body)
      (digest_fn (Array.length body) (fun i -> body.(i))) in
  let etok = match e with
    | RdBad FrameFromClient -> "eFrameFromClient"
    | RdBad (VersionNotSupported v) -> "eVersionNotSupported." ^ hex_of_n v
    | RdBad (UnknownOpcode _) -> "eUnknownResponseOpcode"
    | RdNeedMore left ->
      let left = int_of_n left in
      if left < 9 then "eHeaderIoError"
      else begin
        (* header complete, body short: the declared length is in the last 4 header bytes *)
        let pos = total - left in
        let len = (byte (pos + 5) lsl 24) lor (byte (pos + 6) lsl 16) lor (byte (pos + 7) lsl 8) lor byte (pos + 8) in
        Printf.sprintf "eConnectionClosed.%x.%x" (len - (left - 9)) len
      end in
  List.map ftok fs @ [etok]

let verdict_reader case impl =
  match case with
  | [_chunk; segs] ->
    let segs = List.map parse_seg (List.filter (fun x -> x <> "") (String.split_on_char ';' segs)) in
    let total = List.fold_left (fun a s -> a + Array.length s.hdr + s.blen) 0 segs in
    let law = reader_law segs in
    let expected =
      if total <= 20000 then begin
        let m = reader_model segs in
        if m <> law then Error ("error driver-law-differs-from-extracted-model " ^ String.concat " " m) else Ok law
      end else Ok law in
    (match expected with
     | Error e -> e
     | Ok exp ->
       if exp = impl then "ok"
       else begin
         let where = match first_diff exp impl with
           | Some (i, x, y) -> Printf.sprintf "at=%d model=%s impl=%s" i x y
           | None -> "at=?" in
         (* a frame handed out that the peer never sent as a frame = the property fails *)
         let alien = List.filter (fun t -> t <> "" && t.[0] = 'f' && not (List.mem t exp)) impl in
         match alien with
         | t :: _ -> "viol reader-returned-a-frame-the-peer-did-not-send " ^ t ^ " " ^ where
         | [] -> "diff " ^ where
       end)
  | _ -> "error bad-reader-case"

(* a case whose scenario was attempted more than once: `<history> NEXT <history>`; every attempt is judged *)
let segments (impl : string list) : string list list =
  let rec go cur acc = function
    | [] -> List.rev (List.rev cur :: acc)
    | "NEXT" :: r -> go [] (List.rev cur :: acc) r
    | t :: r -> go (t :: cur) acc r in
  go [] [] impl

let is_setup_error seg = match seg with "setup-error" :: _ -> true | _ -> false

(* a caller holding rows built for another marker, anywhere in a history (also after a close) *)
let misdelivery_anywhere (seg : string list) : string option =
  match List.find_opt (starts_with "T=") seg with
  | None -> None
  | Some t ->
    let toks = String.split_on_char ',' (String.sub t 2 (String.length t - 2)) in
    List.find_opt (fun t -> match parse_event t with
        | Ev (EDone (m, ORows m')) -> m <> m'
        | _ -> false) toks

(* an attempt that is not the scenario's last word (it missed its window and another attempt
   followed): its history is judged all the same -- every `viol` reports -- but it may have completed
   nothing, and its connection may have been ended by the orphaner (a late attempt aborts all its
   callers at once: more than 1024 ids orphaned for over 1 s is a legitimate TooManyOrphanedStreamIds) *)
let earlier_attempt_ok (seg : string list) : string option =
  match misdelivery_anywhere seg with
  | Some t -> Some ("viol caller-got-a-response-not-sent-for-it event=" ^ t)
  | None ->
    (match verdict_e2e_base seg with
     | "ok" -> None
     | v when starts_with "diff connection-closed-unexpectedly" v || starts_with "diff unexpected-error-outcome" v
              || starts_with "diff nothing-judged" v -> None
     | v -> Some v)

let verdict_e2e impl =
  let rec all = function
    | [] -> "ok"
    | [seg] when is_setup_error seg -> "ok notrun " ^ String.concat " " seg
    | [seg] -> verdict_e2e_base seg
    | seg :: r -> (match earlier_attempt_ok seg with None -> all r | Some v -> v) in
  all (segments impl)

let verdict_threshold_all case impl =
  let segs = segments impl in
  let rec go = function
    | [] -> "error empty-K"
    | [last] -> if is_setup_error last then "ok notrun " ^ String.concat " " last else verdict_threshold case last
    | seg :: r -> (match earlier_attempt_ok seg with None -> go r | Some v -> v) in
  go segs

let verdict case impl =
  match case with
  | [] -> "error empty-case"
  | "T" :: optoks -> verdict_timed optoks impl
  | ("P" | "R" | "X" | "G" | "N" | "S") :: _ -> verdict_e2e impl
  | "K" :: rest -> verdict_threshold_all rest impl
  | "O" :: rest -> verdict_reader rest impl
  | _kind :: optoks -> verdict_sm optoks impl

let () = run_lines verdict
