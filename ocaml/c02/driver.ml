(* C02 correspondence driver: runs the extracted handler-map model (Model/Streams.v) on the
   operation sequence of each case and compares every return value and the final state with
   what the real ResponseHandlerMap produced.  Cheap thing first: exact comparison with the
   model; only on a mismatch the specification predicate [sm_check] (the property itself, on the
   implementation's own results) decides between `viol` and `diff`. *)

let split_dot s = String.split_on_char '.' s

let expand_ops (toks : string list) : op list =
  let out = ref [] in
  List.iter (fun t ->
    let c = t.[0] and rest = String.sub t 1 (String.length t - 1) in
    let parts = split_dot rest in
    match c, parts with
    | 'a', [r; k] -> out := OpAlloc (n_of_hex r, n_of_hex k) :: !out
    | 'o', [r] -> out := OpOrphan (n_of_hex r) :: !out
    | 'l', [s] -> out := OpLookup (n_of_hex s) :: !out
    | 'p', [k] -> out := OpProbe (n_of_hex k) :: !out
    | 'F', [n; r0] ->
      let n = int_of_string ("0x" ^ n) and r0 = int_of_string ("0x" ^ r0) in
      for i = 0 to n - 1 do
        let v = n_of_int (r0 + i) in out := OpAlloc (v, v) :: !out
      done
    | 'D', [k; st; sd] ->
      let k = int_of_string ("0x" ^ k) and st = int_of_string ("0x" ^ st)
      and sd = int_of_string ("0x" ^ sd) in
      for i = 0 to k - 1 do
        out := OpLookup (n_of_int ((st + i * sd) mod 32768)) :: !out
      done
    | _ -> failwith ("bad op " ^ t)) toks;
  List.rev !out

let res_text (r : op_res) : string =
  match r with
  | RAlloc (AllocOk sid, _) -> "s" ^ hex_of_n sid
  | RAlloc (AllocFull, tok) -> "f" ^ hex_of_n tok
  | RAlloc (AllocPanic, _) -> "panic"
  | RUnit -> "-"
  | RLookup LOrphaned -> "O"
  | RLookup LMissing -> "M"
  | RLookup (LHandler (rid, tok)) -> "H" ^ hex_of_n rid ^ "." ^ hex_of_n tok
  | RProbe b -> if b then "1" else "0"

(* implementation result token -> op_res (for the specification predicate) *)
let res_parse (o : op) (t : string) : op_res option =
  let tok_of = function OpAlloc (_, k) -> k | _ -> N0 in
  try
    if t = "-" then Some RUnit
    else if t = "O" then Some (RLookup LOrphaned)
    else if t = "M" then Some (RLookup LMissing)
    else if t = "1" then Some (RProbe true)
    else if t = "0" then Some (RProbe false)
    else if t = "panic" then Some (RAlloc (AllocPanic, tok_of o))
    else
      let rest = String.sub t 1 (String.length t - 1) in
      match t.[0] with
      | 's' -> Some (RAlloc (AllocOk (n_of_hex rest), tok_of o))
      | 'f' -> Some (RAlloc (AllocFull, n_of_hex rest))
      | 'H' -> (match split_dot rest with
          | [r; k] -> Some (RLookup (LHandler (n_of_hex r, n_of_hex k)))
          | _ -> None)
      | _ -> None
  with _ -> None

let sort_ints l = List.sort compare l
let join f l = if l = [] then "-" else String.concat "," (List.map f l)
let hx = Printf.sprintf "%x"

let final_text (m : hmap) : string list =
  let hs = sort_ints (List.map (fun (sid, (rid, tok)) -> (int_of_n sid, int_of_n rid, int_of_n tok))
                        (hm_into_handlers m)) in
  let ws = List.mapi (fun i w -> (i, w)) (hm_words m) in
  let ws = List.filter (fun (_, w) -> w <> N0) ws in
  let rs = sort_ints (List.map (fun (r, s) -> (int_of_n r, int_of_n s)) (melements (hm_r2s m))) in
  let os = sort_ints (List.map int_of_n (hm_orphans m)) in
  [ "H=" ^ join (fun (s, r, t) -> hx s ^ ":" ^ hx r ^ ":" ^ hx t) hs;
    "W=" ^ join (fun (i, w) -> hx i ^ ":" ^ hex_of_n w) ws;
    "R=" ^ join (fun (r, s) -> hx r ^ ":" ^ hx s) rs;
    "O=" ^ join hx os;
    (* by_orphaning_times holds one (time, id) per orphaned id *)
    "B=" ^ hx (List.length os);
    "L=" ^ hx (List.length (hm_words m)) ]

(* runs of >= 3 allocation results with consecutive ids are written S<first>.<count> *)
let sid_of_tok t =
  if String.length t > 1 && t.[0] = 's' then
    (try Some (int_of_string ("0x" ^ String.sub t 1 (String.length t - 1))) with _ -> None)
  else None

let compress (l : string list) : string list =
  let a = Array.of_list l in
  let n = Array.length a in
  let out = ref [] in
  let i = ref 0 in
  while !i < n do
    (match sid_of_tok a.(!i) with
     | Some k ->
       let j = ref (!i + 1) in
       while !j < n && sid_of_tok a.(!j) = Some (k + (!j - !i)) do incr j done;
       if !j - !i >= 3 then begin
         out := Printf.sprintf "S%x.%x" k (!j - !i) :: !out; i := !j
       end else begin out := a.(!i) :: !out; incr i end
     | None -> out := a.(!i) :: !out; incr i)
  done;
  List.rev !out

let expand (l : string list) : string list =
  List.concat_map (fun t ->
    if String.length t > 1 && t.[0] = 'S' then
      (match split_dot (String.sub t 1 (String.length t - 1)) with
       | [k; c] ->
         let k = int_of_string ("0x" ^ k) and c = int_of_string ("0x" ^ c) in
         List.init c (fun i -> Printf.sprintf "s%x" (k + i))
       | _ -> [t])
    else [t]) l

let rec take n l = if n <= 0 then [] else match l with [] -> [] | x :: r -> x :: take (n - 1) r

let first_diff a b =
  let rec go i a b = match a, b with
    | [], [] -> None
    | x :: a', y :: b' -> if x = y then go (i + 1) a' b' else Some (i, x, y)
    | x :: _, [] -> Some (i, x, "<none>")
    | [], y :: _ -> Some (i, "<none>", y) in
  go 0 a b

let verdict case impl =
  match case with
  | [] -> "error empty-case"
  | _kind :: optoks ->
    let ops = expand_ops optoks in
    let (m, rs) = hm_run hm_new ops in
    let model = compress (List.map res_text rs) @ final_text m in
    if model = impl then "ok"
    else begin
      let model = List.map res_text rs @ final_text m in
      let impl = expand impl in
      let nops = List.length ops in
      let where = match first_diff model impl with
        | Some (i, x, y) -> Printf.sprintf "at=%d model=%s impl=%s" i x y
        | None -> "at=?" in
      (* the property on the implementation's own results *)
      let impl_res = take nops impl in
      let parsed = List.map2 (fun o t -> res_parse o t)
          (take (List.length impl_res) ops) impl_res in
      if List.length impl_res = nops && List.for_all (fun x -> x <> None) parsed
         && sm_applicable ops then begin
        let prs = List.map (function Some x -> x | None -> RUnit) parsed in
        if sm_check ops prs then "diff " ^ where
        else "viol property-fails-on-impl-results " ^ where
      end else if List.exists (fun t -> t = "panic" || t = "X=panic") impl then
        "diff implementation-panicked " ^ where
      else "diff " ^ where
    end

let () = run_lines verdict
