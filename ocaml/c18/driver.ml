(* C18 correspondence driver: evaluates the extracted Timestamp acceptors on what the real
   MonotonicTimestampGenerator handed out.  Everything list-shaped is built tail-recursively:
   a case carries up to a few 10^5 values. *)

let int_of_shex (s : string) : int =
  if String.length s > 0 && s.[0] = '-'
  then - (int_of_string ("0x" ^ String.sub s 1 (String.length s - 1)))
  else int_of_string ("0x" ^ s)

let rec pos_of_int (i : int) : positive =
  if i = 1 then XH else if i land 1 = 0 then XO (pos_of_int (i lsr 1)) else XI (pos_of_int (i lsr 1))
let z_of_int (i : int) : z =
  if i = 0 then Z0 else if i > 0 then Zpos (pos_of_int i) else Zneg (pos_of_int (- i))

(* one token of a delta/absolute stream, given the previous value of that stream (as an OCaml
   int when it is small enough); returns the value as Z and as int option *)
let small_hex body =
  let b = if String.length body > 0 && body.[0] = '-' then String.sub body 1 (String.length body - 1) else body in
  String.length b <= 15
let decode_token (prev : int option) (tok : string) : z * int option =
  if String.length tok > 0 && tok.[0] = '=' then begin
    let body = String.sub tok 1 (String.length tok - 1) in
    (z_of_hex body, if small_hex body then Some (int_of_shex body) else None)
  end else
    match prev with
    | Some p -> let v = p + int_of_shex tok in (z_of_int v, Some v)
    | None -> failwith "delta token without a small previous value"

let decode_stream (s : string) : z list =
  if s = "-" then [] else begin
    let prev = ref None in
    let first = ref true in
    let acc = List.fold_left (fun acc tok ->
        let tok = if !first && (String.length tok = 0 || tok.[0] <> '=') then "=" ^ tok else tok in
        first := false;
        let (v, p) = decode_token !prev tok in
        prev := p; v :: acc) [] (String.split_on_char ',' s) in
    List.rev acc
  end

(* B samples: three interleaved streams t0, v, t1 *)
let decode_samples (s : string) : ((z * z) * z) list =
  if s = "-" then [] else begin
    let toks = Array.of_list (String.split_on_char ',' s) in
    let n = Array.length toks / 3 in
    if Array.length toks <> 3 * n then failwith "sample list length not a multiple of 3";
    let prev = [| None; None; None |] in
    let acc = ref [] in
    for i = 0 to n - 1 do
      let get j =
        let tok = toks.(3 * i + j) in
        let tok = if i = 0 && (String.length tok = 0 || tok.[0] <> '=') then "=" ^ tok else tok in
        let (v, p) = decode_token prev.(j) tok in
        prev.(j) <- p; v in
      let t0 = get 0 in let v = get 1 in let t1 = get 2 in
      acc := ((t0, v), t1) :: !acc
    done;
    List.rev !acc
  end

let rec zlist_len acc = function [] -> acc | _ :: r -> zlist_len (acc + 1) r

(* first concrete reason why the property predicate fails, for the verdict text only *)
let explain (seqs : z list list) : string =
  let seen = Hashtbl.create 100003 in
  let msg = ref "" in
  List.iteri (fun ti sq ->
      let prev = ref None in
      List.iteri (fun k v ->
          if !msg = "" then begin
            let hv = hex_of_z v in
            (match !prev with
             | Some p when not (Model.Z.ltb p v) ->
               msg := Printf.sprintf "thread=%d call=%d value=%s not-above-previous=%s" ti k hv (hex_of_z p)
             | _ -> ());
            (if !msg = "" then match Hashtbl.find_opt seen hv with
              | Some (t2, k2) -> msg := Printf.sprintf "duplicate=%s thread=%d call=%d and thread=%d call=%d" hv t2 k2 ti k
              | None -> Hashtbl.add seen hv (ti, k));
            prev := Some v
          end) sq) seqs;
  if !msg = "" then "unknown" else !msg

let verdict case impl =
  match case, impl with
  | ["T"; _serial; _warn; threads; calls; pace], [seqs; fin] ->
    let threads = int_of_shex threads and calls = int_of_shex calls in
    let seqs = List.map decode_stream (String.split_on_char ';' seqs) in
    let fin = z_of_hex fin in
    if List.length seqs <> threads || List.exists (fun s -> zlist_len 0 s <> calls) seqs
    then "diff shape: expected " ^ string_of_int threads ^ " sequences of " ^ string_of_int calls
    else begin
      (* the main thread's final call is one more thread of the same generator *)
      let all = seqs @ [[fin]] in
      if prop_ok all then begin
        if not (final_ok seqs fin) then
          "diff model: the call made after joining all threads must exceed every value handed out (C18_inv), final=" ^ hex_of_z fin
        else if pace = "4" then begin (* metric not reported for the two-phase pace *)
          (* two phases separated by a barrier: split every sequence at calls/2 *)
          let split l =
            let rec go k acc l = if k = 0 then (List.rev acc, l) else
                match l with x :: r -> go (k - 1) (x :: acc) r | [] -> (List.rev acc, []) in
            go (calls / 2) [] l in
          let halves = List.map split seqs in
          if phase_ok (List.map fst halves) (List.map snd halves) then "ok"
          else "diff model: a value handed out after the barrier does not exceed every value handed out before it (C18_call_order)"
        end else begin
          (* contention actually achieved: values v whose predecessor v-1 was handed to ANOTHER thread (the
             generator was ahead of / level with the clock and two threads took consecutive values) *)
          let tbl = Hashtbl.create 65536 in
          List.iteri (fun ti sq -> List.iter (fun v -> Hashtbl.replace tbl (hex_of_z v) ti) sq) seqs;
          let adj = ref 0 and total = ref 0 in
          List.iteri (fun ti sq -> List.iter (fun v ->
              incr total;
              match Hashtbl.find_opt tbl (hex_of_z (Z.sub v (Zpos XH))) with
              | Some tj when tj <> ti -> incr adj
              | _ -> ()) sq) seqs;
          Printf.sprintf "ok cross_adjacent=%d values=%d" !adj !total
        end
      end
      else "viol " ^ explain all
    end
  | ["C"; _serial; warn; calls; _profile], [toks] ->
    (* scripted clock: every value must be exactly compute_next(previous value, reading) *)
    let calls = int_of_shex calls in
    let toks = if toks = "-" then [] else String.split_on_char ',' toks in
    if List.length toks <> calls then "diff shape: expected " ^ string_of_int calls ^ " calls"
    else begin
      let warnings = warn <> "0" in
      let panics = ref 0 in
      let rec go k lastv arms = function
        | [] -> let (a, b, c) = arms in Printf.sprintf "ok ahead=%d plus1=%d preepoch=%d panics=%d" a b c !panics
        | tok :: r ->
          (match String.split_on_char ':' tok with
           | [rd; "panic"] ->
             (* the model of the warning branch (overflow checks on) must predict exactly this panic *)
             let c = if rd = "n" then None else Some (z_of_hex rd) in
             (match compute_next_checked warnings lastv c with
              | None -> incr panics; go (k + 1) lastv arms r
              | Some m -> Printf.sprintf "diff call=%d previous=%s reading=%s panicked, model=%s" k (hex_of_z lastv) rd (hex_of_z m))
           | [rd; v] ->
             let c = if rd = "n" then None else Some (z_of_hex rd) in
             let v = z_of_hex v in
             (match compute_next_checked warnings lastv c with
              | None -> Printf.sprintf "diff call=%d previous=%s reading=%s returned=%s, model: overflow panic in the warning branch" k (hex_of_z lastv) rd (hex_of_z v)
              | Some m ->
             if v = m then
               let (a, b, c3) = arms in
               let arms = (match c with
                   | None -> (a, b, c3 + 1)
                   | Some _ -> if v = Z.add lastv (Zpos XH) && not (Some v = c) then (a, b + 1, c3) else (a + 1, b, c3)) in
               go (k + 1) v arms r
             else if not (Z.ltb lastv v) then
               Printf.sprintf "viol call=%d previous=%s reading=%s returned=%s (not above the previous value)" k (hex_of_z lastv) rd (hex_of_z v)
             else Printf.sprintf "diff call=%d previous=%s reading=%s returned=%s model=%s" k (hex_of_z lastv) rd (hex_of_z v) (hex_of_z m))
           | _ -> "error bad token " ^ tok) in
      go 0 Z0 (0, 0, 0) toks
    end
  | ["B"; _serial; _warn; calls; _pace], [samples] ->
    let calls = int_of_shex calls in
    let samples = decode_samples samples in
    if List.length samples <> calls then "diff shape: expected " ^ string_of_int calls ^ " samples"
    else if accept_samples Z0 samples then "ok"
    else begin
      let vs = List.rev (List.rev_map (fun ((_, v), _) -> v) samples) in
      if not (prop_ok [Z0 :: vs]) then "viol " ^ explain [Z0 :: vs]
      else begin
        (* locate the first sample the model cannot produce *)
        let rec find k lastv = function
          | [] -> "unknown"
          | ((t0, v), t1) :: r ->
            if accept_sample lastv t0 v t1 then find (k + 1) v r
            else Printf.sprintf "call=%d last=%s t0=%s v=%s t1=%s model=%s..%s" k (hex_of_z lastv) (hex_of_z t0)
                (hex_of_z v) (hex_of_z t1) (hex_of_z (compute_next lastv (Some t0))) (hex_of_z (compute_next lastv (Some t1))) in
        "diff " ^ find 0 Z0 samples
      end
    end
  | ("E" | "S") :: _, "skip-env" :: _ -> "ok skip-env"
  | (["E"; _; gen; nreq] | ["S"; _; gen; _; nreq]), [toks; consults; unmatched] ->
    (* S = one request shape per case (wave 4): the same verdict, plus every request must have the case's kind *)
    let shape = (match case with ["S"; _; _; k; _] -> Some k | _ -> None) in
    (* Every frame of a request - the first one and the ones re-sent after UNPREPARED - must carry
       frames_ts: the statement's timestamp if it has one (property: sent unchanged, in preference to a
       generated one => viol otherwise), else ONE generated value, the same in all frames of the request.
       The generated value itself is only visible through the frame, so for those requests the comparison
       with choose_ts is vacuous: presence, equality across re-sent frames and pairwise distinctness over the
       requests are what is checked. *)
    let with_gen = int_of_shex gen <> 0 and nreq = int_of_shex nreq in
    let consults = int_of_shex consults and unmatched = int_of_shex unmatched in
    let opt s = if s = "n" then None else Some (z_of_hex s) in
    let toks = if toks = "-" then [] else String.split_on_char ',' toks in
    if List.length toks <> nreq then "diff shape: expected " ^ string_of_int nreq ^ " requests"
    else begin
      let viol = ref "" and diff = ref "" and gens = ref [] and n_generated = ref 0 and resent = ref 0 in
      let n_explicit = ref 0 and n_notset = ref 0 in
      List.iteri (fun i tok ->
          match String.split_on_char '.' tok with
          | [kind; e; o] ->
            (match shape with
             | Some k when k <> kind -> if !diff = "" then diff := Printf.sprintf "request %d has kind %s in a case of shape %s" i kind k
             | _ -> ());
            if o = "missing" then (if !diff = "" then diff := Printf.sprintf "request %d (%s): no frame seen" i kind)
            else begin
              let explicit = opt e in
              let frames = List.map opt (String.split_on_char '+' o) in
              if List.length frames > 1 then incr resent;
              let first = List.hd frames in
              let gen_value = if with_gen && explicit = None then first else None in
              let expected = frames_ts explicit (if with_gen then (match explicit with None -> gen_value | Some _ -> Some Z0) else None)
                  (nat_of_int (List.length frames - 1)) in
              (match explicit with None -> incr n_generated; incr n_notset | Some _ -> incr n_explicit);
              if expected <> frames then begin
                match explicit with
                | Some _ ->
                  if !viol = "" then viol := Printf.sprintf "request %d (%s): statement timestamp %s but the frames carry %s" i kind e o
                | None ->
                  if !diff = "" then diff := Printf.sprintf "request %d (%s): no statement timestamp, generator configured=%b, frames carry %s" i kind with_gen o
              end else if with_gen && explicit = None then
                (match first with
                 | Some g -> gens := g :: !gens
                 | None -> if !diff = "" then diff := Printf.sprintf "request %d (%s): generator configured but the frame has no timestamp" i kind)
            end
          | _ -> if !diff = "" then diff := "bad token " ^ tok) toks;
      if !viol <> "" then "viol " ^ !viol
      else if not (all_distinct [!gens]) then "viol generated timestamps in frames are not pairwise distinct: " ^ explain [List.sort compare !gens]
      else if !diff <> "" then "diff " ^ !diff
      else begin
        (* gen_consulted: one next_timestamp call per request without a statement timestamp (re-sent frames
           reuse the value), plus one per internal request of the driver seen in the window *)
        let expected_consults = if with_gen then !n_generated + unmatched else 0 in
        if consults <> expected_consults then
          Printf.sprintf "diff model: %d next_timestamp calls, expected %d (%d requests without a statement timestamp + %d internal frames)"
            consults expected_consults !n_generated unmatched
        else Printf.sprintf "ok resent=%d explicit=%d notset=%d" !resent !n_explicit !n_notset
      end
    end
  | _ -> "error unknown-case"

let () = run_lines verdict
