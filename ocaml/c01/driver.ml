(* C01 correspondence driver: evaluates the extracted Cql / Vint model on the harness' cases.

   Case kinds (see harness/src/bin/c01.rs):
     R <type> <cell>              | <ser> <deser>    dynamic path: SerializedValues::add_value(&CqlValue) + Option<CqlValue>::deserialize
     T <carrier> <type> <cell>    | <ser> <deser>    typed Rust carrier holding the same value (also against the typed model: ok tm)
     V <carrier> <elemtype> <dim> <cells(..)> | <ser> <deser>   Vec<Option<T>> / Vec<MaybeUnset<T>> bound to a vector
     Q <carrier> <elemtype> <cells(..)>       | <ser> <deser>   ... bound to a list
     E <carrier> <type> <hexbytes> | <deser>         a typed carrier's OWN decoder on arbitrary bytes (against typed_read)
     D <type> <hexbytes>          | <deser>          arbitrary bytes decoded as one [bytes] item (dynamic decoder)
     N u <hex> | N s <hex> | N d <hexbytes>   | ...  vint codec
   <ser>   = ok:<hexbytes> | err:<leaf kind>
   <deser> = ok:<cell> | err:<leaf kind> | -  *)

(* ---------------------------------------------------------------- text <-> model values *)

exception Parse of string

type cur = { s : string; mutable i : int }
let peek c = if c.i < String.length c.s then Some c.s.[c.i] else None
let adv c = c.i <- c.i + 1
let expect c ch =
  match peek c with
  | Some x when x = ch -> adv c
  | _ -> raise (Parse (Printf.sprintf "expected %c at %d in %s" ch c.i c.s))
let is_delim ch = ch = ';' || ch = ')' || ch = '=' || ch = '(' || ch = ':'
let token c =
  let st = c.i in
  while (match peek c with Some ch when not (is_delim ch) -> true | _ -> false) do adv c done;
  String.sub c.s st (c.i - st)

(* items separated by ';' up to ')' ; "()" is the empty list *)
let items c (p : cur -> 'a) : 'a list =
  expect c '(';
  if peek c = Some ')' then (adv c; [])
  else begin
    let acc = ref [p c] in
    while peek c = Some ';' do adv c; acc := p c :: !acc done;
    expect c ')'; List.rev !acc
  end

let natives = [
  "ascii", NAscii; "boolean", NBoolean; "blob", NBlob; "counter", NCounter; "date", NDate;
  "decimal", NDecimal; "double", NDouble; "duration", NDuration; "float", NFloat; "int", NInt;
  "bigint", NBigInt; "text", NText; "timestamp", NTimestamp; "inet", NInet; "smallint", NSmallInt;
  "tinyint", NTinyInt; "time", NTime; "timeuuid", NTimeuuid; "uuid", NUuid; "varint", NVarint ]

let rec p_type c : ctype =
  let t = token c in
  match t with
  | "L" -> (match items c p_type with [e] -> TList e | _ -> raise (Parse "L"))
  | "S" -> (match items c p_type with [e] -> TSet e | _ -> raise (Parse "S"))
  | "M" -> (match items c p_type with [k; v] -> TMap (k, v) | _ -> raise (Parse "M"))
  | "T" -> TTuple (items c p_type)
  | "V" ->
    expect c '(';
    let e = p_type c in
    expect c ';';
    let d = n_of_hex (token c) in
    expect c ')'; TVector (e, d)
  | "U" ->
    expect c '(';
    let ks = bytes_of_hexstr (token c) in expect c ';';
    let nm = bytes_of_hexstr (token c) in
    let fs = ref [] in
    while peek c = Some ';' do
      adv c;
      let fname = bytes_of_hexstr (token c) in
      expect c ':';
      let ft = p_type c in
      fs := (fname, ft) :: !fs
    done;
    expect c ')'; TUdt (ks, nm, List.rev !fs)
  | _ -> (try TNative (List.assoc t natives) with Not_found -> raise (Parse ("type " ^ t)))

let atom c = expect c ':'; token c

let rec p_val c : cval =
  let t = token c in
  match t with
  | "ascii" -> CAscii (bytes_of_hexstr (atom c))
  | "boolean" -> CBoolean (atom c = "1")
  | "blob" -> CBlob (bytes_of_hexstr (atom c))
  | "counter" -> CCounter (z_of_hex (atom c))
  | "decimal" -> let sc = z_of_hex (atom c) in CDecimal (sc, bytes_of_hexstr (atom c))
  | "date" -> CDate (n_of_hex (atom c))
  | "double" -> CDouble (n_of_hex (atom c))
  | "duration" -> let m = z_of_hex (atom c) in let d = z_of_hex (atom c) in CDuration (m, d, z_of_hex (atom c))
  | "empty" -> CEmpty
  | "float" -> CFloat (n_of_hex (atom c))
  | "int" -> CInt (z_of_hex (atom c))
  | "bigint" -> CBigInt (z_of_hex (atom c))
  | "text" -> CText (bytes_of_hexstr (atom c))
  | "timestamp" -> CTimestamp (z_of_hex (atom c))
  | "inet" -> CInet (bytes_of_hexstr (atom c))
  | "list" -> CList (items c p_val)
  | "set" -> CSet (items c p_val)
  | "vector" -> CVector (items c p_val)
  | "map" -> CMap (items c (fun c -> let k = p_val c in expect c '='; let v = p_val c in (k, v)))
  | "tuple" -> CTuple (items c p_opt)
  | "udt" ->
    expect c '(';
    let ks = bytes_of_hexstr (token c) in expect c ';';
    let nm = bytes_of_hexstr (token c) in
    let fs = ref [] in
    while peek c = Some ';' do
      adv c;
      let fname = bytes_of_hexstr (token c) in
      expect c '=';
      fs := (fname, p_opt c) :: !fs
    done;
    expect c ')'; CUdt (ks, nm, List.rev !fs)
  | "smallint" -> CSmallInt (z_of_hex (atom c))
  | "tinyint" -> CTinyInt (z_of_hex (atom c))
  | "time" -> CTime (z_of_hex (atom c))
  | "timeuuid" -> CTimeuuid (bytes_of_hexstr (atom c))
  | "uuid" -> CUuid (bytes_of_hexstr (atom c))
  | "varint" -> CVarint (bytes_of_hexstr (atom c))
  | _ -> raise (Parse ("value " ^ t))
and p_opt c : cval option =
  (* "null" or a value *)
  let save = c.i in
  if token c = "null" then None else (c.i <- save; Some (p_val c))

let p_cell c : cell =
  let save = c.i in
  match token c with
  | "null" -> CNull
  | "unset" -> CUnset
  | _ -> c.i <- save; CVal (p_val c)

let whole p s = let c = { s; i = 0 } in let r = p c in
  if c.i <> String.length s then raise (Parse ("trailing input in " ^ s)); r
let type_of_string = whole p_type
let cell_of_string = whole p_cell
let cells_of_string = whole (fun c -> if token c <> "cells" then raise (Parse "cells"); items c p_cell)

let hb = hexstr_of_bytes
let rec s_val (v : cval) : string =
  let seq name f l = name ^ "(" ^ String.concat ";" (List.map f l) ^ ")" in
  match v with
  | CAscii s -> "ascii:" ^ hb s
  | CBoolean b -> if b then "boolean:1" else "boolean:0"
  | CBlob b -> "blob:" ^ hb b
  | CCounter z -> "counter:" ^ hex_of_z z
  | CDecimal (sc, raw) -> "decimal:" ^ hex_of_z sc ^ ":" ^ hb raw
  | CDate d -> "date:" ^ hex_of_n d
  | CDouble b -> "double:" ^ hex_of_n b
  | CDuration (m, d, n) -> "duration:" ^ hex_of_z m ^ ":" ^ hex_of_z d ^ ":" ^ hex_of_z n
  | CEmpty -> "empty"
  | CFloat b -> "float:" ^ hex_of_n b
  | CInt z -> "int:" ^ hex_of_z z
  | CBigInt z -> "bigint:" ^ hex_of_z z
  | CText s -> "text:" ^ hb s
  | CTimestamp z -> "timestamp:" ^ hex_of_z z
  | CInet b -> "inet:" ^ hb b
  | CList l -> seq "list" s_val l
  | CSet l -> seq "set" s_val l
  | CVector l -> seq "vector" s_val l
  | CMap l -> seq "map" (fun (k, v) -> s_val k ^ "=" ^ s_val v) l
  | CTuple l -> seq "tuple" s_opt l
  | CUdt (ks, nm, fs) ->
    "udt(" ^ String.concat ";" (hb ks :: hb nm :: List.map (fun (f, ov) -> hb f ^ "=" ^ s_opt ov) fs) ^ ")"
  | CSmallInt z -> "smallint:" ^ hex_of_z z
  | CTinyInt z -> "tinyint:" ^ hex_of_z z
  | CTime z -> "time:" ^ hex_of_z z
  | CTimeuuid b -> "timeuuid:" ^ hb b
  | CUuid b -> "uuid:" ^ hb b
  | CVarint b -> "varint:" ^ hb b
and s_opt = function None -> "null" | Some v -> s_val v
let s_cell = function CNull -> "null" | CUnset -> "unset" | CVal v -> s_val v
let s_cells l = "cells(" ^ String.concat ";" (List.map s_cell l) ^ ")"

let ser_err_name = function
  | SE_MismatchedType -> "MismatchedType" | SE_NotEmptyable -> "NotEmptyable"
  | SE_NotSetOrList -> "NotSetOrList" | SE_NotMap -> "NotMap" | SE_NotTuple -> "NotTuple"
  | SE_TupleWrongCount -> "TupleWrongCount" | SE_NotUdt -> "NotUdt"
  | SE_UdtNameMismatch -> "UdtNameMismatch" | SE_NoSuchFieldInUdt -> "NoSuchFieldInUdt"
  | SE_SizeOverflow -> "SizeOverflow" | SE_TooManyElements -> "TooManyElements"
  | SE_VectorLen -> "VectorLen"
let de_err_name = function
  | DE_ExpectedNonNull -> "ExpectedNonNull" | DE_ByteLengthMismatch -> "ByteLengthMismatch"
  | DE_ExpectedAscii -> "ExpectedAscii" | DE_InvalidUtf8 -> "InvalidUtf8"
  | DE_BadDecimalScale -> "BadDecimalScale" | DE_ValueOverflow -> "ValueOverflow"
  | DE_BadDate -> "BadDate" | DE_BadInetLength -> "BadInetLength"
  | DE_RawCqlBytesRead -> "RawCqlBytesRead" | DE_LengthDeser -> "LengthDeser"
  | DE_OutOfFuel -> "OutOfFuel"

let s_ser = function Ok b -> "ok:" ^ hb b | Err e -> "err:" ^ ser_err_name e
let s_deser_cell = function Ok (c, _) -> "ok:" ^ s_cell c | Err e -> "err:" ^ de_err_name e

let class_tag = function
  | KA_vector_null_element -> "vector-null-element"
  | KB_empty_tuple -> "empty-tuple"

let strip_ok s = if String.length s >= 3 && String.sub s 0 3 = "ok:" then Some (String.sub s 3 (String.length s - 3)) else None

(* sort the top-level elements of a printed collection (unordered hash carriers) *)
let sort_top (s : string) : string =
  match String.index_opt s '(' with
  | None -> s
  | Some i when s.[String.length s - 1] = ')' ->
    let inner = String.sub s (i + 1) (String.length s - i - 2) in
    let parts = ref [] and depth = ref 0 and st = ref 0 in
    String.iteri (fun j ch ->
        if ch = '(' then incr depth else if ch = ')' then decr depth
        else if ch = ';' && !depth = 0 then (parts := String.sub inner !st (j - !st) :: !parts; st := j + 1)) inner;
    if String.length inner > 0 then parts := String.sub inner !st (String.length inner - !st) :: !parts;
    String.sub s 0 (i + 1) ^ String.concat ";" (List.sort compare !parts) ^ ")"
  | _ -> s

let starts_with s p = String.length s >= String.length p && String.sub s 0 (String.length p) = p
let contains s p =
  let n = String.length p in
  let rec go i = i + n <= String.length s && (String.sub s i n = p || go (i + 1)) in go 0

(* ---------------------------------------------------------------- typed carriers (Model/CqlTyped.v) *)

(* the Rust type name of a carrier (as printed by the runner) -> the model's carrier; None = not
   modelled (chrono, time, bigdecimal) *)
let split_args (s : string) : string list =
  let parts = ref [] and depth = ref 0 and st = ref 0 in
  String.iteri (fun j ch ->
      if ch = '<' || ch = '(' then incr depth else if ch = '>' || ch = ')' then decr depth
      else if ch = ',' && !depth = 0 then (parts := String.sub s !st (j - !st) :: !parts; st := j + 1)) s;
  parts := String.sub s !st (String.length s - !st) :: !parts;
  List.filter (fun x -> x <> "") (List.rev !parts)

let rec carrier_of_name (s : string) : carrier option =
  let n = String.length s in
  let all l = if List.for_all (fun x -> x <> None) l then Some (List.map (function Some x -> x | None -> assert false) l) else None in
  if n > 1 && s.[0] = '(' && s.[n - 1] = ')' then
    Option.map (fun ks -> KTuple ks) (all (List.map carrier_of_name (split_args (String.sub s 1 (n - 2)))))
  else match String.index_opt s '<' with
    | Some i when s.[n - 1] = '>' ->
      let head = String.sub s 0 i and args = split_args (String.sub s (i + 1) (n - i - 2)) in
      (match head, args with
       | "Vec", ["u8"] -> Some (KLeaf LBlob)
       | "Option", [a] -> Option.map (fun k -> KOption k) (carrier_of_name a)
       | "MaybeUnset", [a] -> Option.map (fun k -> KMaybeUnset k) (carrier_of_name a)
       | "MaybeEmpty", [a] -> Option.map (fun k -> KMaybeEmpty k) (carrier_of_name a)
       | ("Box" | "Arc" | "RefOf" | "secrecy_08::Secret" | "secrecy_10::SecretBox"), [a] ->
         Option.map (fun k -> KPtr k) (carrier_of_name a)
       | ("Vec" | "SliceOf" | "secrecy_10::SecretSlice"), [a] -> Option.map (fun k -> KVec k) (carrier_of_name a)
       | ("BTreeSet" | "HashSet"), [a] -> Option.map (fun k -> KSetC k) (carrier_of_name a)
       | ("BTreeMap" | "HashMap"), [a; b] ->
         (match carrier_of_name a, carrier_of_name b with Some x, Some y -> Some (KMapC (x, y)) | _ -> None)
       | _ -> None)
    | _ ->
      (match s with
       | "i8" -> Some (KLeaf LI8) | "i16" -> Some (KLeaf LI16) | "i32" -> Some (KLeaf LI32) | "i64" -> Some (KLeaf LI64)
       | "f32" -> Some (KLeaf LF32) | "f64" -> Some (KLeaf LF64) | "bool" -> Some (KLeaf LBool)
       | "String" | "RefStr" | "CowStr" | "BoxStr" | "ArcStr" | "secrecy_10::SecretString" -> Some (KLeaf LString)
       | "bytes::Bytes" | "RefSlice" | "Arr4" -> Some (KLeaf LBlob)
       | "IpAddr" -> Some (KLeaf LInet) | "uuid::Uuid" -> Some (KLeaf LUuid) | "CqlTimeuuid" -> Some (KLeaf LTimeuuid)
       | "CqlDate" -> Some (KLeaf LDate) | "CqlTime" -> Some (KLeaf LTime) | "CqlTimestamp" -> Some (KLeaf LTimestamp)
       | "CqlDuration" -> Some (KLeaf LDuration) | "Counter" -> Some (KLeaf LCounter)
       | "CqlVarint" | "VarintB" -> Some (KLeaf LVarint) | "CqlDecimal" | "DecimalB" -> Some (KLeaf LDecimal)
       | "num_bigint_03::BigInt" | "num_bigint_04::BigInt" -> Some (KLeaf LBigInt)
       | "CqlValue" -> Some KDyn
       | _ -> None)

(* BTree / Hash carriers return sets and maps sorted (or in hash order) and without duplicates
   (a later map entry replaces an earlier one): compare such results up to that canonical form.
   Works on the TEXT form (which may contain `null` elements that no cval can hold). *)
let split_top (sep : char) (s : string) : string list =
  let parts = ref [] and depth = ref 0 and st = ref 0 in
  String.iteri (fun j ch ->
      if ch = '(' then incr depth else if ch = ')' then decr depth
      else if ch = sep && !depth = 0 then (parts := String.sub s !st (j - !st) :: !parts; st := j + 1)) s;
  List.rev (String.sub s !st (String.length s - !st) :: !parts)
let rec canon_str (s : string) : string =
  let n = String.length s in
  match String.index_opt s '(' with
  | Some i when n > 0 && s.[n - 1] = ')' ->
    let name = String.sub s 0 i and inner = String.sub s (i + 1) (n - i - 2) in
    let items = if inner = "" then [] else split_top ';' inner in
    let dedup_sorted key l =
      let l = List.stable_sort (fun a b -> compare (key a) (key b)) l in
      let rec go = function
        | a :: (b :: _ as r) when key a = key b -> go r        (* keep the LAST of equal keys *)
        | a :: r -> a :: go r
        | [] -> [] in go l in
    let items =
      if name = "map" then
        let kvs = List.map (fun it -> match split_top '=' it with
            | [k; v] -> (canon_str k, canon_str v) | _ -> (it, "")) items in
        List.map (fun (k, v) -> k ^ "=" ^ v) (if name = "map" then dedup_sorted fst kvs else kvs)
      else if name = "udt" then items
      else
        let its = List.map canon_str items in
        if name = "set" then dedup_sorted (fun x -> x) its else its in
    name ^ "(" ^ String.concat ";" items ^ ")"
  | _ -> s
let canon_result (s : string) : string =
  match strip_ok s with Some body -> "ok:" ^ canon_str body | None -> s
let sorting_carrier (carrier : string) : bool = contains carrier "BTree" || contains carrier "Hash"

(* a carrier value in the text form of the case files, nulls inside collections included
   (mirrors Carrier::show of the runner) *)
let rec s_tval (k : carrier) (t : ctype) (v : tval) : string =
  let seq name k' e l = name ^ "(" ^ String.concat ";" (List.map (s_tval k' e) l) ^ ")" in
  match k, v, t with
  | KLeaf l, _, _ -> (match leaf_embed l t v with Some x -> s_val x | None -> "?")
  | KDyn, TDynV x, _ -> s_val x
  | KOption _, TNone, _ -> "null"
  | KMaybeEmpty _, TEmptyV, _ -> "empty"
  | (KOption k' | KMaybeEmpty k' | KPtr k'), TSome x, _ -> s_tval k' t x
  | (KVec k' | KSetC k'), TSeq l, TList e -> seq "list" k' e l
  | (KVec k' | KSetC k'), TSeq l, TSet e -> seq "set" k' e l
  | KVec k', TSeq l, TVector (e, _) -> seq "vector" k' e l
  | KMapC (ka, kb), TMapV l, TMap (tk, tv) ->
    "map(" ^ String.concat ";" (List.map (fun (a, b) -> s_tval ka tk a ^ "=" ^ s_tval kb tv b) l) ^ ")"
  | KTuple ks, TTup vs, TTuple ts ->
    let rec go ks ts vs = match ks, ts, vs with
      | k1 :: ks', t1 :: ts', v1 :: vs' -> s_tval k1 t1 v1 :: go ks' ts' vs'
      | _ -> [] in
    "tuple(" ^ String.concat ";" (go ks ts vs) ^ ")"
  | _ -> "?"

(* the carrier's own decoder (model) on one [bytes] item *)
let s_typed_read k t (b : n list) : string =
  match read_cql_bytes b with
  | None -> "err:RawCqlBytesRead"
  | Some (ob, _) ->
    (match typed_read k t ob with
     | Ok v -> "ok:" ^ s_tval k t v
     | Err e -> "err:" ^ de_err_name e)

(* the TYPED model against the typed implementation, for a T case; None = agrees / not comparable *)
let typed_compared = ref false
let typed_model_diff ~unordered carrier t c impl_ser impl_deser : string option =
  typed_compared := false;
  match carrier_of_name carrier with
  | None -> None
  | Some k ->
    (match of_cell k t c with
     | None -> None
     | Some v ->
       typed_compared := true;
       let mw = s_ser (typed_write k true t v) in
       if mw <> impl_ser then Some ("typed-model ser=" ^ mw)
       else match strip_ok impl_ser with
         | Some hx when typed_check k t ->
           let mr = s_typed_read k t (bytes_of_hexstr hx) in
           let norm x = if unordered || sorting_carrier carrier then canon_result x else x in
           if norm mr = norm impl_deser then None else Some ("typed-model deser=" ^ mr)
         | _ -> None)

(* ---------------------------------------------------------------- verdicts *)

(* The property evaluated on the IMPLEMENTATION's outputs for (t, c):
   wf -> the bytes are the wire encoding and they decode to pad t c.   None = holds. *)
type failure = Refused | NotEncoding | Decode
let property_failure t c (impl_ser : string) (impl_deser : string) : (failure * string) option =
  if not (wf_cell t c) then None
  else match strip_ok impl_ser with
    | None -> Some (Refused, "a value of the type was refused: " ^ impl_ser)
    | Some hx ->
      let b = bytes_of_hexstr hx in
      if not (conforms_ok t c b) then
        Some (NotEncoding, "bytes are not the wire encoding; spec=" ^
              (match enc_cell_spec t c with Some e -> hb e | None -> "none(no encoding exists)"))
      else
        let want = "ok:" ^ s_cell (pad_cell t c) in
        if impl_deser <> want then Some (Decode, "decodes to " ^ impl_deser ^ " instead of " ^ want)
        else None

let verdict_rt ?(carrier = "") ~(unordered : bool) t c impl_ser impl_deser =
  (* Hash carriers iterate in an arbitrary order: take the order the implementation used (read
     off its bytes with the model decoder), require the same multiset of elements, then go on
     as in the ordered case; decoded collections are compared as sorted element lists. *)
  let c, order_ok =
    if not unordered then c, true
    else match strip_ok impl_ser with
      | None -> c, true
      | Some hx ->
        (match deser_cell t (bytes_of_hexstr hx) with
         | Ok (c', []) ->
           let same = sort_top (s_cell c') = sort_top (s_cell (pad_cell t c)) in
           (if same then c' else c), same
         | _ -> c, false) in
  let m_ser = ser_cell t c in
  let m_ser_s = s_ser m_ser in
  let m_deser_s = match m_ser with
    | Ok b -> s_deser_cell (deser_cell t b)
    | Err _ -> "-" in
  let norm s = if unordered then sort_top s else s in
  let agrees = order_ok && m_ser_s = impl_ser && norm m_deser_s = norm impl_deser in
  (* The known-finding tag is attached ONLY when the implementation shows exactly the behaviour the
     model has for this input: impl = model on bytes and on the decoded value; for a vector hole
     the finding is the WRITER's (no encoding exists, yet bytes are produced), so for TYPED carriers
     equality of the bytes with the model's suffices (a typed decoder may read the malformed bytes
     differently from the dynamic one); on the dynamic path the decoder is modelled and must agree too.  Any other failure on an input that merely contains a
     known-class sub-value is a plain viol. *)
  let agrees_ser = order_ok && m_ser_s = impl_ser in
  let cls = match c with CVal v -> known_class_of t v | _ -> None in
  let impl_deser_n = if unordered && norm m_deser_s = norm impl_deser then m_deser_s else impl_deser in
  match property_failure t c impl_ser impl_deser_n with
  | None ->
    if not agrees then "diff model=" ^ m_ser_s ^ " " ^ m_deser_s
    else
      (* outside the quantifier: not a value of the type, accepted by the writer, not read back *)
      (match strip_ok impl_ser with
       | Some _ when not (wf_cell t c) && impl_deser_n <> "ok:" ^ s_cell (pad_cell t c) -> "ok obs=accepted-not-of-type-not-read-back"
       | _ ->
         (* the typed carrier's own model (Model/CqlTyped.v) against the typed implementation *)
         if carrier = "" then "ok"
         else match typed_model_diff ~unordered carrier t c impl_ser impl_deser with
           | None -> if !typed_compared then "ok tm" else "ok"
           | Some d -> "diff " ^ d)
  | Some (kind, why) ->
    (match cls with
     | Some k when agrees || (carrier <> "" && kind = NotEncoding && agrees_ser && k = KA_vector_null_element) ->
       "viol class=" ^ class_tag k ^ " " ^ why
     | _ -> "viol " ^ why ^ " ; model=" ^ m_ser_s ^ " " ^ m_deser_s)

let starts_with s p = String.length s >= String.length p && String.sub s 0 (String.length p) = p
let contains s p =
  let n = String.length p in
  let rec go i = i + n <= String.length s && (String.sub s i n = p || go (i + 1)) in go 0

let verdict case impl =
  match case, impl with
  | _, ("error" :: rest) -> "error harness " ^ String.concat " " rest      (* the runner could not run the case *)
  | ["R"; ts; cs], [iser; ideser] ->
    verdict_rt ~unordered:false (type_of_string ts) (cell_of_string cs) iser ideser
  | ["T"; carrier; ts; cs], [iser; ideser] ->
    let unordered = starts_with carrier "Hash" in
    (* only the top level of a printed collection is order-normalised *)
    if contains carrier "Hash" && not unordered then "error nested-hash-carrier-not-supported"
    else verdict_rt ~carrier ~unordered (type_of_string ts) (cell_of_string cs) iser ideser
  | ["E"; carrier; ts; hx], [ideser] ->
    (* a typed decoder on corrupted / arbitrary bytes against its model *)
    (match carrier_of_name carrier with
     | None -> "error unmodelled-carrier"
     | Some k ->
       let t = type_of_string ts in
       if not (typed_check k t) then (if ideser = "err:TypeCheck" then "ok" else "diff typed-model=err:TypeCheck")
       else
         let m = s_typed_read k t (bytes_of_hexstr hx) in
         let norm x = if sorting_carrier carrier then canon_result x else x in
         if norm m = norm ideser then "ok" else "diff typed-model=" ^ m)
  | [("V" | "Q") as kind; _carrier; ets; dims; cs], [iser; ideser] ->
    let e = type_of_string ets and cells = cells_of_string cs in
    let vals = List.filter_map (function CVal v -> Some v | _ -> None) cells in
    if kind = "V" && List.length vals = List.length cells && not (cells_hole cells) then
      (* no null / unset / Empty element: exactly the dynamic vector value (C01_vector_cells_vals), so the
         full property (conformance, decode = pad, totality) is evaluated as for an R case *)
      let ideser' = if starts_with ideser "ok:cells(" then "ok:vector(" ^ String.sub ideser 9 (String.length ideser - 9) else ideser in
      verdict_rt ~unordered:false (TVector (e, n_of_hex dims)) (CVal (CVector vals)) iser ideser'
    else begin
      let m = if kind = "V" then ser_vector_cells e (n_of_hex dims) cells else ser_sequence_cells e cells in
      let m_s = s_ser m in
      let m_de = match kind, m with
        | "Q", Ok (_ :: _ :: _ :: _ :: body) -> (match deser_listlike_cells e body with Ok l -> "ok:" ^ s_cells l | Err x -> "err:" ^ de_err_name x)
        | _ -> "?" in
      let agrees = m_s = iser && (kind = "V" || m_de = ideser || strip_ok iser = None) in
      (* the property on the implementation's output: the carrier is Vec<Option<T>> /
         Vec<MaybeUnset<T>>; element cells of the type must be accepted, written as the specified
         encoding (lists / sets) and decoded to the bound cells (unset reads back as null) *)
      let want = "ok:" ^ s_cells (List.map (fun c -> pad_cell e c) cells) in
      let all_ok = wf_type e && List.for_all (cell_okb e) cells in
      let failure =
        if not all_ok then None
        else match strip_ok iser with
          | None -> if kind = "Q" then Some ("cells of the element type were refused: " ^ iser) else None
          | Some hx ->
            if kind = "Q" && enc_seq_cells_spec e cells <> Some (bytes_of_hexstr hx) then
              Some ("bytes are not the wire encoding; spec=" ^ (match enc_seq_cells_spec e cells with Some b -> hb b | None -> "none"))
            else if ideser <> want then Some ("decodes to " ^ ideser ^ " instead of " ^ want)
            else None in
      match failure with
      | None -> if agrees then "ok" else "diff model=" ^ m_s ^ " " ^ m_de
      | Some why ->
        if agrees && kind = "V" && cells_hole cells then "viol class=vector-null-element " ^ why
        else "viol " ^ why ^ " ; model=" ^ m_s ^ " " ^ m_de
    end
  | ["D"; ts; hx], [ideser] ->
    let t = type_of_string ts in
    let m = s_deser_cell (deser_cell t (bytes_of_hexstr hx)) in
    if m = ideser then "ok" else "diff model=" ^ m
  | ["N"; "u"; v], [ienc; idec] ->
    let v = n_of_hex v in
    let m = uvint_encode v in
    let menc = hb m in
    let mdec = (match uvint_decode m with Some (x, []) -> "ok:" ^ hex_of_n x | _ -> "err") in
    if menc = ienc && mdec = idec then
      (if hb (spec_uvint v) = ienc && idec = "ok:" ^ hex_of_n v then "ok"
       else "viol spec=" ^ hb (spec_uvint v))
    else if hb (spec_uvint v) <> ienc || idec <> "ok:" ^ hex_of_n v then "viol spec=" ^ hb (spec_uvint v)
    else "diff model=" ^ menc ^ " " ^ mdec
  | ["N"; "s"; v], [ienc; idec] ->
    let v = z_of_hex v in
    let m = vint_encode v in
    let menc = hb m in
    let mdec = (match vint_decode m with Some (x, []) -> "ok:" ^ hex_of_z x | _ -> "err") in
    if menc = ienc && mdec = idec then
      (if hb (spec_vint v) = ienc && idec = "ok:" ^ hex_of_z v then "ok"
       else "viol spec=" ^ hb (spec_vint v))
    else if hb (spec_vint v) <> ienc || idec <> "ok:" ^ hex_of_z v then "viol spec=" ^ hb (spec_vint v)
    else "diff model=" ^ menc ^ " " ^ mdec
  | ["N"; "d"; hx], [idec] ->
    let b = bytes_of_hexstr hx in
    let m = (match uvint_decode b with
        | Some (x, r) -> Printf.sprintf "ok:%s:%x" (hex_of_n x) (List.length b - List.length r)
        | None -> "err") in
    if m = idec then "ok" else "diff model=" ^ m
  | _ -> "error unknown-case"

let () = run_lines verdict
