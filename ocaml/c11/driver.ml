(* C11 correspondence driver: evaluates the extracted Shard model on the harness' cases. *)
let opt_entry (s : string) : char list list option =
  if s = "N" then None
  else if s = "E" then Some []
  else Some (List.map chars_of_hexstr (split_on ',' (String.sub s 2 (String.length s - 2))))

let err_name = function
  | NoShardInfo -> "NoShardInfo"
  | MissingSomeShardInfoParameters -> "MissingSomeShardInfoParameters"
  | MissingShardInfoParameterValues -> "MissingShardInfoParameterValues"
  | ZeroShards -> "ZeroShards" | ShardIdOutOfRange -> "ShardIdOutOfRange"
  | ParseIntError -> "ParseIntError"

(* ---- E lines: the connect loop over the iterator, observed at the mock node ---- *)
let strip_prefix pre s =
  let k = String.length pre in
  if String.length s >= k && String.sub s 0 k = pre then String.sub s k (String.length s - k)
  else failwith ("expected " ^ pre ^ " in " ^ s)
let dotted s = List.map n_of_hex (String.split_on_char '.' s)
let stat st key =
  let rec go = function
    | [] -> failwith ("no stat " ^ key)
    | kv :: r -> (match String.split_on_char ':' kv with
        | [k; v] when k = key -> int_of_string v
        | _ -> go r) in
  go (String.split_on_char ',' st)

let verdict_e n nodes per lo hi planned sa pl pre rq st =
  let n = n_of_hex n and lo = n_of_hex lo and hi = n_of_hex hi in
  let nodes = int_of_n (n_of_hex nodes) and per = int_of_n (n_of_hex per) in
  let planned = nlist_of_string planned in
  let pre = nlist_of_string (strip_prefix "pre=" pre) in
  let sa = strip_prefix "sa=" sa and pl = strip_prefix "pl=" pl in
  let sa = if sa = "-" then [] else List.map (fun t -> match dotted t with
      | [nd; port; shard] -> (int_of_n nd, port, shard) | _ -> failwith "sa entry") (split_on ',' sa) in
  let pl = if pl = "-" then [] else List.map (fun t -> match dotted t with
      | [nd; shard] -> (int_of_n nd, shard) | _ -> failwith "pl entry") (split_on ',' pl) in
  if List.exists (fun p -> not (List.mem p planned)) pre then "error harness pre-bound port that was not planned"
  else if List.exists (fun (nd, _, _) -> nd >= nodes) sa then "error harness node index"
  else
  (* the property, evaluated on what the mock accepted (C11_connect_accept_iff) *)
  if not (accept_conns n lo hi pre (List.map (fun (_, port, shard) -> (port, shard)) sa)) then begin
    let (nd, port, shard) = List.find (fun (_, port, shard) -> not (accept_conn n lo hi pre port shard)) sa in
    Printf.sprintf "viol shard-aware-connection node=%d port=%s shard=%s range=%s..%s pre-bound=%s"
      nd (hex_of_n port) (hex_of_n shard) (hex_of_n lo) (hex_of_n hi) (string_of_nlist pre)
  end else
  (* correspondence with the model of the loop and with the pool's documented reaction *)
  let shards = List.init (int_of_n n) n_of_int in
  let pairs = List.concat_map (fun nd -> List.map (fun s -> (nd, s)) shards) (List.init nodes (fun i -> i)) in
  let starved = List.filter (fun (_, s) -> starvedb n s lo hi pre) pairs in
  let count_sa (nd, s) = List.length (List.filter (fun (nd', _, s') -> nd' = nd && s' = s) sa) in
  let count_pl (nd, s) = List.length (List.filter (fun (nd', s') -> nd' = nd && s' = s) pl) in
  let rq_ok, rq_sent = match dotted (strip_prefix "rq=" rq) with [a; b] -> (a, b) | _ -> failwith "rq" in
  let st = strip_prefix "st=" st in
  if rq_ok <> rq_sent then "diff requests-failed " ^ rq
  else if List.length starved <> stat st "starved" then
    Printf.sprintf "diff starved-shards model=%d runner=%d" (List.length starved) (stat st "starved")
  else match List.find_opt (fun pr -> count_sa pr > per) pairs with
    | Some (nd, s) ->
      (* the loop returns at the first successful connection: one connection per pool slot *)
      Printf.sprintf "diff more-shard-aware-connections-than-pool-slots node=%d shard=%s count=%d per=%d" nd (hex_of_n s) (count_sa (nd, s)) per
    | None ->
      match List.find_opt (fun pr -> count_pl pr < per) starved with
      | Some (nd, s) ->
        (* after NoSourcePortForShard the refiller retries through the plain port until the shard is served *)
        Printf.sprintf "diff starved-shard-not-served-through-plain-port node=%d shard=%s" nd (hex_of_n s)
      | None -> "ok"

let verdict case impl =
  match case, impl with
  (* a panic of the implementation inside the quantifier is a property failure, not a mismatch *)
  | (("S" | "I" | "D" | "P") :: _), ["panic"] -> "viol implementation-panicked"
  | ["S"; n; msb; t], [obs] ->
    let n = n_of_hex n and msb = n_of_hex msb and t = z_of_hex t in
    let m = shard_of n msb t in
    let obs = n_of_hex obs in
    if obs = m then "ok"
    else let sp = spec_shard_of n msb t in
      if obs <> sp || not (int_of_n obs < int_of_n n) then "viol spec=" ^ hex_of_n sp
      else "diff model=" ^ hex_of_n m
  | ["I"; n; s; lo; hi], [obs] ->
    let n = n_of_hex n and s = n_of_hex s and lo = n_of_hex lo and hi = n_of_hex hi in
    let obs = nlist_of_string obs in
    if accept_iter n s lo hi obs then "ok"   (* C11_accept_iter_sound: accepted => property *)
    else if not (prop_iter_ok n s lo hi obs) then "viol spec=" ^ string_of_nlist (spec_ports n s lo hi)
    else "diff model=" ^ string_of_nlist (ports_for_shard n s lo hi)
  | ["D"; n; s; lo; hi], [obs] ->
    let n = n_of_hex n and s = n_of_hex s and lo = n_of_hex lo and hi = n_of_hex hi in
    let obs = if obs = "none" then None else Some (n_of_hex obs) in
    if accept_draw n s lo hi obs then "ok"   (* C11_accept_draw_sound *)
    else if not (prop_draw_ok n s lo hi obs) then "viol spec=" ^ string_of_nlist (spec_ports n s lo hi)
    else "diff model=" ^ string_of_nlist (ports_for_shard n s lo hi)
  | ["P"; n; port], [obs] ->
    let m = shard_of_source_port (n_of_hex n) (n_of_hex port) in
    if n_of_hex obs <> m then "viol spec=" ^ hex_of_n m else "ok"
  | ["R"; a; b; c], obs ->
    let r = parse_shard_info (opt_entry a) (opt_entry b) (opt_entry c) in
    let ms = match r with
      | Ok ((s, n), m) -> Printf.sprintf "ok %s %s %s" (hex_of_n s) (hex_of_n n) (hex_of_n m)
      | Err e -> "err " ^ err_name e in
    let os = String.concat " " obs in
    if os = ms then "ok"
    else
      (* the property part: an accepted triple must have shard < nr_shards, nr_shards <> 0 *)
      (match obs with
       | ["ok"; s; n; _] when (int_of_n (n_of_hex n) = 0 || int_of_n (n_of_hex s) >= int_of_n (n_of_hex n)) ->
         "viol model=" ^ ms
       | _ -> "diff model=" ^ ms)
  | ("E" :: _), ("not-run" :: rest) -> "ok not-run " ^ String.concat " " rest
  | ["E"; _; n; nodes; per; lo; hi; planned], [sa; pl; pre; rq; st] ->
    verdict_e n nodes per lo hi planned sa pl pre rq st
  | _ -> "error unknown-case"

let () = run_lines verdict
