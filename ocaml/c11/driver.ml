(* C11 correspondence driver: evaluates the extracted Shard model on the harness' cases. *)
let opt_entry (s : string) : char list list option =
  if s = "N" then None
  else if s = "E" then Some []
  else Some (List.map chars_of_hexstr (split_on ',' (String.sub s 2 (String.length s - 2))))

let err_name = function
  | NoShardInfo -> "NoShardInfo"
  | MissingSomeShardInfoParameters -> "MissingSomeShardInfoParameters"
  | MissingShardInfoParameterValues -> "MissingShardInfoParameterValues"
  | ZeroShards -> "ZeroShards" | ShardIdOutOfRange -> "ShardIdOutOfRange"
  | ParseIntError -> "ParseIntError"

let verdict case impl =
  match case, impl with
  (* a panic of the implementation inside the quantifier is a property failure, not a mismatch *)
  | (("S" | "I" | "D" | "P") :: _), ["panic"] -> "viol implementation-panicked"
  | ["S"; n; msb; t], [obs] ->
    let n = n_of_hex n and msb = n_of_hex msb and t = z_of_hex t in
    let m = shard_of n msb t in
    let obs = n_of_hex obs in
    if obs = m then "ok"
    else let sp = spec_shard_of n msb t in
      if obs <> sp || not (int_of_n obs < int_of_n n) then "viol spec=" ^ hex_of_n sp
      else "diff model=" ^ hex_of_n m
  | ["I"; n; s; lo; hi], [obs] ->
    let n = n_of_hex n and s = n_of_hex s and lo = n_of_hex lo and hi = n_of_hex hi in
    let obs = nlist_of_string obs in
    if accept_iter n s lo hi obs then "ok"   (* C11_accept_iter_sound: accepted => property *)
    else if not (prop_iter_ok n s lo hi obs) then "viol spec=" ^ string_of_nlist (spec_ports n s lo hi)
    else "diff model=" ^ string_of_nlist (ports_for_shard n s lo hi)
  | ["D"; n; s; lo; hi], [obs] ->
    let n = n_of_hex n and s = n_of_hex s and lo = n_of_hex lo and hi = n_of_hex hi in
    let obs = if obs = "none" then None else Some (n_of_hex obs) in
    if accept_draw n s lo hi obs then "ok"   (* C11_accept_draw_sound *)
    else if not (prop_draw_ok n s lo hi obs) then "viol spec=" ^ string_of_nlist (spec_ports n s lo hi)
    else "diff model=" ^ string_of_nlist (ports_for_shard n s lo hi)
  | ["P"; n; port], [obs] ->
    let m = shard_of_source_port (n_of_hex n) (n_of_hex port) in
    if n_of_hex obs <> m then "viol spec=" ^ hex_of_n m else "ok"
  | ["R"; a; b; c], obs ->
    let r = parse_shard_info (opt_entry a) (opt_entry b) (opt_entry c) in
    let ms = match r with
      | Ok ((s, n), m) -> Printf.sprintf "ok %s %s %s" (hex_of_n s) (hex_of_n n) (hex_of_n m)
      | Err e -> "err " ^ err_name e in
    let os = String.concat " " obs in
    if os = ms then "ok"
    else
      (* the property part: an accepted triple must have shard < nr_shards, nr_shards <> 0 *)
      (match obs with
       | ["ok"; s; n; _] when (int_of_n (n_of_hex n) = 0 || int_of_n (n_of_hex s) >= int_of_n (n_of_hex n)) ->
         "viol model=" ^ ms
       | _ -> "diff model=" ^ ms)
  | _ -> "error unknown-case"

let () = run_lines verdict
