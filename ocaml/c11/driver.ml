(* C11 correspondence driver: evaluates the extracted Shard model on the harness' cases. *)
let opt_entry (s : string) : char list list option =
  if s = "N" then None
  else if s = "E" then Some []
  else Some (List.map chars_of_hexstr (split_on ',' (String.sub s 2 (String.length s - 2))))

let err_name = function
  | NoShardInfo -> "NoShardInfo"
  | MissingSomeShardInfoParameters -> "MissingSomeShardInfoParameters"
  | MissingShardInfoParameterValues -> "MissingShardInfoParameterValues"
  | ZeroShards -> "ZeroShards" | ShardIdOutOfRange -> "ShardIdOutOfRange"
  | ParseIntError -> "ParseIntError"

(* ---- E lines: the connect loop over the iterator, observed at the mock node ---- *)
let strip_prefix pre s =
  let k = String.length pre in
  if String.length s >= k && String.sub s 0 k = pre then String.sub s k (String.length s - k)
  else failwith ("expected " ^ pre ^ " in " ^ s)
let dotted s = List.map n_of_hex (String.split_on_char '.' s)
let stat st key =
  let rec go = function
    | [] -> failwith ("no stat " ^ key)
    | kv :: r -> (match String.split_on_char ':' kv with
        | [k; v] when k = key -> int_of_string v
        | _ -> go r) in
  go (String.split_on_char ',' st)


(* ---- size validation: a hand-written / replayed line must not make the driver build huge lists
   (nrange over a port range, List.init over nr_shards, 2^msb): every numeric field is bounded BEFORE
   it reaches the model; out of bounds = not a case of this check ---- *)
let is_hex s = s <> "" && String.length s <= 16 &&
               (let ok = ref true in String.iter (fun c -> match c with '0'..'9' | 'a'..'f' | 'A'..'F' -> () | _ -> ok := false) s; !ok)
(* unsigned hex field with value <= maxv (maxv < 2^31) *)
let small maxv s = is_hex s && String.length s <= 8 && int_of_string ("0x" ^ s) <= maxv
let small_list maxv maxlen s =
  s = "-" || (String.length s <= 9 * maxlen && (let l = String.split_on_char ',' s in List.length l <= maxlen && List.for_all (small maxv) l))
let signed_hex s = let b = if String.length s > 0 && s.[0] = '-' then String.sub s 1 (String.length s - 1) else s in is_hex b
let e_sizes_ok n nodes per lo hi planned sa pl pre busy =
  small 64 n && n <> "0" && small 16 nodes && small 16 per && small 65535 lo && small 65535 hi &&
  int_of_string ("0x" ^ hi) - int_of_string ("0x" ^ lo) < 4096 && small_list 0xffffffff 4096 planned &&
  List.for_all (fun s -> String.length s <= 64 * 1024) [sa; pl; pre; busy]

let verdict_e n nodes per lo hi planned sa pl pre busy rq st =
  if not (e_sizes_ok n nodes per lo hi planned sa pl pre busy) then "error unknown-case" else
  let n = n_of_hex n and lo = n_of_hex lo and hi = n_of_hex hi in
  let nodes = int_of_n (n_of_hex nodes) and per = int_of_n (n_of_hex per) in
  let planned = nlist_of_string planned in
  let pre = nlist_of_string (strip_prefix "pre=" pre) in
  let busy = nlist_of_string (strip_prefix "busy=" busy) in
  let sa = strip_prefix "sa=" sa and pl = strip_prefix "pl=" pl in
  let sa = if sa = "-" then [] else List.map (fun t -> match dotted t with
      | [nd; port; shard] -> (int_of_n nd, port, shard) | _ -> failwith "sa entry") (split_on ',' sa) in
  let pl = if pl = "-" then [] else List.map (fun t -> match dotted t with
      | [nd; shard] -> (int_of_n nd, shard) | _ -> failwith "pl entry") (split_on ',' pl) in
  if List.length sa > 4096 || List.length pl > 4096 then "error unknown-case" else
  (* more than 4 ports busy from outside (observed: 1-2, TIME_WAIT of an earlier scenario on a reused client
     address): the count interval would be too wide to say anything - the scenario is not judged (counted and capped) *)
  if List.length busy > 4 then "ok not-run outside-busy-ports" else
  if List.exists (fun p -> not (List.mem p planned)) pre then "error harness pre-bound port that was not planned"
  else if List.exists (fun p -> List.mem p pre) busy then "error harness busy port that is held"
  else if List.exists (fun (nd, _, _) -> nd >= nodes) sa || List.exists (fun (nd, _) -> nd >= nodes) pl then "error harness node index"
  else
  (* the PROPERTY on what the mock accepted: port in [lo,hi], congruent to the shard the node assigned
     (accept_conn with nothing held; C11_connect_accept_reflect) *)
  match List.find_opt (fun (_, port, shard) -> not (accept_conn n lo hi [] port shard)) sa with
  | Some (nd, port, shard) ->
    Printf.sprintf "viol shard-aware-connection node=%d port=%s shard=%s range=%s..%s nr_shards=%s"
      nd (hex_of_n port) (hex_of_n shard) (hex_of_n lo) (hex_of_n hi) (hex_of_n n)
  | None ->
  (* not a sentence of C11: a connection from a port the harness holds bound (harness / OS fault) *)
  match List.find_opt (fun (_, port, _) -> List.mem port pre) sa with
  | Some (nd, port, _) -> Printf.sprintf "diff harness-held-port node=%d port=%s pre-bound=%s" nd (hex_of_n port) (string_of_nlist pre)
  | None ->
  (* correspondence with the model of the loop (RUN here: open_many / some_pivot_gives are the extracted
     connect_loop over the extracted iterator) and with the pool's documented reaction *)
  let shards = List.init (int_of_n n) n_of_int in
  let node_ids = List.init nodes (fun i -> i) in
  let pairs = List.concat_map (fun nd -> List.map (fun s -> (nd, s)) shards) node_ids in
  let starved = List.filter (fun (_, s) -> starvedb n s lo hi pre) pairs in
  let count_sa (nd, s) = List.length (List.filter (fun (nd', _, s') -> nd' = nd && s' = s) sa) in
  let count_pl (nd, s) = List.length (List.filter (fun (nd', s') -> nd' = nd && s' = s) pl) in
  let rq_ok, rq_sent = match dotted (strip_prefix "rq=" rq) with [a; b] -> (a, b) | _ -> failwith "rq" in
  let st = strip_prefix "st=" st in
  if rq_ok <> rq_sent then "diff requests-failed " ^ rq
  else if List.length starved <> stat st "starved" then
    Printf.sprintf "diff starved-shards model=%d runner=%d" (List.length starved) (stat st "starved")
  else match List.find_opt (fun pr -> count_sa pr > per) pairs with
    | Some (nd, s) ->
      Printf.sprintf "diff more-shard-aware-connections-than-pool-slots node=%d shard=%s count=%d per=%d" nd (hex_of_n s) (count_sa (nd, s)) per
    | None ->
      match List.find_opt (fun pr -> count_pl pr < per) starved with
      | Some (nd, s) ->
        (* after NoSourcePortForShard the refiller retries through the plain port until the shard is served *)
        Printf.sprintf "diff starved-shard-not-served-through-plain-port node=%d shard=%s" nd (hex_of_n s)
      | None ->
        (* every accepted port is the loop's outcome for some pivot when exactly the held ports are busy *)
        let nports s = List.length (spec_ports n s lo hi) in
        match List.find_opt (fun (_, port, shard) -> not (some_pivot_gives n shard lo hi pre port (nat_of_int (max 1 (nports shard))))) sa with
        | Some (nd, port, shard) ->
          Printf.sprintf "diff model-loop-never-gives-this-port node=%d port=%s shard=%s" nd (hex_of_n port) (hex_of_n shard)
        | None ->
          (* how many shard-aware connections the model opens per shard.  Runs of the loop = pool slots the
             refiller fills through the shard-aware port in its first round: per_shard on every node, minus
             the node's first pool connection (plain port) on the shard it landed on (extracted runs_for_shard).  All nodes draw from the
             same local ports.  busy= ports are unavailable for an unknown part of the scenario: interval. *)
          let first nd = match List.find_opt (fun (nd', _) -> nd' = nd) pl with Some (_, s) -> Some s | None -> None in
          if List.exists (fun nd -> first nd = None) node_ids then "diff node-without-plain-pool-connection"
          else begin
            let firsts = List.map (fun nd -> match first nd with Some s -> s | None -> assert false) node_ids in
            let off = ref [] and pred = ref 0 and skp = ref 0 and pwr = ref 0 in
            List.iter (fun s ->
                (* extracted: runs_for_shard (C11_connect_runs), shard_count_bounds (C11_connect_count_bounds) *)
                let runs = int_of_nat (runs_for_shard (nat_of_int per) firsts s) in
                let (lo_n, hi_n) = shard_count_bounds n lo hi (nat_of_int per) firsts pre busy s in
                let lo_cnt = int_of_nat lo_n and hi_cnt = int_of_nat hi_n in
                let got = List.length (List.filter (fun (_, _, s') -> s' = s) sa) in
                pred := !pred + hi_cnt;
                (* the statistics behind the floors count only shards whose interval is a point (not widened by busy=) *)
                if lo_cnt = hi_cnt && List.exists (fun p -> List.mem p pre || List.mem p busy) (spec_ports n s lo hi) then skp := !skp + got;
                (* per mille: chance that the FIRST run for this shard draws a pivot on a held port although a free
                   one exists, i.e. that a loop giving up at the first busy port opens fewer connections than the model *)
                (let k = List.length (spec_ports n s lo hi) and f = List.length (free_ports n s lo hi pre) in
                 if lo_cnt = hi_cnt && runs > 0 && f > 0 && k > 0 then pwr := !pwr + 1000 * (k - f) / k);
                if got < lo_cnt || got > hi_cnt then
                  off := Printf.sprintf "shard=%s,got=%d,model=%d..%d" (hex_of_n s) got lo_cnt hi_cnt :: !off) shards;
            match !off with
            | [] -> Printf.sprintf "ok e2e cnt=exact pred=%d skp=%d pwr=%d" !pred !skp !pwr
            | l -> Printf.sprintf "ok e2e cnt=off pred=%d skp=%d pwr=%d %s" !pred !skp !pwr (String.concat ";" (List.rev l))
          end

let verdict case impl =
  match case, impl with
  (* a panic of the implementation inside the quantifier is a property failure, not a mismatch *)
  | (("S" | "I" | "D" | "P") :: _), ["panic"] -> "viol implementation-panicked"
  (* ShardAwarePortRange::new refused an allowed range (1024 <= lo <= hi, guaranteed by the runner's case
     filter): nothing is produced.  Property: "nothing is produced only when no such port exists". *)
  | [("I" | "D"); n; s; lo; hi], ["rejected"] when small 65535 n && n <> "0" && small 0xffffffff s && small 65535 lo && small 65535 hi ->
    let n = n_of_hex n and s = n_of_hex s and lo = n_of_hex lo and hi = n_of_hex hi in
    (match spec_ports n s lo hi with
     | [] -> "diff allowed-range-rejected model=" ^ string_of_nlist (ports_for_shard n s lo hi)
     | l -> "viol allowed-range-rejected spec=" ^ string_of_nlist l)
  (* ShardAwarePortRange::new on lo..=hi (kind N).  Model: extracted port_range_new (C11_range_new_iff: accepts iff
     1024 <= lo <= hi, range unchanged).  The documented contract IS the property here: an implementation that refuses
     a range with 1024 <= lo <= hi (nothing can be produced from it although ports exist: every non-empty range has a
     port for some shard, C11_range_new_produces) or accepts an empty / reserved one is a viol; the contract is
     evaluated in OCaml on the hex fields, separately from the model. *)
  | ["N"; lo; hi], [obs] when not (small 65535 lo && small 65535 hi && (obs = "ok" || obs = "rejected" || obs = "panic")) -> "error unknown-case"
  | ["N"; lo; hi], [obs] ->
    let m = port_range_new (n_of_hex lo) (n_of_hex hi) in
    let ms = match m with Some (a, b) -> "ok(" ^ hex_of_n a ^ ".." ^ hex_of_n b ^ ")" | None -> "rejected" in
    let lo_i = int_of_string ("0x" ^ lo) and hi_i = int_of_string ("0x" ^ hi) in
    let allowed = 1024 <= lo_i && lo_i <= hi_i in
    if obs = "panic" then "viol implementation-panicked model=" ^ ms
    else if (obs = "ok") = (m <> None) then "ok"
    else if (obs = "ok") <> allowed then
      (if allowed then "viol allowed-range-rejected model=" ^ ms else "viol " ^ (if hi_i < lo_i then "empty" else "reserved") ^ "-range-accepted model=" ^ ms)
    else "diff model=" ^ ms
  | ["S"; n; msb; t], [obs] when not (small 65535 n && n <> "0" && small 255 msb && signed_hex t && small 0xffffffff obs) -> "error unknown-case"
  | ["I"; n; s; lo; hi], [obs] when not (small 65535 n && n <> "0" && small 0xffffffff s && small 65535 lo && small 65535 hi && small_list 0xffffffff 70000 obs) -> "error unknown-case"
  | ["D"; n; s; lo; hi], [obs] when not (small 65535 n && n <> "0" && small 0xffffffff s && small 65535 lo && small 65535 hi && (obs = "none" || small 0xffffffff obs)) -> "error unknown-case"
  | ["P"; n; port], [obs] when not (small 65535 n && n <> "0" && small 65535 port && small 0xffffffff obs) -> "error unknown-case"
  | ["S"; n; msb; t], [obs] ->
    let n = n_of_hex n and msb = n_of_hex msb and t = z_of_hex t in
    let m = shard_of n msb t in
    let obs = n_of_hex obs in
    if obs = m then "ok"
    else let sp = spec_shard_of n msb t in
      if obs <> sp || not (int_of_n obs < int_of_n n) then "viol spec=" ^ hex_of_n sp
      else "diff model=" ^ hex_of_n m
  | ["I"; n; s; lo; hi], [obs] ->
    let n = n_of_hex n and s = n_of_hex s and lo = n_of_hex lo and hi = n_of_hex hi in
    let obs = nlist_of_string obs in
    if accept_iter n s lo hi obs then "ok"   (* C11_accept_iter_sound: accepted => property *)
    else if not (prop_iter_ok n s lo hi obs) then "viol spec=" ^ string_of_nlist (spec_ports n s lo hi)
    else "diff model=" ^ string_of_nlist (ports_for_shard n s lo hi)
  | ["D"; n; s; lo; hi], [obs] ->
    let n = n_of_hex n and s = n_of_hex s and lo = n_of_hex lo and hi = n_of_hex hi in
    let obs = if obs = "none" then None else Some (n_of_hex obs) in
    if accept_draw n s lo hi obs then "ok"   (* C11_accept_draw_sound *)
    else if not (prop_draw_ok n s lo hi obs) then "viol spec=" ^ string_of_nlist (spec_ports n s lo hi)
    else "diff model=" ^ string_of_nlist (ports_for_shard n s lo hi)
  | ["P"; n; port], [obs] ->
    let m = shard_of_source_port (n_of_hex n) (n_of_hex port) in
    if n_of_hex obs <> m then "viol spec=" ^ hex_of_n m else "ok"
  | ["R"; a; b; c], obs ->
    let r = parse_shard_info (opt_entry a) (opt_entry b) (opt_entry c) in
    let ms = match r with
      | Ok ((s, n), m) -> Printf.sprintf "ok %s %s %s" (hex_of_n s) (hex_of_n n) (hex_of_n m)
      | Err e -> "err " ^ err_name e in
    let os = String.concat " " obs in
    if os = ms then "ok"
    else
      (* the property part: an accepted triple must have shard < nr_shards, nr_shards <> 0 *)
      (match obs with
       | ["ok"; s; n; _] when (int_of_n (n_of_hex n) = 0 || int_of_n (n_of_hex s) >= int_of_n (n_of_hex n)) ->
         "viol model=" ^ ms
       | _ -> "diff model=" ^ ms)
  | ("E" :: _), ("not-run" :: rest) -> "ok not-run " ^ String.concat " " rest
  | ["E"; _; n; nodes; per; lo; hi; planned], [sa; pl; pre; busy; rq; st] ->
    verdict_e n nodes per lo hi planned sa pl pre busy rq st
  | _ -> "error unknown-case"

let () = run_lines verdict
