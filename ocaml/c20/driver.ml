(* C20 correspondence driver: evaluates the extracted Keyspace model on the harness' cases.

   N <name> <cs>            | ok <name> <cs>  |  err empty | err toolong <len> | err illegal <cp>
   V <name> <cs> <reply>    | ok | mismatch | dberror | unexpected | badname
   A <outcomes>             | ok | b<tag> | t<tag> | m<tag> | n | panic | unknown
   E <seed> <q|t>           | <k0> <events> <calls> <texts> <stats>   (end-to-end scenario: the trace is
                                judged by the acceptor / prop_violb, the USE texts by use_statement)

   names are comma separated hexadecimal code points ("-" = empty string). *)

let name_of s = nlist_of_string s
let str_of_name l = string_of_nlist l
let bool_of s = s = "1"

let name_result s cs =
  match make_verified (name_of s) (bool_of cs) with
  | Ok (nm, c) -> Printf.sprintf "ok %s %s" (str_of_name nm) (if c then "1" else "0")
  | Err NEmpty -> "err empty"
  | Err (NTooLong l) -> "err toolong " ^ hex_of_n l
  | Err (NIllegal c) -> "err illegal " ^ hex_of_n c

let reply_of s =
  if s = "E" then RError
  else if s = "V" || s = "R" then ROther
  else RSetKeyspace (name_of (String.sub s 2 (String.length s - 2)))

let outcome_of s =
  match s.[0] with
  | 'o' -> COk
  | 'b' -> CBroken (n_of_hex (String.sub s 1 (String.length s - 1)))
  | 't' -> CErr (n_of_int (0x10000 + int_of_string ("0x" ^ String.sub s 1 (String.length s - 1))))
  | 'm' -> CErr (n_of_int (0x20000 + int_of_string ("0x" ^ String.sub s 1 (String.length s - 1))))
  | 'n' -> CErr (n_of_int 0x30000)
  | _ -> failwith "bad outcome"

let string_of_ares = function
  | AOk -> "ok"
  | ABroken t -> "b" ^ hex_of_n t
  | AErr t ->
    let v = int_of_n t in
    (match v lsr 16 with
     | 1 -> Printf.sprintf "t%x" (v land 0xffff)
     | 2 -> Printf.sprintf "m%x" (v land 0xffff)
     | _ -> "n")
  | APanic -> "panic"

(* ---- traces: events separated by ';'
   C:<u>:<name>:<cs>   call     R:<u>:<0|1>   return    S:<q>   request start
   F:<q>:<acked|none>  frame of request q arrived on a connection with that acked keyspace *)
let nat_of_hex s = nat_of_int (int_of_string ("0x" ^ s))
let oname_of s = if s = "none" then None else Some (name_of s)
let ev_of s =
  match String.split_on_char ':' s with
  | ["C"; u; nm; cs] -> ECall (nat_of_hex u, (name_of nm, bool_of cs))
  | ["R"; u; ok] | ["R"; u; ok; _] -> ERet (nat_of_hex u, bool_of ok)
  | ["S"; q] -> EStart (nat_of_hex q)
  | ["F"; q; a] | ["F"; q; a; _] -> EFrame (nat_of_hex q, oname_of a)
  | _ -> failwith ("bad event " ^ s)

let verdict case impl =
  match case, impl with
  | ["N"; s; cs], obs ->
    let os = String.concat " " obs in
    let ms = name_result s cs in
    if os = ms then "ok"
    else
      (* the property: accepted <-> 1..48 characters of [A-Za-z0-9_], and an accepted name is
         stored unchanged *)
      let valid = valid_nameb (name_of s) in
      let impl_ok = (match obs with "ok" :: _ -> true | _ -> false) in
      if impl_ok <> valid then "viol spec_valid=" ^ string_of_bool valid ^ " model=" ^ ms
      else if impl_ok then "viol stored-name-differs model=" ^ ms
      else "diff model=" ^ ms
  | ["V"; s; cs; rep], [obs] ->
    let ms =
      (match make_verified (name_of s) (bool_of cs) with
       | Err _ -> "badname"
       | Ok k ->
         (match verify_result k (reply_of rep) with
          | VOk -> "ok" | VMismatch -> "mismatch" | VDbError -> "dberror" | VUnexpected -> "unexpected")) in
    if obs = ms then "ok"
    else
      (* the property: success only for SetKeyspace with the requested name up to ASCII case *)
      let spec_ok =
        (match reply_of rep with
         | RSetKeyspace n -> valid_nameb (name_of s) && eq_ci n (name_of s)
         | _ -> false) in
      if (obs = "ok") <> spec_ok then "viol spec_ok=" ^ string_of_bool spec_ok ^ " model=" ^ ms
      else "diff model=" ^ ms
  | ["A"; l], [obs] ->
    let outs = if l = "-" then [] else List.map outcome_of (split_on ',' l) in
    let ms = string_of_ares (use_keyspace_result outs) in
    if obs = ms then "ok"
    else
      let spec_ok = List.exists is_ok outs && not (List.exists is_err outs) in
      if (obs = "ok") <> spec_ok then "viol spec_ok=" ^ string_of_bool spec_ok ^ " model=" ^ ms
      else "diff model=" ^ ms
  | ("E" :: _), [k0; evs; calls; texts; _stats] ->
    (* 1. the trace.  `ok` only through the acceptor (C20_accept_sound: accepted => property;
          C20_viol_rejected: a trace on which the property fails is never accepted).  On a rejection the
          property predicate itself decides: prop_violb (C20_viol_sound: = the declarative property
          decl_viol; C20_viol_complete) => `viol`, otherwise the acceptor was merely
          stricter than the property (request before any call, after a failed or overlapped call, ...)
          => `diff`. *)
    let evl = if evs = "-" then [] else split_on ';' evs in
    let tr = List.map ev_of evl in
    let k0 = oname_of k0 in
    if not (accept_trace k0 tr) then begin
      let where = (match first_reject (acc_init k0) tr O with
          | Some i -> Printf.sprintf "event=%d %s" (int_of_nat i) (List.nth evl (int_of_nat i))
          | None -> "trace") in
      if prop_violb tr then "viol request-after-successful-use-in-other-keyspace " ^ where
      else "diff acceptor-rejected " ^ where
    end else
      (* 2. every USE statement text the mock received is the model's text of a VALID name that was
            handed to use_keyspace: extracted [texts_verdict] (Model/Keyspace.v section 8).  TViol
            (C20_text_viol_iff) = the text is no requested name's model text AND carries a character other
            than alphabet / blank / double quote / semicolon or an identifier that is not a requested valid
            name; a mere reformatting is TDiff; the model's own texts are TOk (C20_statement_never_viol). *)
      let callk = if calls = "-" then [] else
          List.filter_map (fun c ->
              match String.split_on_char ':' c with
              | [nm; cs] -> (match make_verified (name_of nm) (bool_of cs) with Ok k -> Some k | Err _ -> None)
              | _ -> failwith "bad call") (split_on ';' calls) in
      let seen = if texts = "-" then [] else List.map name_of (split_on ';' texts) in
      (match texts_verdict callk seen with
       | (TOk, _) -> "ok"
       | (TDiff, t) -> "diff statement-text-reformatted " ^ str_of_name t
       | (TViol, t) -> "viol statement-text " ^ str_of_name t)
  (* use_keyspace returned Ok for a name the runner considers invalid: a violation of the second
     sentence iff the specification says the name is invalid *)
  | ("E" :: _), ["invalid-accepted"; nm] ->
    if valid_nameb (name_of nm) then "diff runner-rejects-a-valid-name " ^ nm
    else "viol invalid-name-accepted " ^ nm
  (* nothing was observed (environment / harness cap): counted and capped by checks/c20.py *)
  | ("E" :: _), ("not-run" :: rest) -> "ok not-run " ^ String.concat " " rest
  | ("E" :: _), ("error" :: rest) -> "error " ^ String.concat " " rest
  | _ -> "error unknown-case"

let () = run_lines verdict
