(* C05 correspondence driver: evaluates the extracted acceptors of Model/Plan.v on the REAL
   plans recorded by harness/src/bin/c05.rs.
   Case:  P <nodes> <ring> <keyspaces> <flags> <policy> <request>
   Impl:  <pick> <fallback> <plan> <plan> <plan>
   Case:  L <nodes> <ring> <keyspaces> <flags at pick()> <flags at fallback()> <policy> <request>
   Impl:  <plan> | nopick (replay only: pick() yields nothing under the first flags) | panic *)

let opt_n s = if s = "_" then None else Some (n_of_hex s)

let parse_strat (s : string) : strategy =
  match s.[0] with
  | 'S' -> Simple (nat_of_int (int_of_string ("0x" ^ String.sub s 1 (String.length s - 1))))
  | 'N' ->
    let body = String.sub s 1 (String.length s - 1) in
    NTS (List.filter_map (fun e ->
        if e = "" then None else
          match String.split_on_char '=' e with
          | [d; rf] -> Some (n_of_hex d, nat_of_int (int_of_string ("0x" ^ rf)))
          | _ -> failwith "bad nts entry") (String.split_on_char '+' body))
  | 'L' -> LocalS
  | _ -> OtherS

let parse_pref (s : string) : pref option =
  match s.[0] with
  | 'i' -> None
  | 'a' -> Some PAny
  | 'd' -> Some (PDc (n_of_hex (String.sub s 1 (String.length s - 1))))
  | 'r' ->
    let b = String.sub s 1 (String.length s - 1) in
    (match String.split_on_char '.' b with
     | [d; r] -> Some (PDcRack (n_of_hex d, n_of_hex r))
     | _ -> failwith "bad pref")
  | _ -> failwith "bad pref"

let cache_key = ref ""
let cache : ((n * n option * n option) list * (n -> n option) * (n -> n option) * n ring * (n * strategy) list * (n -> (n * n) option)) option ref = ref None

let topo nodes_s ring_s ks_s =
  let key = nodes_s ^ " " ^ ring_s ^ " " ^ ks_s in
  (match !cache with
   | Some _ when !cache_key = key -> ()
   | _ ->
     let parse_sharder x = if x = "_" then None else
         (match String.split_on_char '-' x with
          | [nr; msb] -> Some (n_of_hex nr, n_of_hex msb)
          | _ -> failwith "bad sharder") in
     let nodes4 = List.map (fun e -> match String.split_on_char '.' e with
         | [i; d; r] -> (n_of_hex i, opt_n d, opt_n r, None)
         | [i; d; r; sh] -> (n_of_hex i, opt_n d, opt_n r, parse_sharder sh)
         | _ -> failwith "bad node") (split_on ',' nodes_s) in
     let nodes = List.map (fun (i, d, r, _) -> (i, d, r)) nodes4 in
     let shl = List.map (fun (i, _, _, sh) -> (i, sh)) nodes4 in
     let dcl = List.map (fun (i, d, _) -> (i, d)) nodes and rkl = List.map (fun (i, _, r) -> (i, r)) nodes in
     let entries = if ring_s = "-" then [] else List.map (fun e ->
         let k = String.rindex e '.' in
         (z_of_hex (String.sub e 0 k), n_of_hex (String.sub e (k + 1) (String.length e - k - 1))))
         (split_on ',' ring_s) in
     let raw = List.concat_map (fun (i, _, _) -> List.filter (fun (_, j) -> j = i) entries) nodes in
     let g = sort_ring raw in
     let kss = if ks_s = "-" then [] else
         List.mapi (fun i s -> (n_of_int i, parse_strat s)) (String.split_on_char ';' ks_s) in
     cache := Some (nodes, assoc_opt dcl, assoc_opt rkl, g, kss, assoc_pair shl); cache_key := key);
  match !cache with Some c -> c | None -> assert false

(* "id:shard" -> (id, shard option) *)
let parse_tgt s = match String.split_on_char ':' s with
  | [i; sh] -> (n_of_hex i, opt_n sh)
  | _ -> failwith "bad target"
let parse_tgts s = if s = "-" then [] else List.map parse_tgt (split_on ',' s)

let verdict case impl =
  match case with
  | ["L"; nodes_s; ring_s; ks_s; flags1_s; flags2_s; pol_s; req_s] ->
    let (nodes, dcf, rackf, g, kss, _sharderf) = topo nodes_s ring_s ks_s in
    let mk fs = let fl = List.mapi (fun i (id, _, _) -> (id, fs.[i])) nodes in
      let flag n = try List.assoc n fl with Not_found -> 'd' in
      ((fun n -> flag n <> 'd'), (fun n -> flag n = 'c')) in
    let (en1, co1) = mk flags1_s and (en2, co2) = mk flags2_s in
    let pol = match String.split_on_char '/' pol_s with
      | [p; ta; fo; _sh] -> { pol_pref = parse_pref p; pol_token_aware = (ta = "1"); pol_failover = (fo = "1") }
      | _ -> failwith "bad policy" in
    let rq = match String.split_on_char '/' req_s with
      | [tok; ks; lwt; p] ->
        { rq_token = (if tok = "_" then None else Some (z_of_hex tok));
          rq_ks = (match ks with "_" -> None | "u" -> Some (n_of_int 999) | i -> Some (n_of_hex i));
          rq_lwt = (lwt <> "0");
          rq_pref = (match parse_pref p with Some x -> x | None -> PAny) }
      | _ -> failwith "bad request" in
    (match impl with
     | ["panic"] -> "viol panic"
     | ["nopick"] ->
       (* the runner skips such cases when generating; in a replayed case the absence of a first
          target is itself judged by the extracted pick acceptor (C05_pick_accepted) *)
       if pick_matches dcf rackf g kss en1 co1 pol rq None
       then "ok not-applicable: pick() yields no target under the first liveness (replayed case)"
       else "diff two-reads pick() yields nothing although a target is acceptable under the first liveness"
     | [pl] ->
       (match List.map fst (parse_tgts pl) with
        | [] -> "diff two-reads empty plan although pick() yields a target"
        | h :: rest ->
          let pk1 = pick_matches dcf rackf g kss en1 co1 pol rq (Some h) in
          let g1 = int_of_nat (group_of dcf rackf g kss en1 co1 pol rq h)
          and g2 = int_of_nat (group_of dcf rackf g kss en2 co2 pol rq h) in
          (* the extracted acceptor: C05_two_reads_accept_sound (what ok means),
             C05_two_reads_accepted (the model is accepted for every oracle) *)
          let structure = two_reads_matches dcf rackf g kss en1 co1 en2 co2 pol rq (h :: rest) in
          if structure then "ok"
          else begin
            (* what must survive a liveness change: enabled when chosen, permitted, the rest duplicate-free,
               and the picked target itself not repeated when nothing changed for that node: the extracted
               two_reads_safe_b (C05_two_reads_safe_b_sound; C05_two_reads_accept_safe: nothing accepted
               above fails it; C05_two_reads_model_safe: the model passes it) *)
            let safe = two_reads_safe_b dcf rackf g kss en1 co1 en2 co2 pol rq (h :: rest) in
            (if safe then "diff" else "viol") ^ Printf.sprintf " two-reads pick=%b g1=%d g2=%d plan=%s" pk1 g1 g2 (string_of_nlist (h :: rest))
          end)
     | _ -> "error bad-impl-output")
  | ["P"; nodes_s; ring_s; ks_s; flags_s; pol_s; req_s] ->
    let (nodes, dcf, rackf, g, kss, sharderf) = topo nodes_s ring_s ks_s in
    let fl = List.mapi (fun i (id, _, _) -> (id, flags_s.[i])) nodes in
    let flag n = try List.assoc n fl with Not_found -> 'd' in
    let enabled n = flag n <> 'd' and connected n = flag n = 'c' in
    let pol = match String.split_on_char '/' pol_s with
      | [p; ta; fo; _sh] -> { pol_pref = parse_pref p; pol_token_aware = (ta = "1"); pol_failover = (fo = "1") }
      | _ -> failwith "bad policy" in
    let rq = match String.split_on_char '/' req_s with
      | [tok; ks; lwt; p] ->
        { rq_token = (if tok = "_" then None else Some (z_of_hex tok));
          rq_ks = (match ks with "_" -> None | "u" -> Some (n_of_int 999) | i -> Some (n_of_hex i));
          rq_lwt = (lwt <> "0");
          rq_pref = (match parse_pref p with Some x -> x | None -> PAny) }
      | _ -> failwith "bad request" in
    let grp =
      let an = all_nodes g and ln = local_nodes dcf g pol rq
      and rl = rep_local dcf rackf g kss pol rq and ra = rep_any dcf rackf g kss pol rq in
      fun n -> int_of_nat (group_with rackf enabled connected pol rq an ln rl ra n) in
    let pm p = plan_matches dcf rackf g kss enabled connected pol rq p in
    let pk o = pick_matches dcf rackf g kss enabled connected pol rq o in
    (match impl with
     | [pick; fb; p1; p2; p3] ->
       let pick = if pick = "_" then None else Some (parse_tgt pick) in
       let fb = parse_tgts fb in
       let plans = List.map parse_tgts [p1; p2; p3] in
       let nodes_of l = List.map fst l in
       let head_ok l = pk (match l with [] -> None | (n, _) :: _ -> Some n) in
       let plans_ok = List.for_all (fun p -> pm (nodes_of p)) plans in
       let fb_ok = pm (nodes_of fb) in
       let pick_ok = pk (match pick with None -> None | Some (n, _) -> Some n) in
       let heads_ok = List.for_all head_ok plans && (fb = [] || head_ok fb) in
       (* shard annotations: replicas carry the token's shard on that node (with_computed_shard,
          0 without a sharder), other nodes none in pick()/fallback() and a random shard below the
          node's shard count in a Plan *)
       let shf n = match rq.rq_token with Some t -> computed_shard sharderf t n | None -> N0 in
       let below n s = match sharderf n with Some (nr, _) -> int_of_n s < int_of_n nr | None -> s = N0 in
       let ann_ok =
         List.for_all (fun (n, s) -> match s with Some s -> s = shf n && grp n < 3 | None -> grp n >= 3) fb
         && (match pick with Some (n, Some s) -> s = shf n && grp n < 3 | Some (n, None) -> grp n >= 3 | None -> true)
         && List.for_all (List.for_all (fun (n, s) -> match s with
             | Some s -> if grp n < 3 then s = shf n else below n s
             | None -> false)) plans in
       (* the property is about PLANS: only a rejected plan, or a plan whose first target is not an
          acceptable pick, is a violation; pick() / fallback() observed on their own that the
          acceptors refuse (e.g. pick() returning None more often) are a broken correspondence *)
       let plan_heads_ok = List.for_all head_ok plans in
       if plans_ok && plan_heads_ok && fb_ok && pick_ok && heads_ok && ann_ok then "ok"
       else begin
         let why p =
           let ns = nodes_of p in
           let perm n = permitted dcf g pol rq n in
           String.concat "," (List.filter (fun x -> x <> "") [
               (if nodupb ns then "" else "dup");
               (if List.for_all enabled ns then "" else "filter");
               (if List.for_all perm ns then "" else "locality");
               (if pm ns then "" else "match") ]) in
         let detail = Printf.sprintf "plans=%s fallback=%s pick=%b heads=%b ann=%b groups=%s lwtseq=%s min=%d"
             (String.concat "/" (List.map why plans)) (why fb) pick_ok heads_ok ann_ok
             (String.concat "," (List.map (fun (n, _) -> hex_of_n n ^ ":" ^ string_of_int (grp n)) (match plans with p :: _ -> p | [] -> [])))
             (string_of_nlist (lwt_sequence dcf rackf g kss enabled connected pol rq))
             (int_of_nat (min_group dcf rackf g kss enabled connected pol rq)) in
         if plans_ok && plan_heads_ok then "diff " ^ (if fb_ok && pick_ok && heads_ok then "annotations " else "pick-or-fallback ") ^ detail
         else "viol " ^ detail
       end
     | ["panic"] -> "viol panic"
     | _ -> "error bad-impl-output")
  | _ -> "error unknown-case"

let () = run_lines verdict
