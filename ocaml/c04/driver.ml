(* C04 correspondence driver: evaluates the extracted Ring/Replicas/TabletSets model on the
   harness' cases (formats: harness/src/bin/c04.rs).
   Q <nodes> <ring> <pre> <strategy> <dc> <token> | 14 observed fields
   T <nodes> <ring> <tablets> <dc> <token>        | 6 observed fields *)

let opt_n s = if s = "_" then None else Some (n_of_hex s)

let parse_strat (s : string) : strategy =
  match s.[0] with
  | 'S' -> Simple (nat_of_int (int_of_string ("0x" ^ String.sub s 1 (String.length s - 1))))
  | 'N' ->
    let body = String.sub s 1 (String.length s - 1) in
    NTS (List.filter_map (fun e ->
        if e = "" then None else
          match String.split_on_char '=' e with
          | [d; rf] -> Some (n_of_hex d, nat_of_int (int_of_string ("0x" ^ rf)))
          | _ -> failwith "bad nts entry") (String.split_on_char '+' body))
  | 'L' -> LocalS
  | _ -> OtherS

let ids_of s = nlist_of_string s
let str_ids l = string_of_nlist l
let str_opt = function None -> "_" | Some x -> hex_of_n x

(* per-topology cache: consecutive lines share nodes/ring/pre *)
let cache_key = ref ""
let cache : ((n -> n option) * (n -> n option) * n ring * strategy list * (n -> (n * n) option)) option ref = ref None

let topo nodes_s ring_s pre_s =
  let key = nodes_s ^ " " ^ ring_s ^ " " ^ pre_s in
  (match !cache with
   | Some _ when !cache_key = key -> ()
   | _ ->
     let parse_sharder x = if x = "_" then None else
         (match String.split_on_char '-' x with
          | [nr; msb] -> Some (n_of_hex nr, n_of_hex msb)
          | _ -> failwith "bad sharder") in
     let nodes4 = List.map (fun e -> match String.split_on_char '.' e with
         | [i; d; r] -> (n_of_hex i, opt_n d, opt_n r, None)
         | [i; d; r; sh] -> (n_of_hex i, opt_n d, opt_n r, parse_sharder sh)
         | _ -> failwith "bad node") (split_on ',' nodes_s) in
     let nodes = List.map (fun (i, d, r, _) -> (i, d, r)) nodes4 in
     let shl = List.map (fun (i, _, _, sh) -> (i, sh)) nodes4 in
     let dcl = List.map (fun (i, d, _) -> (i, d)) nodes and rkl = List.map (fun (i, _, r) -> (i, r)) nodes in
     let entries = if ring_s = "-" then [] else List.map (fun e ->
         let k = String.rindex e '.' in
         (z_of_hex (String.sub e 0 k), n_of_hex (String.sub e (k + 1) (String.length e - k - 1))))
         (split_on ',' ring_s) in
     (* the hook lays the ring out peer by peer (calculate_new_topology) *)
     let raw = List.concat_map (fun (i, _, _) -> List.filter (fun (_, j) -> j = i) entries) nodes in
     let g = sort_ring raw in
     let pre = if pre_s = "-" then [] else List.map parse_strat (String.split_on_char ';' pre_s) in
     cache := Some (assoc_opt dcl, assoc_opt rkl, g, pre, assoc_pair shl); cache_key := key);
  match !cache with Some c -> c | None -> assert false

let verdict case impl =
  match case with
  | ["T"; nodes_s; ring_s; tabs_s; dc_s; tok_s] ->
    (* tablet-backed set: C15's tablet map model + Model/TabletSets.v views *)
    let nodes = List.map (fun e -> match String.split_on_char '.' e with
        | i :: d :: _ -> (n_of_hex i, opt_n d)
        | _ -> failwith "bad node") (split_on ',' nodes_s) in
    ignore ring_s;
    let known = List.map (fun (i, d) -> { host = i; gen = N0; ndc = d }) nodes in
    let tt = List.fold_left (fun acc tb ->
        match acc, String.split_on_char ':' tb with
        | Some tt, [f; l; reps] ->
          let raw = if reps = "-" then [] else List.map (fun e -> match String.split_on_char '.' e with
              | [h; sh] -> (n_of_hex h, n_of_hex sh) | _ -> failwith "bad replica") (String.split_on_char '+' reps) in
          add_tablet tt (from_raw_tablet (z_of_hex f) (z_of_hex l) raw known)
        | _, _ -> None) (Some tt_empty) (if tabs_s = "-" then [] else String.split_on_char ';' tabs_s) in
    (match tt with
     | None -> if impl = ["panic"] then "viol panic" else "diff model: add_tablet panics"
     | Some tt ->
       let s = ts_for tt.tt_list (z_of_hex tok_s) (opt_n dc_s) in
       let pr (h, sh) = hex_of_n h ^ ":" ^ hex_of_n sh in
       let po = function Some x -> pr x | None -> "_" in
       let j l = if l = [] then "-" else String.concat "," l in
       let len = int_of_nat (ts_len s) in
       let iter = ts_iter s in
       let seq = [TNext; TNth (nat_of_int 1); TNext; TNth (nat_of_int 0); TNth (nat_of_int 2); TNext] in
       let m = [ Printf.sprintf "%x" len; j (List.map pr iter);
                 j (List.init (len + 2) (fun k -> po (ts_nth s (nat_of_int k))));
                 j (List.init len (fun k -> po (ts_choose s (nat_of_int k))));
                 j (List.map pr (ts_ordered s));
                 j (List.map (fun (o, (lo, hi)) -> Printf.sprintf "%s@%x:%x" (po o) (int_of_nat lo) (int_of_nat hi)) (ts_run s seq O)) ] in
       if impl = m then "ok"
       else (match impl with
           | [olen; oiter; onth; ochoose; oord; oops] ->
             (* the property on the implementation's own views: they describe one list *)
             let it = if oiter = "-" then [] else split_on ',' oiter in
             let srt l = List.sort compare l in
             let ch = if ochoose = "-" then [] else split_on ',' ochoose in
             (* the interleaved next/nth results (the part before '@'; the size hints are compared
                with the model only) against the extracted plist_run on the implementation's own
                iteration *)
             let ops_vals = List.map (fun e -> match String.index_opt e '@' with
                 | Some k -> String.sub e 0 k | None -> e) (if oops = "-" then [] else split_on ',' oops) in
             let own_ops = List.map (fun (o, _) -> match o with Some x -> x | None -> "_") (plist_run seq it) in
             let consistent =
               int_of_string ("0x" ^ olen) = List.length it
               (* the views describe the same replicas; the order of the ordered view of a tablet set
                  is not part of the statement *)
               && srt (if oord = "-" then [] else split_on ',' oord) = srt it
               && (split_on ',' onth |> List.mapi (fun k v -> v = (match List.nth_opt it k with Some x -> x | None -> "_")) |> List.for_all (fun b -> b))
               && List.length ch = List.length it
               && List.for_all (fun x -> List.mem x it) ch
               && ops_vals = own_ops in
             (if consistent then "diff" else "viol views") ^ " tablet-set model: " ^ String.concat " " m
           | ["panic"] -> "viol panic"
           | _ -> "error bad-impl-output"))
  | ["Q"; nodes_s; ring_s; pre_s; strat_s; dc_s; tok_s] ->
    let (dcf, rackf, g, pre, sharderf) = topo nodes_s ring_s pre_s in
    let strat = parse_strat strat_s and dc = opt_n dc_s and t = z_of_hex tok_s in
    let s = replicas_for dcf rackf g pre t strat dc in
    let m_len = int_of_nat (rs_len dcf g s) in
    let m_iter = rs_iter dcf rackf g pre t s in
    let m_nth = List.init (m_len + 2) (fun k -> rs_nth dcf rackf g pre t s (nat_of_int k)) in
    let m_choose = List.init m_len (fun k -> rs_choose dcf rackf g pre t s (nat_of_int k)) in
    let (m_ord, m_left) = rs_ordered dcf rackf g pre t s in
    let s0 = replicas_for dcf rackf g [] t strat dc in
    let m_np = rs_iter dcf rackf g [] t s0 in
    let seqs = [ [INext; INth (nat_of_int 1); INext; INth (nat_of_int 0); INth (nat_of_int 2); INext];
                 [INth (nat_of_int 0); INth (nat_of_int 0); INext; INth (nat_of_int 3); INext];
                 [INext; INext; INth (nat_of_int 5); INext; INth (nat_of_int 0)] ] in
    let m_ops = List.map (fun sq -> rs_run dcf rackf g pre t s sq) seqs in
    let hint_s (lo, hi) = Printf.sprintf "%x:%x" (int_of_nat lo) (int_of_nat hi) in
    let m_hints = String.concat "/" (List.map (fun sq -> String.concat "," (List.map hint_s (rs_run_hints dcf rackf g pre t s sq))) seqs) in
    let m_ohint = hint_s (rs_ordered_hint dcf rackf g pre t s) in
    (match impl with
     | [len; iter; nth; choose; cf; ordered; ep; np; ops; sh; osh; hints; ohint; vsh] ->
       let o_len = int_of_string ("0x" ^ len) and o_iter = ids_of iter and o_np = ids_of np in
       let o_nth = List.map opt_n (split_on ',' nth) in
       let exact = String.length choose > 0 && choose.[0] = 'E' in
       let o_choose = let b = String.sub choose 2 (String.length choose - 2) in
         if b = "-" then [] else List.map opt_n (split_on ',' b) in
       let o_cf = opt_n cf in
       let o_ord = if ordered = "panic" then None else Some (ids_of ordered) in
       let o_ep = if ep = "x" then None else Some (ids_of ep) in
       let o_ops = List.map (fun f -> List.map opt_n (split_on ',' f)) (String.split_on_char '/' ops) in
       (* --- agreement with the model (exact; choose through the index it was scripted with,
              choose_filtered through membership: C04_views_choose gives choose i = nth i (iter)) --- *)
       let agree =
         o_len = m_len && o_iter = m_iter && o_nth = m_nth
         && (if exact then o_choose = m_choose
             else List.length o_choose = m_len && List.for_all (function Some x -> mem x m_iter | None -> false) o_choose)
         && (match o_cf with
             | Some x -> mem x m_iter && int_of_n x mod 2 = 1
             | None -> not (List.exists (fun x -> int_of_n x mod 2 = 1) m_iter))
         && (match o_ord with Some l -> m_left = [] && l = m_ord | None -> m_left <> [])
         && (match o_ep with Some l -> l = m_iter | None -> true)
         && o_np = m_np && o_ops = m_ops
         (* with_computed_shard: C04_shards *)
         && sh = string_of_nlist (List.map snd (with_shards sharderf t m_iter))
         (* size_hint in every visited iterator state: C04_size_hint *)
         && hints = m_hints && ohint = m_ohint
         && (if o_ord = None then osh = "panic" else osh = string_of_nlist (List.map snd (with_shards sharderf t m_ord)))
         (* the shard yielded by nth(k), by choose and by the interleaved operations *)
         && (let so = function Some n -> hex_of_n (computed_shard sharderf t n) | None -> "_" in
             let jl l = if l = [] then "-" else String.concat "," (List.map so l) in
             vsh = String.concat "/" [jl m_nth; jl m_choose; jl (match m_ops with a :: _ -> a | [] -> [])]) in
       (* model agrees: the theorems of Props/C04.v give the property (C04_placement_model,
          C04_views_*, C04_ordered_model, C04_views_ops, C04_precomputed_any) *)
       if agree then "ok" else
       (* --- otherwise: the property on the implementation's own output.  Which comparison the
              property demands per view: the replicas are a SET of nodes (into_iter's order is not
              promised) -> placement_ok / same_set; size, nth, choose, interleaved next/nth must
              describe the iterated sequence; get_token_endpoints and the non-precomputed answer
              the same set; only into_replicas_ordered has an order: the ring's (ordered_ok). --- *)
       let spec = spec_replicas dcf rackf g t strat dc in
       (* extracted predicates: C04_views_ok_sound / C04_precomputed_ok_sound say what they mean,
          C04_views_ok_model / C04_precomputed_ok_model that the model satisfies them *)
       let views_ok =
         views_ok (nat_of_int o_len) o_iter o_nth o_choose o_cf (fun x -> int_of_n x mod 2 = 1)
           (if List.length o_ops = List.length seqs then List.combine seqs o_ops else [([], [Some N0])]) o_ep in
       (* a token owned by several nodes: the statement does not say in which order they come; the
          placement / ring-order predicates are evaluated for every order of the entries sharing a
          token and fail only if they fail for all of them.  Rings with more than 720 such orders
          are not enumerated: there (capped) a placement / ring-order failure on the stored order
          is not a verdict on the property and is reported as diff *)
       let capped, variants =
         if tokens_distinct g then (false, [g]) else begin
           let rec runs = function
             | [] -> []
             | (tk, n) :: r ->
               let same, rest = List.partition (fun (tk', _) -> tk' = tk) r in
               ((tk, n) :: same) :: runs rest in
           let rec perms = function
             | [] -> [[]]
             | l -> List.concat_map (fun x -> List.map (fun p -> x :: p) (perms (List.filter (fun y -> y != x) l))) l in
           let rec prod = function
             | [] -> [[]]
             | run :: r -> let tails = prod r in
               List.concat_map (fun p -> List.map (fun tl -> p @ tl) tails) (perms run) in
           let rec fact k = if k <= 1 then 1 else k * fact (k - 1) in
           let rs = runs g in
           let count = List.fold_left (fun acc run ->
               if acc > 720 || List.length run > 6 then 721 else acc * fact (List.length run)) 1 rs in
           if count > 720 then (true, [g]) else (false, prod rs)
         end in
       let ordered_okb = match o_ord with
         | Some l -> List.exists (fun g' -> ordered_ok g' t o_iter l) variants
         | None -> false in
       let pre_ok = precomputed_ok o_np o_iter in
       let place_ok = List.exists (fun g' -> placement_ok (spec_replicas dcf rackf g' t strat dc) o_iter) variants in
       (* order-dependent failures that could not be judged for every order (capped); a panic of
          the ordered view does not depend on the order *)
       (* ... what does not depend on the order is still judged there: the ordered view names the
          iterated nodes; the replicas own tokens and are as many as specified (C04_nts_len,
          C04_prefix_simple: the number is a function of the node sets, not of the order) *)
       let soft_ord = capped && not ordered_okb && (match o_ord with Some l -> same_set l o_iter | None -> false)
       and soft_place = capped && not place_ok
                        && List.for_all (fun x -> List.exists (fun (_, n) -> n = x) g) o_iter
                        && nodupb o_iter
                        (* the number of replicas does not depend on the order of equal-token entries
                           (min(RF, nodes) per datacenter / over the ring) except for a SimpleStrategy
                           answer restricted to a datacenter *)
                        && ((dc <> None && (match strat with NTS _ -> false | _ -> true))
                            || List.length o_iter = List.length spec) in
       let fails = (if views_ok then [] else ["views"]) @ (if ordered_okb || soft_ord then [] else ["ordered"])
                   @ (if pre_ok then [] else ["precomputed"]) @ (if place_ok || soft_place then [] else ["placement"]) in
       let detail = Printf.sprintf "model: len=%x iter=%s nth=%s choose=%s ordered=%s np=%s spec=%s"
           m_len (str_ids m_iter) (String.concat "," (List.map str_opt m_nth))
           (String.concat "," (List.map str_opt m_choose))
           (if m_left = [] then str_ids m_ord else "panic") (str_ids m_np) (str_ids spec) in
       let detail = if soft_ord || soft_place
         then "shared-token orders not enumerated (more than 720): the order-dependent part of " ^ String.concat "," ((if soft_place then ["placement"] else []) @ (if soft_ord then ["ordered"] else [])) ^ " not judged; " ^ detail else detail in
       if fails = [] then "diff " ^ detail
       else "viol " ^ String.concat "," fails ^ " " ^ detail
     | ["panic"] -> "viol panic"
     | _ -> "error bad-impl-output")
  | _ -> "error unknown-case"

let () = run_lines verdict
