(* C16 correspondence driver: evaluates the extracted model of the derive-generated code
   (Model/Derive.v) on the harness' cases and compares with the real derived impls.

   case kinds (fields separated by blanks):
     SV <struct> <desc> <dbtype> <vals>   | ok <bytes> [rt <deser outcome>]  |  err <E>
     DV <struct> <desc> <dbtype> <cells>  | ok <vals> | tck <E> | des <E> | panic
     SR <struct> <desc> <cols> <vals>     | ok <bytes> [rt <deser outcome>]  |  err <E>
     NV <struct> <outer perm> <inner perm> <flags> <vals> | ok <bytes> rt ok <vals>   (nested derived structs)
     PR <struct> <desc> <cols> <vals>     | as SR, but the ColumnSpecs are decoded by the driver from a PREPARED response
     PT <struct> <desc> <cols> <vals>     | as PR with the last column in a second table (per-column table specs)
     DR <struct> <desc> <cols> <cells>    | ok <vals> | tck <E> | des <E> | panic
   desc   := flags '/' [field {';' field}]          flags: o(rdered) x(forbid excess) n(o name checks) -
             S = the struct derives Serialize* only (no round trip part expected)
   field  := ident ['>' rename] ':' (ty | '{' desc '}') [':' attrs]
             ty: i=i32 t=String I=Option<i32> T=Option<String>; attrs: s(kip) m(allow_missing)
             d(efault_when_null); '{..}' = #[scylla(flatten)] of a nested struct
   dbtype := '@' ty  (a native type) | name ':' ty {',' name ':' ty} | '-'     ty: i=int t=text a=ascii b=bigint
   vals / cells := cell {',' cell} | '-'       cell: N (null) | _ (empty payload) | hex *)

let s2c = chars_of_string
let c2s = string_of_chars

(* ---- descriptor parser -------------------------------------------------------------- *)
type pfield =
  | PLeafF of string * string option * char * string
  | PFlatF of string * (string * pfield list) * string

let is_ident c = match c with 'a'..'z' | 'A'..'Z' | '0'..'9' | '_' -> true | _ -> false

let parse_desc_text (s : string) : string * pfield list =
  let n = String.length s in
  let pos = ref 0 in
  let peek () = if !pos < n then s.[!pos] else '\000' in
  let adv () = incr pos in
  let ident () =
    let st = !pos in
    while !pos < n && is_ident s.[!pos] do adv () done;
    String.sub s st (!pos - st) in
  let rec desc () =
    let st = !pos in
    while !pos < n && s.[!pos] <> '/' do adv () done;
    let flags = String.sub s st (!pos - st) in
    adv ();
    let fields = ref [] in
    if peek () <> '}' && peek () <> '\000' then begin
      fields := [field ()];
      while peek () = ';' do adv (); fields := field () :: !fields done
    end;
    (flags, List.rev !fields)
  and field () =
    let id = ident () in
    if id = "" then failwith "descriptor: identifier expected";
    let ren = if peek () = '>' then (adv (); Some (ident ())) else None in
    if peek () <> ':' then failwith "descriptor: ':' expected";
    adv ();
    if peek () = '{' then begin
      adv ();
      let d = desc () in
      if peek () <> '}' then failwith "descriptor: '}' expected";
      adv ();
      let attrs = if peek () = ':' then (adv (); ident ()) else "" in
      PFlatF (id, d, attrs)
    end else begin
      let ty = peek () in
      adv ();
      let attrs = if peek () = ':' then (adv (); ident ()) else "" in
      PLeafF (id, ren, ty, attrs)
    end in
  let r = desc () in
  if !pos <> n then failwith "descriptor: trailing characters";
  r

let rty_of = function
  | 'i' -> RInt | 't' -> RText | 'I' -> ROptInt | 'T' -> ROptText
  | c -> failwith ("bad field type " ^ String.make 1 c)
let dty_of = function
  | "i" -> DInt | "t" -> DText | "b" -> DBigInt | "a" -> DAscii | s -> failwith ("bad db type " ^ s)

let cell_of (s : string) : cell =
  if s = "N" then None else if s = "_" then Some [] else Some (bytes_of_hexstr s)
let cells_of (s : string) : cell list =
  if s = "-" then [] else List.map cell_of (split_on ',' s)
let str_of_cell = function
  | None -> "N" | Some [] -> "_" | Some b -> hexstr_of_bytes b
let str_of_cells (l : cell list) = if l = [] then "-" else String.concat "," (List.map str_of_cell l)

let db_of (s : string) : dbfield list =
  if s = "-" then [] else
  List.map (fun e -> match String.index_opt e ':' with
    | Some i -> (s2c (String.sub e 0 i), dty_of (String.sub e (i + 1) (String.length e - i - 1)))
    | None -> failwith "bad db field") (split_on ',' s)
let dbtype_of (s : string) : dbtype =
  if String.length s > 0 && s.[0] = '@' then TNative (dty_of (String.sub s 1 (String.length s - 1)))
  else TUdt (db_of s)

let has c s = String.contains s c

(* values are consumed in declaration order, depth first *)
let take_val (vals : cell list ref) : cell =
  match !vals with
  | v :: r -> vals := r; v
  | [] -> None

let vdesc_of (flags, fields) (vals : cell list ref) : vdesc =
  let fs = List.map (function
    | PLeafF (id, ren, ty, attrs) ->
      { vf_ident = s2c id; vf_rename = Option.map s2c ren; vf_skip = has 's' attrs;
        vf_am = has 'm' attrs; vf_dwn = has 'd' attrs; vf_ty = rty_of ty; vf_val = take_val vals }
    | PFlatF _ -> failwith "flatten in a value descriptor") fields in
  { vd_ordered = has 'o' flags; vd_forbid = has 'x' flags; vd_snc = has 'n' flags; vd_fields = fs }

let rec rfields_of fields (vals : cell list ref) : rfield list =
  List.map (function
    | PLeafF (id, ren, ty, attrs) ->
      if has 'm' attrs then failwith "allow_missing in a row descriptor";
      RLeaf { rl_ident = s2c id; rl_rename = Option.map s2c ren; rl_skip = has 's' attrs;
              rl_dwn = has 'd' attrs; rl_ty = rty_of ty; rl_val = take_val vals }
    | PFlatF (_, (fl, sub), attrs) ->
      let sub' = rfields_of sub vals in
      RFlat (has 's' attrs, has 'n' fl, sub')) fields
let rdesc_of (flags, fields) (vals : cell list ref) : rdesc =
  let fs = rfields_of fields vals in
  { rd_ordered = has 'o' flags; rd_snc = has 'n' flags; rd_fields = fs }

(* ---- printing ------------------------------------------------------------------------ *)
let i = int_of_nat
let names l = if l = [] then "" else String.concat "+" (List.map c2s l)
let err_str = function
  | ENotUdt -> "NotUdt"
  | ENoSuchFieldInUdt n -> Printf.sprintf "NoSuchFieldInUdt(%s)" (c2s n)
  | EValueMissingForUdtField n -> Printf.sprintf "ValueMissingForUdtField(%s)" (c2s n)
  | EFieldNameMismatch (r, d) -> Printf.sprintf "FieldNameMismatch(%s,%s)" (c2s r) (c2s d)
  | EFieldSerializationFailed n -> Printf.sprintf "FieldSerializationFailed(%s)" (c2s n)
  | ENoColumnWithName n -> Printf.sprintf "NoColumnWithName(%s)" (c2s n)
  | EValueMissingForColumn n -> Printf.sprintf "ValueMissingForColumn(%s)" (c2s n)
  | EColumnNameMismatch (r, d) -> Printf.sprintf "ColumnNameMismatch(%s,%s)" (c2s r) (c2s d)
  | EColumnSerializationFailed n -> Printf.sprintf "ColumnSerializationFailed(%s)" (c2s n)
  | EValuesMissingForUdtFields ns -> Printf.sprintf "ValuesMissingForUdtFields(%s)" (names ns)
  | EDeFieldNameMismatch (p, r, d) -> Printf.sprintf "FieldNameMismatch(%d,%s,%s)" (i p) (c2s r) (c2s d)
  | EExcessFieldInUdt n -> Printf.sprintf "ExcessFieldInUdt(%s)" (c2s n)
  | EDuplicatedField n -> Printf.sprintf "DuplicatedField(%s)" (c2s n)
  | ETooFewFields -> "TooFewFields"
  | EFieldTypeCheckFailed n -> Printf.sprintf "FieldTypeCheckFailed(%s)" (c2s n)
  | EFieldDeserializationFailed n -> Printf.sprintf "FieldDeserializationFailed(%s)" (c2s n)
  | EWrongColumnCount (r, c) -> Printf.sprintf "WrongColumnCount(%d,%d)" (i r) (i c)
  | EColumnWithUnknownName (k, n) -> Printf.sprintf "ColumnWithUnknownName(%d,%s)" (i k) (c2s n)
  | EValuesMissingForColumns ns -> Printf.sprintf "ValuesMissingForColumns(%s)" (names ns)
  | EDeColumnNameMismatch (f, c, r, d) ->
    Printf.sprintf "ColumnNameMismatch(%d,%d,%s,%s)" (i f) (i c) (c2s r) (c2s d)
  | EColumnTypeCheckFailed (k, n) -> Printf.sprintf "ColumnTypeCheckFailed(%d,%s)" (i k) (c2s n)
  | EDuplicatedColumn (k, n) -> Printf.sprintf "DuplicatedColumn(%d,%s)" (i k) (c2s n)
  | EColumnDeserializationFailed (k, n) -> Printf.sprintf "ColumnDeserializationFailed(%d,%s)" (i k) (c2s n)
  | EPanic -> "Panic"

let ser_str = function
  | Ok b -> "ok " ^ hexstr_of_bytes b
  | Err EPanic -> "panic"
  | Err e -> "err " ^ err_str e

(* type_check, then deserialize *)
let de_str (tck : (err, unit) result) (des : unit -> (err, cell list) result) : string =
  match tck with
  | Err EPanic -> "panic"
  | Err e -> "tck " ^ err_str e
  | Ok () -> (match des () with
      | Ok vs -> "ok " ^ str_of_cells vs
      | Err EPanic -> "panic"
      | Err e -> "des " ^ err_str e)

(* split the implementation's output into the serialize part and the round-trip part *)
let split_rt (impl : string list) : string * string option =
  let rec go acc = function
    | "rt" :: r -> (String.concat " " (List.rev acc), Some (String.concat " " r))
    | x :: r -> go (x :: acc) r
    | [] -> (String.concat " " (List.rev acc), None) in
  go [] impl

(* an observed deserialize outcome as Some vals / None (rejected) / exception for a panic *)
let obs_de (s : string) : cell list option option =
  match split_on ' ' s with
  | ["ok"; v] -> Some (Some (cells_of v))
  | "panic" :: _ -> None
  | _ -> Some None

let doc_str (o : cell list outcome) (frame : cell list -> bytes) = match o with
  | Accept cs -> "accept:" ^ hexstr_of_bytes (frame cs)
  | Reject -> "reject"
let docv_str (o : cell list outcome) = match o with
  | Accept cs -> "accept:" ^ str_of_cells cs
  | Reject -> "reject"

let verdict_de ~(model : string) ~(impl : string) ~(doc : cell list outcome option) : string =
  if model = impl then "ok"
  else match obs_de impl with
    | None -> "viol impl-panicked model=" ^ model
    | Some obs ->
      (match doc with
       | Some dc when not (outcome_agrees obs dc) -> "viol doc=" ^ docv_str dc ^ " model=" ^ model
       | _ -> "diff model=" ^ model)

(* the documented outcome for the descriptor's flavor (every flavor has one; None only where the
   documentation is silent: a DB list naming a field twice for by-name serialization, a flatten
   tree with colliding column names) *)
let names_nodup (db : dbfield list) = nodupb (List.map fst db)
let doc_ser_value d db : cell list outcome option =
  if not d.vd_ordered then (if names_nodup db then Some (doc_ser_value_by_name d db) else None)
  else if d.vd_snc then Some (doc_ser_value_snc d db)
  else Some (doc_ser_value_ordered_strict d db)   (* the DOCUMENTED table; = the code's outside class F24 *)
let doc_de_value d db cells : cell list outcome option =
  if not d.vd_ordered then Some (doc_deser_value_by_name d db cells)
  else if d.vd_snc then Some (doc_deser_value_snc d db cells)
  else Some (doc_deser_value_ordered_strict d db cells)
let doc_ser_row d cols : cell list outcome option =
  if not d.rd_ordered then (if rdesc_wf d then Some (doc_ser_row_by_name d cols) else None)
  else Some (doc_ser_row_ordered_gen d cols)
let doc_de_row d ls cols cells : cell list outcome option =
  if not d.rd_ordered then (if rdesc_wf d then Some (doc_deser_row_by_name ls cols cells) else None)
  else if d.rd_snc then Some (doc_deser_row_snc ls cols cells)
  else if rdesc_wf d then Some (doc_deser_row_ordered ls cols cells) else None

let ser_agrees frame dc impl_ser = match dc, split_on ' ' impl_ser with
  | Accept cs, ["ok"; b] -> hexstr_of_bytes (frame cs) = b
  | Reject, ("err" :: _) -> true
  | _ -> false

let known_class = "ordered-allow-missing-present-but-dropped"

let rec verdict case impl =
  match impl with
  | "error" :: _ -> "error harness " ^ String.concat "_" impl        (* runner trouble is never a verdict on the property *)
  | _ when List.mem "panic" impl && (match case with k :: _ -> k <> "XD" | [] -> false) ->
    "viol impl-panicked"                                              (* a panic is never `ok`, whatever the model says *)
  | _ -> verdict_case case impl
and verdict_case case impl =
  match case with
  | ["SV"; _; desc; dbt; vals] ->
    let vals = ref (cells_of vals) in
    let d = vdesc_of (parse_desc_text desc) vals in
    if not (vdesc_valid d) then "error descriptor-rejected-by-validate" else
    let t = dbtype_of dbt in
    let (impl_ser, impl_rt) = split_rt impl in
    let m = ser_str (gen_ser_value d t) in
    (* known finding F24: on an input of the class the documented (strict) table says Reject.  The
       class tag is attached ONLY when the implementation's output equals the model of the known
       behaviour (same bytes AND same round-trip outcome); a rejection is what the docs demand -> ok;
       any other accepted output is an untagged violation of the documented table. *)
    if (match t with TUdt db -> ordered_am_drops d db | TNative _ -> false) then begin
      let db = match t with TUdt db -> db | TNative _ -> [] in
      let cells = match gen_ser_value_cells d db with Ok cs -> cs | Err _ -> [] in
      let mrt = de_str (gen_typeck_value d t) (fun () -> gen_deser_value d db cells) in
      let model_accepts = String.length m >= 2 && String.sub m 0 2 = "ok" in
      if impl_ser = m && not model_accepts then "ok"            (* both reject, same error *)
      else if impl_ser = m && impl_rt = Some mrt then "viol class=" ^ known_class ^ " doc=reject model=" ^ m ^ " rt " ^ mrt
      else match split_on ' ' impl_ser with
        | "err" :: _ when not model_accepts -> "diff model=" ^ m  (* both reject, different errors *)
        | "err" :: _ -> "ok documented-rejection model=" ^ m
        | _ -> "viol doc=reject accepted-with-an-output-other-than-the-known-behaviour model=" ^ m ^ " rt " ^ mrt
    end else
    if m <> impl_ser then begin
      (* the property on the implementation's own output: the documented outcome *)
      let doc = match t with TNative _ -> Some Reject | TUdt db -> doc_ser_value d db in
      match doc with
      | Some dc when not (ser_agrees frame_value dc impl_ser) -> "viol doc=" ^ doc_str dc frame_value ^ " model=" ^ m
      | _ -> "diff model=" ^ m
    end else begin
      match impl_rt, t with
      | Some rt, TUdt db ->
        let cells = match gen_ser_value_cells d db with Ok cs -> cs | Err _ -> [] in
        let mrt = de_str (gen_typeck_value d t) (fun () -> gen_deser_value d db cells) in
        if mrt = rt then "ok" else begin
          (* round trip on the implementation's own output: value -> bytes -> value *)
          let rt_law vs =
            if d.vd_ordered then
              (* the proved table: C16_ordered_am_deser_value / C16_snc_deser_value *)
              (match doc_de_value d db cells with Some dc -> outcome_agrees (Some vs) dc | None -> true)
            else cells_eqb vs (List.map (back_value (List.map fst db)) d.vd_fields) in
          match obs_de rt with
          | None -> "viol roundtrip impl-panicked model=" ^ mrt
          | Some (Some vs) when vvals_ok d && not (rt_law vs) -> "viol roundtrip value-not-restored model=" ^ mrt
          | Some None when vvals_ok d &&
                           (match doc_de_value d db cells with Some (Accept _) -> true | _ -> false) ->
            "viol roundtrip rejected-but-documented-accept model=" ^ mrt
          | _ -> "diff roundtrip model=" ^ mrt
        end
      | None, TUdt _ when String.length impl_ser >= 2 && String.sub impl_ser 0 2 = "ok"
                          && not (has 'S' (fst (parse_desc_text desc))) ->
        "error missing-roundtrip"
      | _ -> "ok"
    end
  | ["DV"; _; desc; dbt; cells] ->
    let d = vdesc_of (parse_desc_text desc) (ref []) in
    if not (vdesc_valid d) then "error descriptor-rejected-by-validate" else
    let t = dbtype_of dbt in
    let cells = cells_of cells in
    let db = match t with TUdt db -> db | TNative _ -> [] in
    let m = de_str (gen_typeck_value d t) (fun () -> gen_deser_value d db cells) in
    let doc = match t with TNative _ -> Some Reject | TUdt db -> doc_de_value d db cells in
    if (match t with TUdt db -> ordered_am_drops d db | TNative _ -> false) then begin
      (* F24, see SV: tag only on the exact known behaviour; a rejection is the documented outcome *)
      let is = String.concat " " impl in
      let model_accepts = String.length m >= 2 && String.sub m 0 2 = "ok" in
      if is = m && not model_accepts then "ok"                  (* both reject, same error *)
      else if is = m then "viol class=" ^ known_class ^ " doc=reject model=" ^ m
      else match impl with
        | ("tck" | "des") :: _ when not model_accepts -> "diff model=" ^ m
        | ("tck" | "des") :: _ -> "ok documented-rejection model=" ^ m
        | _ -> "viol doc=reject accepted-with-an-output-other-than-the-known-behaviour model=" ^ m
    end
    else verdict_de ~model:m ~impl:(String.concat " " impl) ~doc
  | [("SR" | "PR" | "PT"); _; desc; cols; vals] ->
    (* PR = SR on column specs the driver decoded itself from an encoded PREPARED response *)
    let vals = ref (cells_of vals) in
    let d = rdesc_of (parse_desc_text desc) vals in
    let cols = db_of cols in
    let (impl_ser, impl_rt) = split_rt impl in
    let m = ser_str (gen_ser_row d cols) in
    if m <> impl_ser then begin
      match doc_ser_row d cols with
      | Some dc when not (ser_agrees frame_cells dc impl_ser) -> "viol doc=" ^ doc_str dc frame_cells ^ " model=" ^ m
      | _ -> "diff model=" ^ m
    end else begin
      match impl_rt, leaves_only d.rd_fields with
      | Some rt, Some ls ->
        let cells = match gen_ser_row_cells d cols with Ok cs -> cs | Err _ -> [] in
        let mrt = de_str (gen_typeck_row d ls cols) (fun () -> gen_deser_row d ls cols cells) in
        if mrt = rt then "ok" else begin
          let expected = List.map rback_value ls in
          let vals_ok = List.for_all (fun l -> val_ok l.rl_ty l.rl_val) ls in
          match obs_de rt with
          | None -> "viol roundtrip impl-panicked model=" ^ mrt
          | Some (Some vs) when vals_ok && not (cells_eqb vs expected) ->
            "viol roundtrip expected=" ^ str_of_cells expected ^ " model=" ^ mrt
          | Some None when vals_ok &&
                           (match doc_de_row d ls cols cells with Some (Accept _) -> true | _ -> false) ->
            "viol roundtrip rejected-but-documented-accept model=" ^ mrt
          | _ -> "diff roundtrip model=" ^ mrt
        end
      | Some _, None -> "error round-trip-output-for-a-flatten-struct"
      | None, Some _ when String.length impl_ser >= 2 && String.sub impl_ser 0 2 = "ok"
                          && not (has 'S' (fst (parse_desc_text desc))) ->
        "error missing-roundtrip"
      | None, _ -> "ok"
    end
  | ["DR"; _; desc; cols; cells] ->
    let d = rdesc_of (parse_desc_text desc) (ref []) in
    (match leaves_only d.rd_fields with
     | None -> "error flatten-in-a-DeserializeRow-descriptor"
     | Some ls ->
       let cols = db_of cols in
       let cells = cells_of cells in
       if List.length cells <> List.length cols then "error cell-count" else
       let m = de_str (gen_typeck_row d ls cols) (fun () -> gen_deser_row d ls cols cells) in
       verdict_de ~model:m ~impl:(String.concat " " impl) ~doc:(doc_de_row d ls cols cells))
  | ["NV"; _; _; _; _; vals] ->
    (* nested derived structs: no model; the property itself on the implementation's output: a valid
       DB type (any outer / inner field order, extras, absent allow_missing inner field) must be
       accepted and the value must come back *)
    (match impl with
     | ["ok"; _; "rt"; "ok"; back] -> if back = vals then "ok" else "viol nested-value-not-restored expected=" ^ vals
     | _ -> "viol nested-valid-input-not-round-tripped")
  | ["XD"; sid; registered; derived] ->
    (* descriptor self-check: the runner derived a descriptor from the struct's attribute text in
       its own source and compares it with the hand-written registered one *)
    if registered = derived && (match impl with ["same"] -> true | _ -> false) then "ok"
    else "diff descriptor-drift struct=" ^ sid
  | _ -> "error unknown-case"

let () = run_lines verdict
