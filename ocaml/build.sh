#!/bin/sh
# usage: build.sh c11   -- builds ocaml/c11/driver from the extracted model + common glue.
# Builds in a private temporary directory and installs the binary atomically, so concurrent runs
# of the same check never see a half-written driver; skips the build when the driver is newer
# than all of its inputs.
set -e
d="$(cd "$(dirname "$0")" && pwd)/$1"
cd "$d"
if [ -x driver ] && [ driver -nt model.ml ] && [ driver -nt driver.ml ] && [ driver -nt ../common/conv.ml ] && [ driver -nt model.mli ]; then
  exit 0
fi
t=$(mktemp -d "${TMPDIR:-/tmp}/ocamlbuild.XXXXXX")
trap 'rm -rf "$t"' EXIT
cp model.ml model.mli "$t/"
cat ../common/conv.ml driver.ml > "$t/main.ml"
( cd "$t" && { ocamlfind ocamlopt -O3 -w -a model.mli model.ml main.ml -o driver 2>/dev/null || \
               ocamlfind ocamlopt -w -a model.mli model.ml main.ml -o driver; } )
mv -f "$t/driver" "$d/driver.new.$$"
mv -f "$d/driver.new.$$" "$d/driver"
