#!/bin/sh
# usage: build.sh c11   -- builds ocaml/c11/driver from the extracted model + common glue
set -e
cd "$(dirname "$0")/$1"
cat ../common/conv.ml driver.ml > main.ml
ocamlfind ocamlopt -O3 -w -a model.mli model.ml main.ml -o driver 2>/dev/null || \
ocamlfind ocamlopt -w -a model.mli model.ml main.ml -o driver
rm -f main.ml
