(* C17 correspondence driver: evaluates the extracted Accept model on the harness' cases.

   Text forms.  CQL types and CqlValue payloads: as in ocaml/c01/driver.ml (shared with
   harness/src/c01_text.rs).  Carrier descriptors: `Name` or `Name[arg,arg]`
     leaves  bool i8 i16 i32 i64 f32 f64 str String Counter VecU8 SliceU8 Bytes ArrU8 IpAddr Uuid Timeuuid
             CqlDate ChronoDate TimeDate CqlTime ChronoTime TimeTime CqlTimestamp ChronoDateTime
             TimeOffsetDateTime CqlDuration CqlDecimal CqlDecimalB BigDecimal CqlVarint CqlVarintB BigInt03
             BigInt04 Unset CqlValue SecretString UdtIter FrameSlice
     others  Opt MUnset MEmpty Ref Box Arc Cow Sec08 SecBox10 Vec Slice HSet BSet HMap BMap Tup SecSlice
             ListIter VecIter MapIter
   Values of carriers: `{<CqlValue text>}` leaf, `null`, `unset`, `mempty`, `w[v]`, `seq[a,b]`,
   `map[k~v,k~v]`, `tup[a,b]`.

   Case kinds (see harness/src/bin/c17.rs):
     S <ws> <carrier> <type> <value>          | <res> <bufhex>     serialize into a buffer holding c1c2c3
     D <carrier> <type>                       | ok / err:<leaf>    DeserializeValue::type_check
     A (<carrier> <type> <value>)+            | one token per op   SerializedValues::add_value sequence
     X <rep> <c> <t> <v> (<c> <t> <v>)+       | 1 + n tokens       rep copies of the first, then the others
     R <ncols> <type>* <nvals> (<carrier> <value>)* | token / err:<leaf>  SerializedValues::from_serializable
     T <ncols> <type>* <row carrier Tup[..]> <nrows> | ok:<decoded>:<failed to decode> / err:WrongColumnCount / err:col<i>:<leaf>
                                                TypedRowIterator::new over a RawRowIterator of real rows
     N <bt|bs|ht|hs> <ncols> (<hexname> <type>)* <nvals> (<hexkey> <carrier> <value>)*
                                              | token / err:<leaf>   from_serializable of a BTreeMap / HashMap<String | &str, _>
                                                row bound BY NAME; leaf = ValueMissingForColumn:<hex>, NoColumnWithName:<hex>,
                                                TooManyValues or the leaf of the first column whose value does not serialise
     C (c<n> | a<n>)+                         | token / err:TooManyValues   SerializedValues::from_closure: n cells
                                                through make_cell_writer / append_serialize_row of n values
   token = <res>/<count>/<iter>/<len>/<bytes or #fnv1a64>;  res = ok | err:<leaf> *)

exception Parse of string

type cur = { s : string; mutable i : int }
let peek c = if c.i < String.length c.s then Some c.s.[c.i] else None
let adv c = c.i <- c.i + 1
let expect c ch =
  match peek c with
  | Some x when x = ch -> adv c
  | _ -> raise (Parse (Printf.sprintf "expected %c at %d in %s" ch c.i c.s))
let is_delim ch = ch = ';' || ch = ')' || ch = '=' || ch = '(' || ch = ':'
let token c =
  let st = c.i in
  while (match peek c with Some ch when not (is_delim ch) -> true | _ -> false) do adv c done;
  String.sub c.s st (c.i - st)

(* items separated by ';' up to ')' ; "()" is the empty list *)
let items c (p : cur -> 'a) : 'a list =
  expect c '(';
  if peek c = Some ')' then (adv c; [])
  else begin
    let acc = ref [p c] in
    while peek c = Some ';' do adv c; acc := p c :: !acc done;
    expect c ')'; List.rev !acc
  end

let natives = [
  "ascii", NAscii; "boolean", NBoolean; "blob", NBlob; "counter", NCounter; "date", NDate;
  "decimal", NDecimal; "double", NDouble; "duration", NDuration; "float", NFloat; "int", NInt;
  "bigint", NBigInt; "text", NText; "timestamp", NTimestamp; "inet", NInet; "smallint", NSmallInt;
  "tinyint", NTinyInt; "time", NTime; "timeuuid", NTimeuuid; "uuid", NUuid; "varint", NVarint ]

let rec p_type c : ctype =
  let t = token c in
  match t with
  | "L" -> (match items c p_type with [e] -> TList e | _ -> raise (Parse "L"))
  | "S" -> (match items c p_type with [e] -> TSet e | _ -> raise (Parse "S"))
  | "M" -> (match items c p_type with [k; v] -> TMap (k, v) | _ -> raise (Parse "M"))
  | "T" -> TTuple (items c p_type)
  | "V" ->
    expect c '(';
    let e = p_type c in
    expect c ';';
    let d = n_of_hex (token c) in
    expect c ')'; TVector (e, d)
  | "U" ->
    expect c '(';
    let ks = bytes_of_hexstr (token c) in expect c ';';
    let nm = bytes_of_hexstr (token c) in
    let fs = ref [] in
    while peek c = Some ';' do
      adv c;
      let fname = bytes_of_hexstr (token c) in
      expect c ':';
      let ft = p_type c in
      fs := (fname, ft) :: !fs
    done;
    expect c ')'; TUdt (ks, nm, List.rev !fs)
  | _ -> (try TNative (List.assoc t natives) with Not_found -> raise (Parse ("type " ^ t)))

let atom c = expect c ':'; token c

let rec p_val c : cval =
  let t = token c in
  match t with
  | "ascii" -> CAscii (bytes_of_hexstr (atom c))
  | "boolean" -> CBoolean (atom c = "1")
  | "blob" -> CBlob (bytes_of_hexstr (atom c))
  | "counter" -> CCounter (z_of_hex (atom c))
  | "decimal" -> let sc = z_of_hex (atom c) in CDecimal (sc, bytes_of_hexstr (atom c))
  | "date" -> CDate (n_of_hex (atom c))
  | "double" -> CDouble (n_of_hex (atom c))
  | "duration" -> let m = z_of_hex (atom c) in let d = z_of_hex (atom c) in CDuration (m, d, z_of_hex (atom c))
  | "empty" -> CEmpty
  | "float" -> CFloat (n_of_hex (atom c))
  | "int" -> CInt (z_of_hex (atom c))
  | "bigint" -> CBigInt (z_of_hex (atom c))
  | "text" -> CText (bytes_of_hexstr (atom c))
  | "timestamp" -> CTimestamp (z_of_hex (atom c))
  | "inet" -> CInet (bytes_of_hexstr (atom c))
  | "list" -> CList (items c p_val)
  | "set" -> CSet (items c p_val)
  | "vector" -> CVector (items c p_val)
  | "map" -> CMap (items c (fun c -> let k = p_val c in expect c '='; let v = p_val c in (k, v)))
  | "tuple" -> CTuple (items c p_opt)
  | "udt" ->
    expect c '(';
    let ks = bytes_of_hexstr (token c) in expect c ';';
    let nm = bytes_of_hexstr (token c) in
    let fs = ref [] in
    while peek c = Some ';' do
      adv c;
      let fname = bytes_of_hexstr (token c) in
      expect c '=';
      fs := (fname, p_opt c) :: !fs
    done;
    expect c ')'; CUdt (ks, nm, List.rev !fs)
  | "smallint" -> CSmallInt (z_of_hex (atom c))
  | "tinyint" -> CTinyInt (z_of_hex (atom c))
  | "time" -> CTime (z_of_hex (atom c))
  | "timeuuid" -> CTimeuuid (bytes_of_hexstr (atom c))
  | "uuid" -> CUuid (bytes_of_hexstr (atom c))
  | "varint" -> CVarint (bytes_of_hexstr (atom c))
  | _ -> raise (Parse ("value " ^ t))
and p_opt c : cval option =
  (* "null" or a value *)
  let save = c.i in
  if token c = "null" then None else (c.i <- save; Some (p_val c))


let whole p s = let c = { s; i = 0 } in let r = p c in
  if c.i <> String.length s then raise (Parse ("trailing input in " ^ s)); r
let type_of_string = whole p_type
let cval_of_string = whole p_val

let hb = hexstr_of_bytes
let rec s_val (v : cval) : string =
  let seq name f l = name ^ "(" ^ String.concat ";" (List.map f l) ^ ")" in
  match v with
  | CAscii s -> "ascii:" ^ hb s
  | CBoolean b -> if b then "boolean:1" else "boolean:0"
  | CBlob b -> "blob:" ^ hb b
  | CCounter z -> "counter:" ^ hex_of_z z
  | CDecimal (sc, raw) -> "decimal:" ^ hex_of_z sc ^ ":" ^ hb raw
  | CDate d -> "date:" ^ hex_of_n d
  | CDouble b -> "double:" ^ hex_of_n b
  | CDuration (m, d, n) -> "duration:" ^ hex_of_z m ^ ":" ^ hex_of_z d ^ ":" ^ hex_of_z n
  | CEmpty -> "empty"
  | CFloat b -> "float:" ^ hex_of_n b
  | CInt z -> "int:" ^ hex_of_z z
  | CBigInt z -> "bigint:" ^ hex_of_z z
  | CText s -> "text:" ^ hb s
  | CTimestamp z -> "timestamp:" ^ hex_of_z z
  | CInet b -> "inet:" ^ hb b
  | CList l -> seq "list" s_val l
  | CSet l -> seq "set" s_val l
  | CVector l -> seq "vector" s_val l
  | CMap l -> seq "map" (fun (k, v) -> s_val k ^ "=" ^ s_val v) l
  | CTuple l -> seq "tuple" s_opt l
  | CUdt (ks, nm, fs) ->
    "udt(" ^ String.concat ";" (hb ks :: hb nm :: List.map (fun (f, ov) -> hb f ^ "=" ^ s_opt ov) fs) ^ ")"
  | CSmallInt z -> "smallint:" ^ hex_of_z z
  | CTinyInt z -> "tinyint:" ^ hex_of_z z
  | CTime z -> "time:" ^ hex_of_z z
  | CTimeuuid b -> "timeuuid:" ^ hb b
  | CUuid b -> "uuid:" ^ hb b
  | CVarint b -> "varint:" ^ hb b
and s_opt = function None -> "null" | Some v -> s_val v

let ser_err_name = function
  | SE_MismatchedType -> "MismatchedType" | SE_NotEmptyable -> "NotEmptyable"
  | SE_NotSetOrList -> "NotSetOrList" | SE_NotMap -> "NotMap" | SE_NotTuple -> "NotTuple"
  | SE_TupleWrongCount -> "TupleWrongCount" | SE_NotUdt -> "NotUdt"
  | SE_UdtNameMismatch -> "UdtNameMismatch" | SE_NoSuchFieldInUdt -> "NoSuchFieldInUdt"
  | SE_SizeOverflow -> "SizeOverflow" | SE_TooManyElements -> "TooManyElements"
  | SE_VectorLen -> "VectorLen"

(* ---------------------------------------------------------------- carriers and their values *)

let bases = [
  "bool", BBool; "i8", BI8; "i16", BI16; "i32", BI32; "i64", BI64; "f32", BF32; "f64", BF64; "str", BStr;
  "String", BString; "Counter", BCounter; "VecU8", BVecU8; "SliceU8", BSliceU8; "Bytes", BBytes; "ArrU8", BArrU8;
  "IpAddr", BIpAddr; "Uuid", BUuid; "Timeuuid", BTimeuuid; "CqlDate", BCqlDate; "ChronoDate", BChronoDate;
  "TimeDate", BTimeDate; "CqlTime", BCqlTime; "ChronoTime", BChronoTime; "TimeTime", BTimeTime;
  "CqlTimestamp", BCqlTimestamp; "ChronoDateTime", BChronoDateTime; "TimeOffsetDateTime", BTimeOffsetDateTime;
  "CqlDuration", BCqlDuration; "CqlDecimal", BCqlDecimal; "CqlDecimalB", BCqlDecimalB; "BigDecimal", BBigDecimal;
  "CqlVarint", BCqlVarint; "CqlVarintB", BCqlVarintB; "BigInt03", BBigInt03; "BigInt04", BBigInt04; "Unset", BUnset ]

(* bracket grammar: name, optional [a,b,...] *)
let is_bdelim ch = ch = '[' || ch = ']' || ch = ',' || ch = '~' || ch = '{'
let btoken c =
  let st = c.i in
  while (match peek c with Some ch when not (is_bdelim ch) -> true | _ -> false) do adv c done;
  String.sub c.s st (c.i - st)
let bitems c (p : cur -> 'a) : 'a list =
  if peek c <> Some '[' then [] else begin
    adv c;
    if peek c = Some ']' then (adv c; [])
    else begin
      let acc = ref [p c] in
      while peek c = Some ',' do adv c; acc := p c :: !acc done;
      expect c ']'; List.rev !acc
    end
  end

let rec p_carrier c : carrier =
  let name = btoken c in
  let args = bitems c p_carrier in
  let one () = match args with [k] -> k | _ -> raise (Parse ("arity of " ^ name)) in
  let two () = match args with [a; b] -> (a, b) | _ -> raise (Parse ("arity of " ^ name)) in
  match name with
  | "CqlValue" -> KCqlValue | "SecretString" -> KSecretString | "UdtIter" -> KUdtIter | "FrameSlice" -> KFrameSlice
  | "Opt" -> KOption (one ()) | "MUnset" -> KMaybeUnset (one ()) | "MEmpty" -> KMaybeEmpty (one ())
  | "Ref" -> KRef (one ()) | "Box" -> KBox (one ()) | "Arc" -> KArc (one ()) | "Cow" -> KCow (one ())
  | "Sec08" -> KSecret08 (one ()) | "SecBox10" -> KSecretBox10 (one ())
  | "Vec" -> KVec (one ()) | "Slice" -> KSlice (one ()) | "HSet" -> KHashSet (one ()) | "BSet" -> KBTreeSet (one ())
  | "HMap" -> let (a, b) = two () in KHashMap (a, b)
  | "BMap" -> let (a, b) = two () in KBTreeMap (a, b)
  | "Tup" -> KTuple args
  | "SecSlice" -> KSecretSlice (one ()) | "ListIter" -> KListIter (one ()) | "VecIter" -> KVecIter (one ())
  | "MapIter" -> let (a, b) = two () in KMapIter (a, b)
  | _ -> (try KBase (List.assoc name bases) with Not_found -> raise (Parse ("carrier " ^ name)))

let rec p_kval c : kval =
  if peek c = Some '{' then begin
    adv c;
    let st = c.i in
    while (match peek c with Some ch when ch <> '}' -> true | _ -> false) do adv c done;
    let inner = String.sub c.s st (c.i - st) in
    expect c '}';
    VLeaf (cval_of_string inner)
  end else begin
    let name = btoken c in
    match name with
    | "null" -> VNull | "unset" -> VUnset | "mempty" -> VEmpty
    | "w" -> (match bitems c p_kval with [x] -> VWrap x | _ -> raise (Parse "w"))
    | "bigdec" ->
      (match bitems c btoken with
       | [sc; raw] -> VLeaf (CDecimal (z_of_hex sc, bytes_of_hexstr raw))
       | _ -> raise (Parse "bigdec"))
    | "seq" -> VSeq (bitems c p_kval)
    | "tup" -> VTup (bitems c p_kval)
    | "map" -> VMap (bitems c (fun c -> let k = p_kval c in expect c '~'; let v = p_kval c in (k, v)))
    | _ -> raise (Parse ("value " ^ name))
  end
let carrier_of_string = whole p_carrier
let kval_of_string = whole p_kval

let kerr_name = function KE e -> ser_err_name e | KE_ValueOverflow -> "ValueOverflow" | KE_IllTyped -> "IllTyped"
let row_err_name = function
  | RE_TooManyValues -> "TooManyValues" | RE_WrongColumnCount -> "WrongColumnCount" | RE_Ser e -> kerr_name e
let tck_name = function
  | TE_MismatchedType -> "MismatchedType" | TE_NotSetOrList -> "NotSetOrList" | TE_NotSet -> "NotSet"
  | TE_NotVector -> "NotVector" | TE_NotMap -> "NotMap" | TE_NotTuple -> "NotTuple"
  | TE_TupleWrongCount -> "TupleWrongCount" | TE_NotUdt -> "NotUdt"
  | TE_NotDeserializableToVec -> "NotDeserializableToVec" | TE_NoImpl -> "NoImpl"

let typeck_names = ["MismatchedType"; "NotEmptyable"; "NotSetOrList"; "NotMap"; "NotTuple"; "TupleWrongCount";
                    "NotUdt"; "UdtNameMismatch"; "NoSuchFieldInUdt"]
let strip_err s = if String.length s >= 4 && String.sub s 0 4 = "err:" then Some (String.sub s 4 (String.length s - 4)) else None

(* FNV-1a 64 over a byte string given as N list *)
let fnv (l : n list) : string =
  let h = ref 0xcbf29ce484222325L in
  List.iter (fun b -> h := Int64.mul (Int64.logxor !h (Int64.of_int (int_of_n b))) 0x100000001b3L) l;
  Printf.sprintf "#%016Lx" !h

let rec list_len (l : 'a list) acc = match l with [] -> acc | _ :: r -> list_len r (acc + 1)


(* ---------------------------------------------------------------- state of an add_value sequence *)

(* model state: chunks (most recent first), count; plus cached total length and the bytes *)
type st = { cs : n list list; cnt : n; len : int }
let st0 = { cs = []; cnt = N0; len = 0 }

let token_of (res : string) (s : st) : string =
  let bytes = chunks_bytes s.cs in
  let b = if s.len <= 128 then hexstr_of_bytes bytes else fnv bytes in
  (* iter().count(): every chunk must parse as exactly one cell (C17_count says it does) *)
  let iter_ok = List.for_all (fun ch ->
      match sv_iter_go (nat_of_int (list_len ch 0 + 1)) ch with Some [_] -> true | _ -> false) s.cs in
  let it = if iter_ok then Printf.sprintf "%x" (list_len s.cs 0) else "panic" in
  Printf.sprintf "%s/%s/%s/%x/%s" res (hex_of_n s.cnt) it s.len b

let step (s : st) k t v : string * st =
  match add_value_chunks s.cs s.cnt k t v with
  | ((cs', cnt'), None) ->
    let added = (match cs' with ch :: _ -> list_len ch 0 | [] -> 0) in
    ("ok", { cs = cs'; cnt = cnt'; len = s.len + added })
  | ((_, _), Some e) -> ("err:" ^ row_err_name e, s)

(* ---------------------------------------------------------------- property predicates *)
(* All of them are evaluated on the IMPLEMENTATION's answer.  A finding is [known] when it is of
   the known class; the class tag is printed only when, in addition, the implementation's output
   equals the model's (it then IS the known behaviour). *)

type finding = { why : string; known : bool }

let refusal_names = "VectorLen" :: "ValueOverflow" :: typeck_names

(* one serialisation of value v of carrier k at column type t, answered [res] *)
let op_finding k t v (res : string) : finding option =
  if not (has_carrier k v) then None
  else if res = "ok" then begin
    if not (val_fits k t v) then
      Some { why = "accepted a value that is not a value of the column type"; known = val_known k t v }
    else if populated v && not (spec_compat Ser k t) then
      Some { why = "accepted a pair outside the specification"; known = known_class k t }
    else None
  end else match strip_err res with
    | Some e when List.mem e refusal_names && val_fits k t v ->
      Some { why = "refused a value of the column type with " ^ e; known = false }
    | Some e when List.mem e typeck_names && static k && doc_compat Ser k t ->
      Some { why = "refused a documented pair with " ^ e; known = false }
    | _ -> None

(* combine: any finding that is not (known and agreed) makes a plain viol *)
let conclude ~(agrees : bool) ~(model : string) (fs : finding list) : string =
  let tail = if agrees then "" else " ; model=" ^ model in
  match fs with
  | [] -> if agrees then "ok" else "diff model=" ^ model
  | _ ->
    let plain = List.filter (fun f -> not (f.known && agrees)) fs in
    (match plain with
     | f :: _ -> "viol " ^ f.why ^ tail
     | [] -> "viol class=vector-null-element " ^ (List.hd fs).why)

(* the state tokens of a sequence: count = iter everywhere; a failed op leaves count / iter / len /
   bytes as in the previous token; a successful one counts exactly one more; at 65535 nothing is
   accepted any more *)
let tokens_findings (start : (string * string * string * string) option) (toks : string list) : finding list =
  let fields t = String.split_on_char '/' t in
  let bad why = [{ why; known = false }] in
  let hx s = try int_of_string ("0x" ^ s) with _ -> -1 in
  let rec go prev = function
    | [] -> []
    | t :: r ->
      (match fields t with
       | [res; cnt; it; len; b] ->
         let (pc, pi, pl, pb) = (match prev with Some p -> p | None -> ("0", "0", "0", "-")) in
         if cnt <> it then bad ("element_count " ^ cnt ^ " but iter().count() " ^ it ^ " in " ^ t)
         else if strip_err res <> None && (pc, pi, pl, pb) <> (cnt, it, len, b) then
           bad ("state changed by a failed add_value: " ^ t)
         else if res = "ok" && hx cnt <> hx pc + 1 then bad ("a successful add_value did not count one more value: " ^ t)
         else if res = "ok" && hx len < hx pl + 4 then bad ("a successful add_value did not append a cell: " ^ t)
         else if res = "ok" && hx pc >= 65535 then bad ("a value was accepted beyond 65535: " ^ t)
         else if hx pc = 65535 && res <> "err:TooManyValues" && strip_err res <> None then
           bad ("the 65536th value was not refused with TooManyValues: " ^ t)
         else go (Some (cnt, it, len, b)) r
       | _ -> [])     (* malformed / panic tokens: no property, the comparison with the model decides *)
  in go start toks

let rec triples = function
  | c :: t :: v :: r -> (carrier_of_string c, type_of_string t, kval_of_string v) :: triples r
  | [] -> []
  | _ -> raise (Parse "operation triples")

(* ---------------------------------------------------------------- verdicts *)

let prefix = [n_of_int 0xc1; n_of_int 0xc2; n_of_int 0xc3]

let res_of tok = match String.split_on_char '/' tok with r :: _ -> r | [] -> tok

let tck_names = ["MismatchedType"; "NotSetOrList"; "NotSet"; "NotVector"; "NotMap"; "NotTuple"; "TupleWrongCount";
                 "NotUdt"; "NotDeserializableToVec"]

let rec take n l = if n = 0 then ([], l) else (match l with x :: r -> let (a, b) = take (n - 1) r in (x :: a, b) | [] -> raise (Parse "too few fields"))

let verdict case impl =
  match case, impl with
  | ["S"; ws; cs; ts; vs], [ires; ibuf] ->
    let k = carrier_of_string cs and t = type_of_string ts and v = kval_of_string vs in
    let ws = (ws = "1") in
    let (mb, me) = ser_buf k ws t v prefix in
    let mres = (match me with None -> "ok" | Some e -> "err:" ^ kerr_name e) in
    let mbuf = hexstr_of_bytes mb in
    let agrees = mres = ires && mbuf = ibuf in
    let fs = (match op_finding k t v ires with Some f -> [f] | None -> []) in
    conclude ~agrees ~model:(mres ^ " " ^ mbuf) fs
  | ["D"; cs; ts], [ires] ->
    let k = carrier_of_string cs and t = type_of_string ts in
    (match deser_check k t with
     | Some TE_NoImpl -> "error carrier-has-no-deserialize-impl-in-the-model"
     | r ->
       let mres = (match r with None -> "ok" | Some e -> "err:" ^ tck_name e) in
       let recognised = ires = "ok" || (match strip_err ires with Some e -> List.mem e tck_names | None -> false) in
       if not (deser_impl k) then "error deser_impl-false"
       else
         let fs = if recognised && not (deser_cell_ok k t (ires = "ok")) then
             [{ why = (if ires = "ok" then "type_check accepted a pair outside the documentation"
                       else "type_check refused a documented pair with " ^ ires); known = false }] else [] in
         conclude ~agrees:(mres = ires) ~model:mres fs)
  | "A" :: ops, toks ->
    let ops = triples ops in
    let (_, mtoks) = List.fold_left (fun (s, acc) (k, t, v) ->
        let (res, s') = step s k t v in (s', token_of res s' :: acc)) (st0, []) ops in
    let mtoks = List.rev mtoks in
    let agrees = mtoks = toks in
    let per_op = if List.length toks = List.length ops then
        List.concat (List.map2 (fun (k, t, v) tok -> match op_finding k t v (res_of tok) with Some f -> [f] | None -> []) ops toks)
      else [] in
    conclude ~agrees ~model:(String.concat " " mtoks) (tokens_findings None toks @ per_op)
  | "X" :: rep :: c1 :: t1 :: v1 :: others, tok1 :: toks ->
    let rep = int_of_string ("0x" ^ rep) in
    let (k1, t1, v1) = (carrier_of_string c1, type_of_string t1, kval_of_string v1) in
    let ops = triples others in
    let s = ref st0 and last = ref "ok" in
    for _ = 1 to rep do let (r, s') = step !s k1 t1 v1 in s := s'; last := r done;
    let m1 = token_of !last !s in
    let (_, mtoks) = List.fold_left (fun (s, acc) (k, t, v) ->
        let (res, s') = step s k t v in (s', token_of res s' :: acc)) (!s, []) ops in
    let mtoks = m1 :: List.rev mtoks in
    let itoks = tok1 :: toks in
    let agrees = mtoks = itoks in
    (* the first token is the state after [rep] adds: it must count them all *)
    let first = (match String.split_on_char '/' tok1 with
        | [r1; cnt; it; _; _] ->
          if cnt <> it then [{ why = "element_count " ^ cnt ^ " but iter().count() " ^ it; known = false }]
          else if r1 = "ok" && rep >= 1 && rep <= 65535 && cnt <> Printf.sprintf "%x" rep && val_fits k1 t1 v1 then
            [{ why = "after " ^ string_of_int rep ^ " accepted values the count is " ^ cnt; known = false }]
          else []
        | _ -> []) in
    (* the repeated first operation is judged by the property predicates like every other one
       (its result is that of the last of the [rep] adds) *)
    let first = first @ (match String.split_on_char '/' tok1 with
        | r1 :: _ when rep >= 1 && r1 <> "err:TooManyValues" ->
          (match op_finding k1 t1 v1 r1 with Some f -> [f] | None -> [])
        | _ -> []) in
    let start = (match String.split_on_char '/' tok1 with [_; c; i; l; b] -> Some (c, i, l, b) | _ -> None) in
    let per_op = if List.length toks = List.length ops then
        List.concat (List.map2 (fun (k, t, v) tok ->
            if res_of tok = "err:TooManyValues" then [] else
            match op_finding k t v (res_of tok) with Some f -> [f] | None -> []) ops toks)
      else [] in
    conclude ~agrees ~model:(String.concat " " mtoks) (first @ tokens_findings start toks @ per_op)
  | "R" :: ncols :: rest, [ires] ->
    let ncols = int_of_string ("0x" ^ ncols) in
    let (cols, rest) = take ncols rest in
    let cols = List.map type_of_string cols in
    let vals = (match rest with
        | _nvals :: r ->
          let rec pairs = function
            | c :: v :: r -> (carrier_of_string c, kval_of_string v) :: pairs r
            | [] -> [] | _ -> raise (Parse "R vals") in
          pairs r
        | [] -> raise (Parse "R nvals")) in
    let mres = (match from_row cols vals with
        | Err e -> "err:" ^ row_err_name e
        | Ok s ->
          let b = s.sv_bytes in
          let len = list_len b 0 in
          let it = (match sv_iter s with Some cells -> Printf.sprintf "%x" (list_len cells 0) | None -> "panic") in
          Printf.sprintf "ok/%s/%s/%x/%s" (hex_of_n s.sv_count) it len (if len <= 128 then hexstr_of_bytes b else fnv b)) in
    let same_count = List.length cols = List.length vals in
    let all_fit = same_count && List.for_all2 (fun t (k, v) -> (not (has_carrier k v)) || val_fits k t v) cols vals in
    let all_well = List.for_all (fun (k, v) -> has_carrier k v) vals in
    let bad why = [{ why; known = false }] in
    let fs = (match String.split_on_char '/' ires with
        | ["ok"; cnt; it; _; _] ->
          if cnt <> it then bad ("element_count " ^ cnt ^ " but iter().count() " ^ it)
          else if cnt <> Printf.sprintf "%x" (List.length vals) then bad "count differs from the number of values"
          else if not same_count then bad "a row with the wrong number of values was accepted"
          else if all_well then
            List.concat (List.map2 (fun t (k, v) -> match op_finding k t v "ok" with Some f -> [f] | None -> []) cols vals)
          else []
        | [e] when e = "err:WrongColumnCount" && same_count -> bad "a row with the right number of values was refused with WrongColumnCount"
        | [e] when all_well && all_fit && (match strip_err e with Some x -> List.mem x refusal_names | None -> false) ->
          bad ("a row of values of the column types was refused with " ^ e)
        | _ -> []) in
    conclude ~agrees:(mres = ires) ~model:mres fs
  | "T" :: ncols :: rest, [ires] ->
    let ncols = int_of_string ("0x" ^ ncols) in
    let (cols, rest) = take ncols rest in
    let cols = List.map type_of_string cols in
    (match rest with
     | [rc; nrows] ->
       let ks = (match carrier_of_string rc with KTuple ks -> ks | _ -> raise (Parse "row carrier")) in
       let nrows = n_of_hex nrows in
       let mres = (match typed_rows ks cols nrows with
           | Ok n -> "ok:" ^ hex_of_n n
           | Err RK_WrongColumnCount -> "err:WrongColumnCount"
           | Err (RK_Column (i, e)) -> Printf.sprintf "err:col%d:%s" (int_of_nat i) (tck_name e)
           | Err RK_Ok -> "error") in
       if not (List.for_all deser_impl ks) then "error deser_impl-false" else
       (* the specification, not the model: the documented compatibility of every column *)
       let documented = List.length ks = List.length cols && List.for_all2 (fun k t -> doc_compat De k t) ks cols in
       let is_ok = String.length ires >= 3 && String.sub ires 0 3 = "ok:" in
       (* ok:<items decoded>:<items that failed to decode>: together the rows the iterator was given *)
       let ires_n = (match String.split_on_char ':' ires with
           | ["ok"; a; b] -> (try "ok:" ^ Printf.sprintf "%x" (int_of_string ("0x" ^ a) + int_of_string ("0x" ^ b)) with _ -> ires)
           | _ -> ires) in
       let is_tck = (match strip_err ires with
           | Some "WrongColumnCount" -> true
           | Some e -> (match String.split_on_char ':' e with [_; leaf] -> List.mem leaf tck_names | _ -> false)
           | None -> false) in
       let fs =
         if is_ok && not documented then
           [{ why = "a typed row iterator was built over columns the row type does not fit"; known = false }]
         else if is_tck && documented then [{ why = "a documented row type was refused with " ^ ires; known = false }]
         else [] in
       conclude ~agrees:(mres = ires_n) ~model:mres fs
     | _ -> "error bad T case")
  | "N" :: _mapkind :: ncols :: rest, [ires] ->
    let ncols = int_of_string ("0x" ^ ncols) in
    let (colf, rest) = take (2 * ncols) rest in
    let rec cols_of = function n :: t :: r -> (bytes_of_hexstr n, type_of_string t) :: cols_of r | _ -> [] in
    let cols = cols_of colf in
    let kvs = (match rest with
        | _nvals :: r ->
          let rec go = function
            | k :: c :: v :: r -> (bytes_of_hexstr k, (carrier_of_string c, kval_of_string v)) :: go r
            | [] -> [] | _ -> raise (Parse "N vals") in
          go r
        | [] -> raise (Parse "N nvals")) in
    let find nm = (try Some (List.assoc nm kvs) with Not_found -> None) in
    let mres = (match from_typed_row cols (RMap kvs) with
        | Ok s ->
          let b = s.sv_bytes in
          let len = list_len b 0 in
          let it = (match sv_iter s with Some cells -> Printf.sprintf "%x" (list_len cells 0) | None -> "panic") in
          Printf.sprintf "ok/%s/%s/%x/%s" (hex_of_n s.sv_count) it len (if len <= 128 then hexstr_of_bytes b else fnv b)
        | Err (ValueMissingForColumn nm) -> "err:ValueMissingForColumn:" ^ hexstr_of_bytes nm
        | Err (NoColumnWithName nm) -> "err:NoColumnWithName:" ^ hexstr_of_bytes nm
        | Err RowTooManyValues -> "err:TooManyValues"
        | Err (WrongColumnCount (_, _)) -> "err:WrongColumnCount"
        | Err (ColumnSerializationFailed _) ->
          (* the leaf of the first column (in column order) whose value does not serialise *)
          let rec first = function
            | [] -> "err:?"
            | (nm, t) :: r ->
              (match find nm with
               | Some (k, v) -> (match snd (ser_buf k true t v []) with Some e -> "err:" ^ kerr_name e | None -> first r)
               | None -> first r) in
          first cols) in
    let keys = List.map fst kvs and names = List.map fst cols in
    let all_bound = List.for_all (fun nm -> List.mem nm keys) names in
    let all_named = List.for_all (fun k -> List.mem k names) keys in
    let bound = List.filter_map (fun (nm, t) -> match find nm with Some (k, v) -> Some (t, k, v) | None -> None) cols in
    let all_well = List.for_all (fun (_, k, v) -> has_carrier k v) bound in
    let all_fit = List.for_all (fun (t, k, v) -> val_fits k t v) bound in
    let bad why = [{ why; known = false }] in
    let fs = (match String.split_on_char '/' ires with
        | ["ok"; cnt; it; _; _] ->
          if cnt <> it then bad ("element_count " ^ cnt ^ " but iter().count() " ^ it)
          else if cnt <> Printf.sprintf "%x" (List.length cols) then bad "count differs from the number of columns"
          else if not all_bound then bad "a row without a value for some column was accepted"
          else if not all_named then bad "a row with a key that names no column was accepted"
          else if all_well then
            List.concat (List.map (fun (t, k, v) -> match op_finding k t v "ok" with Some f -> [f] | None -> []) bound)
          else []
        | [e] ->
          (match String.split_on_char ':' e with
           | ["err"; "ValueMissingForColumn"; hx] when List.mem (bytes_of_hexstr hx) keys -> bad ("refused with " ^ e ^ " although the map has that key")
           | ["err"; "NoColumnWithName"; hx] when List.mem (bytes_of_hexstr hx) names || not (List.mem (bytes_of_hexstr hx) keys) ->
             bad ("refused with " ^ e ^ " although a column has that name (or no such key exists)")
           | ["err"; leaf] when all_bound && all_named && all_well && all_fit && List.mem leaf refusal_names ->
             bad ("a row of values of the column types, bound by name, was refused with " ^ e)
           | _ -> [])
        | _ -> []) in
    conclude ~agrees:(mres = ires) ~model:mres fs
  | "C" :: parts, [ires] ->
    let sizes = List.map (fun p -> n_of_hex (String.sub p 1 (String.length p - 1))) parts in
    let total = List.fold_left (fun a p -> a + int_of_n p) 0 sizes in
    let mres = (match closure_count sizes with
        | Err e -> "err:" ^ row_err_name e
        | Ok n ->
          let cnt = int_of_n n in
          let rec cells i acc = if i = 0 then acc else cells (i - 1) (null_marker @ acc) in
          let b = cells cnt [] in
          Printf.sprintf "ok/%x/%x/%x/%s" cnt cnt (4 * cnt) (if 4 * cnt <= 128 then hexstr_of_bytes b else fnv b)) in
    let bad why = [{ why; known = false }] in
    let fs = (match String.split_on_char '/' ires with
        | ["ok"; cnt; it; _; _] ->
          if cnt <> it then bad ("element_count " ^ cnt ^ " but iter().count() " ^ it)
          else if cnt <> Printf.sprintf "%x" total then bad (Printf.sprintf "%d values were written, the count says %s" total cnt)
          else []
        | ["err:TooManyValues"] when total <= 65535 -> bad "TooManyValues for at most 65535 values"
        | _ -> []) in
    conclude ~agrees:(mres = ires) ~model:mres fs
  | _ -> "error unknown-case"

let () = run_lines verdict
