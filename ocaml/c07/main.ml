(* Shared glue between text case files and the extracted Coq datatypes.  This file is
   concatenated in front of each property's driver (the extracted module is [Model]).
   All numbers travel as hexadecimal (optionally signed), so nothing is truncated to OCaml's
   63-bit ints: positives are rebuilt bit by bit. *)
open Model

let hexval c = match c with
  | '0'..'9' -> Char.code c - 48 | 'a'..'f' -> Char.code c - 87 | 'A'..'F' -> Char.code c - 55
  | _ -> failwith ("bad hex digit " ^ String.make 1 c)

(* bits, most significant first *)
let bits_of_hex (s : string) : bool list =
  let l = ref [] in
  String.iter (fun c -> let v = hexval c in
    l := (v land 1 = 1) :: (v land 2 = 2) :: (v land 4 = 4) :: (v land 8 = 8) :: !l) s;
  List.rev !l |> fun bits ->
  let rec strip = function false :: r -> strip r | l -> l in strip bits

let n_of_hex (s : string) : n =
  match bits_of_hex s with
  | [] -> N0
  | _ :: rest -> Npos (List.fold_left (fun p b -> if b then XI p else XO p) XH rest)

let z_of_hex (s : string) : z =
  let neg = String.length s > 0 && s.[0] = '-' in
  let body = if neg then String.sub s 1 (String.length s - 1) else s in
  match n_of_hex body with
  | N0 -> Z0
  | Npos p -> if neg then Zneg p else Zpos p

let hex_of_pos (p : positive) : string =
  let rec bits p acc = match p with
    | XH -> true :: acc | XO q -> bits q (false :: acc) | XI q -> bits q (true :: acc) in
  let b = bits p [] in
  let pad = (4 - List.length b mod 4) mod 4 in
  let b = List.init pad (fun _ -> false) @ b in
  let buf = Buffer.create 16 in
  let rec go = function
    | b3 :: b2 :: b1 :: b0 :: r ->
      let v = (if b3 then 8 else 0) + (if b2 then 4 else 0) + (if b1 then 2 else 0) + (if b0 then 1 else 0) in
      Buffer.add_char buf "0123456789abcdef".[v]; go r
    | [] -> () | _ -> assert false in
  go b; Buffer.contents buf

let hex_of_n = function N0 -> "0" | Npos p -> hex_of_pos p
let hex_of_z = function Z0 -> "0" | Zpos p -> hex_of_pos p | Zneg p -> "-" ^ hex_of_pos p

let rec nat_of_int (i : int) : nat = if i <= 0 then O else S (nat_of_int (i - 1))
let rec int_of_nat (n : nat) : int = match n with O -> 0 | S k -> 1 + int_of_nat k

let n_of_int (i : int) : n = n_of_hex (Printf.sprintf "%x" i)
let int_of_n (v : n) : int = int_of_string ("0x" ^ hex_of_n v)

let split_on c s = if s = "" then [] else String.split_on_char c s

(* comma-separated hex list; "-" is the empty list *)
let nlist_of_string (s : string) : n list =
  if s = "-" then [] else List.map n_of_hex (split_on ',' s)
let string_of_nlist (l : n list) : string =
  if l = [] then "-" else String.concat "," (List.map hex_of_n l)

(* byte strings: contiguous hex pairs; "-" is empty.  As N list (each < 256). *)
let bytes_of_hexstr (s : string) : n list =
  if s = "-" then [] else
  List.init (String.length s / 2) (fun i -> n_of_int (hexval s.[2*i] * 16 + hexval s.[2*i+1]))
let hexstr_of_bytes (l : n list) : string =
  if l = [] then "-" else String.concat "" (List.map (fun b -> Printf.sprintf "%02x" (int_of_n b)) l)

(* OCaml string <-> char list (Coq [string] under ExtrOcamlString) *)
let chars_of_string (s : string) : char list = List.init (String.length s) (String.get s)
let string_of_chars (l : char list) : string = String.of_seq (List.to_seq l)
let chars_of_hexstr (s : string) : char list =
  if s = "-" then [] else
  List.init (String.length s / 2) (fun i -> Char.chr (hexval s.[2*i] * 16 + hexval s.[2*i+1]))

(* Driver main loop: each input line is "<case> | <impl output>"; [f case impl] returns the
   verdict line.  Exceptions are reported per line, never abort the run. *)
let run_lines (f : string list -> string list -> string) : unit =
  let split_ws s = List.filter (fun x -> x <> "") (String.split_on_char ' ' s) in
  (try
    while true do
      let line = input_line stdin in
      let verdict =
        try
          match String.index_opt line '|' with
          | None -> f (split_ws line) []
          | Some i ->
            f (split_ws (String.sub line 0 i))
              (split_ws (String.sub line (i + 1) (String.length line - i - 1)))
        with e -> "error driver-exception " ^ Printexc.to_string e in
      print_endline verdict
    done
  with End_of_file -> ())
(* C07 correspondence driver: evaluates the extracted pager model on the harness' cases.
   case : <kind> <mode s|c> <api q|e> <cons full|slowMS|dropN> <nodes> <policy> <script>
   impl : <items> <keys>
   script : pages joined by ';' ; page = <faults>/<resp>
     faults : '-' | f(,f)*   f = C | T | D<ms> (delay, not a fault) | E<hexcode><s|n|d|i>
     resp   : R<rows>:<state> | V | X    rows = '-' | hex(.hex)*   state = N | '-' | hexbytes
   items : '-' | i(,i)*  i = r<hex> | e<hex> | $ ; or f<hex> = the constructor returned this error
   keys  : 'none' | k(,k)*  k = <page hex>:<state> *)
let parse_fault (s : string) : fault option =
  match s.[0] with
  | 'C' -> Some FConnFail
  | 'T' -> Some FTimeout
  | 'D' -> None
  | 'E' ->
    let l = String.length s in
    let d = match s.[l - 1] with
      | 's' -> DSame | 'n' -> DNext | 'd' -> DDont | 'i' -> DIgnore
      | _ -> failwith "bad decision" in
    Some (FErr (n_of_hex (String.sub s 1 (l - 2)), d))
  | _ -> failwith ("bad fault " ^ s)

let parse_state (s : string) : n list option =
  if s = "N" then None else Some (bytes_of_hexstr s)

let parse_resp (s : string) : response =
  match s.[0] with
  | 'V' -> RVoid
  | 'X' -> RNonResult
  | 'R' ->
    let body = String.sub s 1 (String.length s - 1) in
    let i = String.index body ':' in
    let rows = String.sub body 0 i and st = String.sub body (i + 1) (String.length body - i - 1) in
    let rows = if rows = "-" then [] else List.map n_of_hex (split_on '.' rows) in
    RRows (rows, parse_state st)
  | _ -> failwith ("bad response " ^ s)

let parse_script (nodes : int) (s : string) : pscript list =
  let plan = List.init nodes n_of_int in
  List.map (fun pg ->
      let i = String.index pg '/' in
      let fs = String.sub pg 0 i and r = String.sub pg (i + 1) (String.length pg - i - 1) in
      let fs = if fs = "-" then [] else List.filter_map parse_fault (split_on ',' fs) in
      { ps_plan = plan; ps_faults = fs; ps_resp = parse_resp r })
    (split_on ';' s)

let parse_items (s : string) : bool * item list =
  if s = "-" then (false, [])
  else if s.[0] = 'f' then (true, [IErr (n_of_hex (String.sub s 1 (String.length s - 1))); IEnd])
  else (false, List.map (fun t ->
      if t = "$" then IEnd
      else let v = n_of_hex (String.sub t 1 (String.length t - 1)) in
        match t.[0] with 'r' -> IRow v | 'e' -> IErr v | _ -> failwith ("bad item " ^ t))
      (split_on ',' s))

let parse_keys (s : string) : (nat * n list option) list =
  if s = "none" then []
  else List.map (fun t ->
      let i = String.index t ':' in
      (nat_of_int (int_of_string ("0x" ^ String.sub t 0 i)),
       parse_state (String.sub t (i + 1) (String.length t - i - 1))))
      (split_on ',' s)

let show_item = function
  | IRow v -> "r" ^ hex_of_n v | IErr v -> "e" ^ hex_of_n v | IEnd -> "$"
let show_items l = if l = [] then "-" else String.concat "," (List.map show_item l)
let show_state = function None -> "N" | Some b -> hexstr_of_bytes b
let show_keys l =
  if l = [] then "none"
  else String.concat "," (List.map (fun (i, st) -> Printf.sprintf "%x:%s" (int_of_nat i) (show_state st)) l)

let model_string m script =
  let (rq, o) = seq_run m script in
  let o = match o with
    | OStuck -> "stuck"
    | OFail e -> "f" ^ hex_of_n e
    | OStream l -> show_items l in
  o ^ " " ^ show_keys (List.map req_key rq)

let verdict case impl =
  match case, impl with
  | [_kind; mode; _api; cons; nodes; _policy; script], [items; keys] ->
    let m = if mode = "c" then MConn else MSession in
    let script = parse_script (int_of_string ("0x" ^ nodes)) script in
    let (ctor_failed, oi) = parse_items items in
    let ok = parse_keys keys in
    if String.length cons >= 4 && String.sub cons 0 4 = "drop" then begin
      let n = nat_of_int (int_of_string ("0x" ^ String.sub cons 4 (String.length cons - 4))) in
      if (not ctor_failed) && accept_drop m script n oi ok then "ok"   (* C07_accept_drop_sound *)
      else if not (prop_drop_ok m script oi ok) then
        "viol spec=" ^ show_items (spec_stream (script_pages script)) ^ " " ^ show_keys (spec_requests m script)
      else "diff model=" ^ model_string m script
    end else begin
      let model_ctor_failed = match snd (seq_run m script) with OFail _ -> true | _ -> false in
      if accept_full m script oi ok && ctor_failed = model_ctor_failed then "ok"   (* C07_accept_full_sound *)
      else if not (prop_full_ok m script oi ok) then
        (match fail_point m script with
         | Some (k, e) when not (good_script m script) ->
           "viol spec=" ^ show_items (spec_error_stream (script_pages script) k e)
         | _ -> "viol spec=" ^ show_items (spec_stream (script_pages script)) ^ " "
                ^ show_keys (spec_requests m script))
      else "diff model=" ^ model_string m script
    end
  | _ -> "error unknown-case"

let () = run_lines verdict
