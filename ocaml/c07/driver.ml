(* C07 correspondence driver: evaluates the extracted pager model on the harness' cases.
   case : <kind> <mode s|c> <api q|e|E> <cons full|slowMS|jit|dropN|st<state>> <nodes> <policy> <script>
   impl : <items> <keys>      (kind P, cons st<state>: <p<rows>:<next>|pv|e<code>> <keys>)
   script : pages joined by ';' ; page = <faults>/<resp>
     faults : '-' | f(,f)*   f = C | T | U (UNPREPARED + transparent re-prepare) |
              D<ms> (delay, not a fault) | E<hexcode><s|n|d|i>
     resp   : R<rows>:<state> | V | X    rows = '-' | hex(.hex)*   state = N | '-' | hexbytes
   items : '-' | i(,i)*  i = r<hex> | e<hex> | $ ; or f<hex> = the constructor returned this error
   keys  : 'none' | k(,k)*  k = <page hex>:<state>:<mock node hex>
   one verdict line per input line: ok[ ...] | diff ... | viol ... | error ... *)
let parse_fault (s : string) : fault option =
  match s.[0] with
  | 'C' -> Some FConnFail
  | 'T' -> Some FTimeout
  | 'U' -> Some FUnprep
  | 'D' -> None
  | 'E' ->
    let l = String.length s in
    let d = match s.[l - 1] with
      | 's' -> DSame | 'n' -> DNext | 'd' -> DDont | 'i' -> DIgnore
      | _ -> failwith "bad decision" in
    Some (FErr (n_of_hex (String.sub s 1 (l - 2)), d))
  | _ -> failwith ("bad fault " ^ s)

let parse_state (s : string) : n list option =
  if s = "N" then None else Some (bytes_of_hexstr s)

let parse_resp (s : string) : response =
  match s.[0] with
  | 'V' -> RVoid
  | 'X' -> RNonResult
  | 'R' ->
    let body = String.sub s 1 (String.length s - 1) in
    let i = String.index body ':' in
    let rows = String.sub body 0 i and st = String.sub body (i + 1) (String.length body - i - 1) in
    let rows = if rows = "-" then [] else List.map n_of_hex (split_on '.' rows) in
    RRows (rows, parse_state st)
  | _ -> failwith ("bad response " ^ s)

let parse_script (nodes : int) (s : string) : pscript list =
  let plan = List.init nodes n_of_int in
  List.map (fun pg ->
      let i = String.index pg '/' in
      let fs = String.sub pg 0 i and r = String.sub pg (i + 1) (String.length pg - i - 1) in
      let fs = if fs = "-" then [] else List.filter_map parse_fault (split_on ',' fs) in
      { ps_plan = plan; ps_faults = fs; ps_resp = parse_resp r })
    (split_on ';' s)

let parse_items (s : string) : bool * item list =
  if s = "-" then (false, [])
  else if s.[0] = 'f' then (true, [IErr (n_of_hex (String.sub s 1 (String.length s - 1))); IEnd])
  else (false, List.map (fun t ->
      if t = "$" then IEnd
      else let v = n_of_hex (String.sub t 1 (String.length t - 1)) in
        match t.[0] with 'r' -> IRow v | 'e' -> IErr v | _ -> failwith ("bad item " ^ t))
      (split_on ',' s))

let parse_keys (s : string) : (nat * n list option) list =
  if s = "none" then []
  else List.map (fun t ->
      match split_on ':' t with
      | pg :: st :: _ -> (nat_of_int (int_of_string ("0x" ^ pg)), parse_state st)
      | _ -> failwith ("bad key " ^ t))
      (split_on ',' s)

(* the mock node that received each request, grouped by page (third field of a key) *)
let parse_nodes (s : string) : (int * n) list option =
  if s = "none" then Some []
  else
    let l = List.map (fun t ->
        match split_on ':' t with
        | [pg; _; nd] -> Some (int_of_string ("0x" ^ pg), n_of_hex nd)
        | _ -> None) (split_on ',' s) in
    if List.mem None l then None else Some (List.filter_map (fun x -> x) l)
let group_nodes (l : (int * n) list) : n list list =
  let rec go cur acc = function
    | [] -> List.rev (match cur with None -> acc | Some (_, g) -> List.rev g :: acc)
    | (pg, nd) :: r ->
      (match cur with
       | Some (p, g) when p = pg -> go (Some (p, nd :: g)) acc r
       | Some (_, g) -> go (Some (pg, [nd])) (List.rev g :: acc) r
       | None -> go (Some (pg, [nd])) acc r) in
  go None [] l

let show_item = function
  | IRow v -> "r" ^ hex_of_n v | IErr v -> "e" ^ hex_of_n v | IEnd -> "$"
let show_items l = if l = [] then "-" else String.concat "," (List.map show_item l)
let show_state = function None -> "N" | Some b -> hexstr_of_bytes b
let show_keys l =
  if l = [] then "none"
  else String.concat "," (List.map (fun (i, st) -> Printf.sprintf "%x:%s" (int_of_nat i) (show_state st)) l)

let model_string m script =
  let (rq, o) = seq_run m script in
  let o = match o with
    | OStuck -> "stuck"
    | OFail e -> "f" ^ hex_of_n e
    | OStream l -> show_items l in
  o ^ " " ^ show_keys (List.map req_key rq)

let show_expected = function None -> "none(server-silent)" | Some l -> show_items l

(* Verdicts.  `ok` only through an acceptor proved sound for the property predicate
   (C07_accept_full_sound / C07_accept_drop_sound: accept => prop_*_ok, outside class O1).
   `viol` only when the property predicate (prop_full_ok / prop_drop_ok: expected stream from the
   property text + every request carries the previous page's state) fails on the implementation's
   own output.  Everything else is `diff`.  Class O1 (known_ignored): the code's silent end is a
   property violation, reported with its known-finding class. *)
let verdict case impl =
  match case, impl with
  | [_kind; mode; _api; cons; nodes; _policy; script], obs ->
    let m = if mode = "c" then MConn else MSession in
    let nn = int_of_string ("0x" ^ nodes) in
    let script = parse_script nn script in
    let n = nat_of_int nn in
    if not (plans_ok (List.init nn n_of_int) script) then "error bad-plans" else
    let exp_strict = expected true m n true script in
    let known = known_ignored m n script in
    let is_single = String.length cons >= 2 && String.sub cons 0 2 = "st" in
    if is_single then begin
      (* one page resumed with the caller's paging state (C07_single_page_outcome, acceptor accept_single).  The property
         sentence here: every request carries exactly that state -> `viol`; any other difference
         from the model (result, number of attempts) -> `diff` *)
      match obs, script with
      | "error" :: why, _ -> "ok not-run " ^ String.concat " " why
      | "replay-error" :: why, _ -> "diff not-run-in-replay " ^ String.concat " " why
      | [res; keys], [ps] ->
        let st = parse_state (String.sub cons 2 (String.length cons - 2)) in
        let ok = parse_keys keys in
        (match parse_nodes keys with
         | None -> "error bad-keys"
         | Some nl ->
           let obs_res =
             if res = "pv" then Some SVoid
             else if String.length res > 1 && res.[0] = 'e' then Some (SErr (n_of_hex (String.sub res 1 (String.length res - 1))))
             else if String.length res > 1 && res.[0] = 'p' then
               (match split_on ':' (String.sub res 1 (String.length res - 1)) with
                | [rows; nx] ->
                  let rows = if rows = "-" then [] else List.map n_of_hex (split_on '.' rows) in
                  Some (SRows (rows, parse_state nx))
                | _ -> None)
             else None in
           (* ok only through accept_single (C07_accept_single_unfolds); viol only when the property
              sentence -- every request carries the caller's state -- fails (prop_single_ok) *)
           match obs_res with
           | Some r when accept_single st ps r ok (List.map snd nl) -> "ok"
           | _ ->
             if not (prop_single_ok st ok) then "viol single-page request without the caller's state spec=" ^ show_state st
             else
               let (mkeys, mr) = single_run st ps in
               "diff model=" ^ (match single_result mr with
                   | SRows (rows, nx) -> "p" ^ (if rows = [] then "-" else String.concat "." (List.map hex_of_n rows)) ^ ":" ^ show_state nx
                   | SVoid -> "pv" | SErr e -> "e" ^ hex_of_n e) ^ " " ^ show_keys mkeys)
      | _ -> "error bad-single-case"
    end else
    (match obs with
     | "replay-error" :: why -> "diff not-run-in-replay " ^ String.concat " " why
     | "error" :: why ->
       (* the case did not run (environment: group failed, statement could not be prepared, ...):
          counted by checks/c07.py, which fails the check above a small cap *)
       "ok not-run " ^ String.concat " " why
     | "hang" :: _ ->
       (* "and then terminates": a read that never finishes violates the property whenever the
          script lets the server answer every request *)
       if exp_strict <> None then "viol hang spec=" ^ show_expected exp_strict else "diff hang model=stuck"
     | [items; keys] ->
       let (ctor_failed, oi) = parse_items items in
       let ok = parse_keys keys in
       let is_drop = String.length cons >= 4 && String.sub cons 0 4 = "drop" in
       (* a constructor error leaves nothing to drop: such observations are full reads *)
       let as_drop = is_drop && not ctor_failed && not (ctor_fails m script) in
       let cnt = if is_drop then nat_of_int (int_of_string ("0x" ^ String.sub cons 4 (String.length cons - 4))) else O in
       let prop = if as_drop then prop_drop_ok m n script cnt oi ok else prop_full_ok m n script oi ok in
       let accepts sc =
         if as_drop then accept_drop m sc cnt oi ok
         else accept_full m sc oi ok && ctor_failed = ctor_fails m sc in
       (* Cases with a scripted client-side timeout (T, E) run under a wall-clock bound: when the
          machine stalls, the timeout may strike an earlier attempt.  accept_full_timeout /
          accept_drop_timeout (Coq, C07_early_timeout_sound / C07_drop_timeout_sound: soundness
          only) accept only observations explained by the script with the timeout moved to an
          earlier attempt. *)
       let has_t = List.exists (fun ps -> List.mem FTimeout ps.ps_faults) script in
       (* target identities (Session pagers): the node of every request must follow coordinator
          stability (C07_coordinator_stability: every model run satisfies coord_ok).  Not part of
          the property statement: a mismatch is `diff`.  After an early drop the last page's
          requests may be cut short by the snapshot: of that group only the first request is
          judged (it must go to the node that answered the page before). *)
       let bad_keys = (parse_nodes keys = None) in
       let coord_for sc =
         if m = MConn then true else
           match parse_nodes keys with
           | None -> false
           | Some l ->
             let g = group_nodes l in
             if not as_drop then coord_ok None sc g
             else begin
               match List.rev g with
               | [] -> true
               | lastg :: revfull ->
                 let full = List.rev revfull in
                 coord_ok None sc full &&
                 (match List.rev full, lastg, List.nth_opt sc (List.length full) with
                  | prev :: _, x :: _, Some ps when (match ps.ps_faults with FConnFail :: _ -> false | _ -> true) ->
                    fits (last_opt prev) [] x
                  | _ -> true)
             end in
       let coord_fine = coord_for script in
       let acc = accepts script in
       (* T/E cases: the client may return its timeout error before the frame it queued last has
          reached the mock; the runner waits for 300 ms of silence, but a later arrival cannot be
          excluded.  An observation whose items are those of an explaining environment and whose
          keys are that environment's keys WITHOUT the last request was not fully observed: it is
          counted as not run (capped by checks/c07.py), never `viol`. *)
       let trace_race () =
         has_t &&
         List.exists (fun sc ->
             let (rq, o) = seq_run m sc in
             let mk = List.map req_key rq in
             if as_drop then
               (* same race on a dropping case: with the model's next request appended the
                  observation is accepted by accept_drop *)
               (not (ctor_fails m sc)) && List.length ok < List.length mk &&
               accept_drop m sc cnt oi (ok @ [List.nth mk (List.length ok)])
             else
               ctor_failed = ctor_fails m sc && obs_items o = oi && mk <> [] &&
               ok = List.rev (List.tl (List.rev mk)))
           (script :: early_timeouts script) in
       if bad_keys then "error bad-keys" else
       if known then begin
         (* inside class O1 the acceptor has no soundness theorem: the property predicate itself
            decides (an early drop may end before the point where model and property part).  A
            coordinator mismatch is never more than `diff`. *)
         if prop && acc && not coord_fine then "diff coordinator-stability model=" ^ model_string m script
         else if prop && acc then "ok"
         else if prop then "diff class-O1-script-but-error-surfaced model=" ^ model_string m script
         else if acc && not coord_fine then "diff coordinator-stability class-O1-script model=" ^ model_string m script
         else if acc then "viol class=ignore-write-error-silent-end spec=" ^ show_expected exp_strict
         else "viol spec=" ^ show_expected exp_strict
       end
       else if acc && not coord_fine then "diff coordinator-stability model=" ^ model_string m script
       else if acc then "ok"
       else if as_drop && has_t && accept_drop_timeout m script cnt oi ok then
         (* C07_drop_timeout_sound; the nodes are judged against an environment that explains the
            observation, like any drop case *)
         (if List.exists (fun sc -> accept_drop m sc cnt oi ok && not (ctor_fails m sc) && coord_for sc) (early_timeouts script)
          then "ok early-timeout drop" else "diff coordinator-stability (early-timeout) model=" ^ model_string m script)
       else if (not as_drop) && has_t && accept_full_timeout m script ctor_failed oi ok then
         (if List.exists (fun sc -> accept_full m sc oi ok && ctor_failed = ctor_fails m sc && coord_for sc)
              (early_timeouts script)
          then "ok early-timeout full"
          else "diff coordinator-stability (early-timeout) model=" ^ model_string m script)
       else if trace_race () then "ok not-run trace-race"
       else if not prop then "viol spec=" ^ show_expected exp_strict
       else "diff model=" ^ model_string m script
     | _ -> "error bad-observation")
  | _ -> "error unknown-case"

let () = run_lines verdict
