(* C06 correspondence driver: evaluates the extracted retry-session model (Model/Retry.v) and
   the fiber model (Model/Fiber.v) on the harness' cases.

   history cases  `<X1|X2|X3|R> <policy> <step>...  | <decision>...`
     the model's [decide_history] on one fresh session must give exactly the observed
     decisions (kind and carried consistency).  On a mismatch the property predicates
     [prop_decision_ok] / [prop_history_ok] (C06_decide_prop_ok, C06_history_prop_ok) are
     evaluated on the IMPLEMENTATION's decisions: a failure is a `viol`, otherwise `diff`.
   fiber cases    `F <policy> <idem> <cl0> <plan length> <outcome>... | <event>... => <result>`
     the real execution loop, driven through the verif hook with fake targets, must go through
     exactly the events of [fiber] and return its result. *)

let cl_of = function
  | "Any" -> CAny | "One" -> COne | "Two" -> CTwo | "Three" -> CThree | "Quorum" -> CQuorum
  | "All" -> CAll | "LocalQuorum" -> CLocalQuorum | "EachQuorum" -> CEachQuorum
  | "LocalOne" -> CLocalOne | "Serial" -> CSerial | "LocalSerial" -> CLocalSerial
  | s -> failwith ("bad consistency " ^ s)
let cl_name = function
  | CAny -> "Any" | COne -> "One" | CTwo -> "Two" | CThree -> "Three" | CQuorum -> "Quorum"
  | CAll -> "All" | CLocalQuorum -> "LocalQuorum" | CEachQuorum -> "EachQuorum"
  | CLocalOne -> "LocalOne" | CSerial -> "Serial" | CLocalSerial -> "LocalSerial"
let wt_of = function
  | "Simple" -> WSimple | "Batch" -> WBatch | "UnloggedBatch" -> WUnloggedBatch
  | "Counter" -> WCounter | "BatchLog" -> WBatchLog | "Cas" -> WCas | "View" -> WView
  | "Cdc" -> WCdc | "Other" -> WOther | s -> failwith ("bad write type " ^ s)
let policy_of = function
  | "Default" -> PDefault | "Downgrading" -> PDowngrading | "Fallthrough" -> PFallthrough
  | s -> failwith ("bad policy " ^ s)

(* the fields no decision reads (inner consistency, numfailures, codes, kinds) are dropped *)
let err_of (tok : string) : attempt_error =
  let f = Array.of_list (String.split_on_char ':' tok) in
  let z i = z_of_hex f.(i) in
  match f.(0) with
  | "E.SerializationError" -> ESerializationError
  | "E.CqlRequestSerialization" -> ECqlRequestSerialization
  | "E.UnableToAllocStreamId" -> EUnableToAllocStreamId
  | "E.BrokenConnectionError" -> EBrokenConnectionError
  | "E.BodyExtensionsParseError" -> EBodyExtensionsParseError
  | "E.CqlResultParseError" -> ECqlResultParseError
  | "E.CqlErrorParseError" -> ECqlErrorParseError
  | "E.UnexpectedResponse" -> EUnexpectedResponse
  | "E.RepreparedIdChanged" -> ERepreparedIdChanged
  | "E.RepreparedIdMissingInBatch" -> ERepreparedIdMissingInBatch
  | "E.NonfinishedPagingState" -> ENonfinishedPagingState
  | db -> EDbError (match db with
    | "Db.SyntaxError" -> DbSyntaxError | "Db.Invalid" -> DbInvalid
    | "Db.AlreadyExists" -> DbAlreadyExists | "Db.FunctionFailure" -> DbFunctionFailure
    | "Db.AuthenticationError" -> DbAuthenticationError | "Db.Unauthorized" -> DbUnauthorized
    | "Db.ConfigError" -> DbConfigError
    | "Db.Unavailable" -> ignore (cl_of f.(1)); DbUnavailable (z 2, z 3)
    | "Db.Overloaded" -> DbOverloaded | "Db.IsBootstrapping" -> DbIsBootstrapping
    | "Db.TruncateError" -> DbTruncateError
    | "Db.ReadTimeout" -> ignore (cl_of f.(1)); DbReadTimeout (z 2, z 3, f.(4) <> "0")
    | "Db.WriteTimeout" -> ignore (cl_of f.(1)); DbWriteTimeout (z 2, z 3, wt_of f.(4))
    | "Db.ReadFailure" -> DbReadFailure | "Db.WriteFailure" -> DbWriteFailure
    | "Db.Unprepared" -> DbUnprepared | "Db.ServerError" -> DbServerError
    | "Db.ProtocolError" -> DbProtocolError | "Db.RateLimitReached" -> DbRateLimitReached
    | "Db.Other" -> DbOther
    | _ -> failwith ("bad error token " ^ tok))

let ri_of (step : string) : request_info =
  match String.split_on_char '/' step with
  | [i; c; e] -> { ri_error = err_of e; ri_idempotent = (i = "1"); ri_consistency = cl_of c }
  | _ -> failwith ("bad step " ^ step)

let carried_str = function None -> "-" | Some c -> ":" ^ cl_name c
let dec_str = function
  | RetrySameTarget c -> "S" ^ carried_str c
  | RetryNextTarget c -> "N" ^ carried_str c
  | DontRetry -> "D"
  | IgnoreWriteError -> "I"
let dec_of (s : string) : decision =
  let c () = if String.length s >= 2 && s.[1] = ':' then Some (cl_of (String.sub s 2 (String.length s - 2)))
             else if s = "S-" || s = "N-" then None else failwith ("bad decision " ^ s) in
  match s.[0] with
  | 'S' -> RetrySameTarget (c ()) | 'N' -> RetryNextTarget (c ())
  | 'D' when s = "D" -> DontRetry | 'I' when s = "I" -> IgnoreWriteError
  | _ -> failwith ("bad decision " ^ s)

let history p steps impl =
  let p = policy_of p in
  let ris = List.map ri_of steps in
  let model = String.concat " " (List.map dec_str (decide_history (new_session p) ris)) in
  let obs = String.concat " " impl in
  if obs = model then "ok"
  else
    (* the property on the implementation's own output *)
    match (try Some (List.map dec_of impl) with _ -> None) with
    | Some ds when List.length ds = List.length ris ->
      let bad = List.filter (fun (ri, d) -> not (prop_decision_ok p ri d)) (List.combine ris ds) in
      if bad <> [] then
        let (ri, d) = List.hd bad in
        Printf.sprintf "viol unsafe-decision=%s idem=%b cl=%s model=%s" (dec_str d) ri.ri_idempotent
          (cl_name ri.ri_consistency) (String.concat "," (String.split_on_char ' ' model))
      else if not (prop_history_ok p ds) then
        "viol same-target-retries-exceed-budget model=" ^ String.concat "," (String.split_on_char ' ' model)
      else "diff model=" ^ String.concat "," (String.split_on_char ' ' model)
    | _ -> "diff unparsable-impl-output model=" ^ String.concat "," (String.split_on_char ' ' model)

(* ---- fiber cases ---- *)
let outcome_of (s : string) : outcome =
  if s = "C" then OConnFail else if s = "K" then OSuccess
  else if String.length s > 2 && String.sub s 0 2 = "X/" then OError (err_of (String.sub s 2 (String.length s - 2)))
  else failwith ("bad outcome " ^ s)

let err_class = function
  | ESerializationError -> "E.SerializationError" | ECqlRequestSerialization -> "E.CqlRequestSerialization"
  | EUnableToAllocStreamId -> "E.UnableToAllocStreamId" | EBrokenConnectionError -> "E.BrokenConnectionError"
  | EBodyExtensionsParseError -> "E.BodyExtensionsParseError" | ECqlResultParseError -> "E.CqlResultParseError"
  | ECqlErrorParseError -> "E.CqlErrorParseError" | EUnexpectedResponse -> "E.UnexpectedResponse"
  | ERepreparedIdChanged -> "E.RepreparedIdChanged" | ERepreparedIdMissingInBatch -> "E.RepreparedIdMissingInBatch"
  | ENonfinishedPagingState -> "E.NonfinishedPagingState"
  | EDbError db -> (match db with
    | DbSyntaxError -> "Db.SyntaxError" | DbInvalid -> "Db.Invalid" | DbAlreadyExists -> "Db.AlreadyExists"
    | DbFunctionFailure -> "Db.FunctionFailure" | DbAuthenticationError -> "Db.AuthenticationError"
    | DbUnauthorized -> "Db.Unauthorized" | DbConfigError -> "Db.ConfigError"
    | DbUnavailable _ -> "Db.Unavailable" | DbOverloaded -> "Db.Overloaded"
    | DbIsBootstrapping -> "Db.IsBootstrapping" | DbTruncateError -> "Db.TruncateError"
    | DbReadTimeout _ -> "Db.ReadTimeout" | DbWriteTimeout _ -> "Db.WriteTimeout"
    | DbReadFailure -> "Db.ReadFailure" | DbWriteFailure -> "Db.WriteFailure"
    | DbUnprepared -> "Db.Unprepared" | DbServerError -> "Db.ServerError"
    | DbProtocolError -> "Db.ProtocolError" | DbRateLimitReached -> "Db.RateLimitReached"
    | DbOther -> "Db.Other")

let event_str = function
  | EvConnFail t -> "c" ^ hex_of_n t
  | EvAttempt (t, cl, AOk) -> Printf.sprintf "a%s/%s/ok" (hex_of_n t) (cl_name cl)
  | EvAttempt (t, cl, AErr (e, d)) -> Printf.sprintf "a%s/%s/%s/%s" (hex_of_n t) (cl_name cl) (err_class e) (dec_str d)
let result_str = function
  | RCompleted t -> "completed:" ^ hex_of_n t
  | RIgnoredWriteError t -> "ignored:" ^ hex_of_n t
  | RFailed LConn -> "failed:pool"
  | RFailed (LAttempt e) -> "failed:" ^ err_class e
  | REmptyPlan -> "emptyplan"
  | RPending -> "pending"

(* the observed trace as model events: an error class stands for any error of that class (the
   property predicate only looks at the class); decisions are not needed by the predicate *)
let obs_event (ev : string) : n event =
  let num s = n_of_hex s in
  if ev.[0] = 'c' then EvConnFail (num (String.sub ev 1 (String.length ev - 1)))
  else match String.split_on_char '/' (String.sub ev 1 (String.length ev - 1)) with
    | [t; cl; "ok"] -> EvAttempt (num t, cl_of cl, AOk)
    | [t; cl; e; _] ->
      let e = match e with
        | "Db.Unavailable" -> "Db.Unavailable:One:0:0" | "Db.ReadTimeout" -> "Db.ReadTimeout:One:0:0:0"
        | "Db.WriteTimeout" -> "Db.WriteTimeout:One:0:0:Simple" | e -> e in
      EvAttempt (num t, cl_of cl, AErr (err_of e, DontRetry))
    | _ -> failwith "bad event"

let fiber_case p idem cl0 nplan outs impl =
  let p = policy_of p in
  let idem = (idem = "1") in
  let nplan = int_of_string nplan in
  let plan = List.init nplan n_of_int in
  let (tr, r) = fiber p idem (cl_of cl0) plan (List.map outcome_of outs) in
  let model = String.concat " " (List.map event_str tr @ ["=>"; result_str r]) in
  if String.concat " " impl = model then "ok"
  else
    let rec upto = function "=>" :: _ | [] -> [] | x :: r -> x :: upto r in
    (* the property predicate (C06_trace_prop_ok) on the implementation's own trace *)
    match (try Some (prop_trace_ok p idem (nat_of_int nplan) (List.map obs_event (upto impl))) with _ -> None) with
    | Some false -> "viol trace-violates-property model=" ^ String.concat "," (List.map event_str tr @ [result_str r])
    | _ -> "diff model=" ^ String.concat "," (List.map event_str tr @ [result_str r])

let verdict case impl =
  match case with
  | ("X1" | "X2" | "X3" | "R") :: p :: steps -> history p steps impl
  | "F" :: p :: idem :: cl0 :: nplan :: outs -> fiber_case p idem cl0 nplan outs impl
  | _ -> "error unknown-case"

let () = run_lines verdict
