(* C06 correspondence driver: evaluates the extracted retry-session model (Model/Retry.v) and
   the fiber model (Model/Fiber.v) on the harness' cases.

   history cases  `<X1|X2|X3|R> <policy> <step>...  | <decision>...`
     the model's [decide_history] on one fresh session must give exactly the observed
     decisions (kind and carried consistency).  On a mismatch the property predicates
     [prop_decision_ok] / [prop_history_ok] (C06_decide_prop_ok, C06_history_prop_ok) are
     evaluated on the IMPLEMENTATION's decisions: a failure is a `viol`, otherwise `diff`.
   fiber cases    `F <policy> <idem> <cl0> <plan length> <outcome>... | <event>... => <result>`
     the real execution loop, driven through the verif hook with fake targets, must go through
     exactly the events of [fiber] and return its result.
   end-to-end cases `E6 <seed> <tier> | env:<n> <record>...`
     a real Session against the mock cluster; per logical request (page) the frames the mock saw
     must be accepted by [e2e_check] on a certificate the driver proposes (C06_e2e_run,
     C06_e2e_gate, C06_e2e_fibers); otherwise [prop_frames] decides viol / diff. *)

let cl_of = function
  | "Any" -> CAny | "One" -> COne | "Two" -> CTwo | "Three" -> CThree | "Quorum" -> CQuorum
  | "All" -> CAll | "LocalQuorum" -> CLocalQuorum | "EachQuorum" -> CEachQuorum
  | "LocalOne" -> CLocalOne | "Serial" -> CSerial | "LocalSerial" -> CLocalSerial
  | s -> failwith ("bad consistency " ^ s)
let cl_name = function
  | CAny -> "Any" | COne -> "One" | CTwo -> "Two" | CThree -> "Three" | CQuorum -> "Quorum"
  | CAll -> "All" | CLocalQuorum -> "LocalQuorum" | CEachQuorum -> "EachQuorum"
  | CLocalOne -> "LocalOne" | CSerial -> "Serial" | CLocalSerial -> "LocalSerial"
let wt_of = function
  | "Simple" -> WSimple | "Batch" -> WBatch | "UnloggedBatch" -> WUnloggedBatch
  | "Counter" -> WCounter | "BatchLog" -> WBatchLog | "Cas" -> WCas | "View" -> WView
  | "Cdc" -> WCdc | "Other" -> WOther | s -> failwith ("bad write type " ^ s)
let policy_of = function
  | "Default" -> PDefault | "Downgrading" -> PDowngrading | "Fallthrough" -> PFallthrough
  | s -> failwith ("bad policy " ^ s)

(* the fields no decision reads (inner consistency, numfailures, codes, kinds) are dropped *)
let err_of (tok : string) : attempt_error =
  let f = Array.of_list (String.split_on_char ':' tok) in
  let z i = z_of_hex f.(i) in
  match f.(0) with
  | "E.SerializationError" -> ESerializationError
  | "E.CqlRequestSerialization" -> ECqlRequestSerialization
  | "E.UnableToAllocStreamId" -> EUnableToAllocStreamId
  | "E.BrokenConnectionError" -> EBrokenConnectionError
  | "E.BodyExtensionsParseError" -> EBodyExtensionsParseError
  | "E.CqlResultParseError" -> ECqlResultParseError
  | "E.CqlErrorParseError" -> ECqlErrorParseError
  | "E.UnexpectedResponse" -> EUnexpectedResponse
  | "E.RepreparedIdChanged" -> ERepreparedIdChanged
  | "E.RepreparedIdMissingInBatch" -> ERepreparedIdMissingInBatch
  | "E.NonfinishedPagingState" -> ENonfinishedPagingState
  | db -> EDbError (match db with
    | "Db.SyntaxError" -> DbSyntaxError | "Db.Invalid" -> DbInvalid
    | "Db.AlreadyExists" -> DbAlreadyExists | "Db.FunctionFailure" -> DbFunctionFailure
    | "Db.AuthenticationError" -> DbAuthenticationError | "Db.Unauthorized" -> DbUnauthorized
    | "Db.ConfigError" -> DbConfigError
    | "Db.Unavailable" -> ignore (cl_of f.(1)); DbUnavailable (z 2, z 3)
    | "Db.Overloaded" -> DbOverloaded | "Db.IsBootstrapping" -> DbIsBootstrapping
    | "Db.TruncateError" -> DbTruncateError
    | "Db.ReadTimeout" -> ignore (cl_of f.(1)); DbReadTimeout (z 2, z 3, f.(4) <> "0")
    | "Db.WriteTimeout" -> ignore (cl_of f.(1)); DbWriteTimeout (z 2, z 3, wt_of f.(4))
    | "Db.ReadFailure" -> DbReadFailure | "Db.WriteFailure" -> DbWriteFailure
    | "Db.Unprepared" -> DbUnprepared | "Db.ServerError" -> DbServerError
    | "Db.ProtocolError" -> DbProtocolError | "Db.RateLimitReached" -> DbRateLimitReached
    | "Db.Other" -> DbOther
    | _ -> failwith ("bad error token " ^ tok))

let ri_of (step : string) : request_info =
  match String.split_on_char '/' step with
  | [i; c; e] -> { ri_error = err_of e; ri_idempotent = (i = "1"); ri_consistency = cl_of c }
  | _ -> failwith ("bad step " ^ step)

let carried_str = function None -> "-" | Some c -> ":" ^ cl_name c
let dec_str = function
  | RetrySameTarget c -> "S" ^ carried_str c
  | RetryNextTarget c -> "N" ^ carried_str c
  | DontRetry -> "D"
  | IgnoreWriteError -> "I"
let dec_of (s : string) : decision =
  let c () = if String.length s >= 2 && s.[1] = ':' then Some (cl_of (String.sub s 2 (String.length s - 2)))
             else if s = "S-" || s = "N-" then None else failwith ("bad decision " ^ s) in
  match s.[0] with
  | 'S' -> RetrySameTarget (c ()) | 'N' -> RetryNextTarget (c ())
  | 'D' when s = "D" -> DontRetry | 'I' when s = "I" -> IgnoreWriteError
  | _ -> failwith ("bad decision " ^ s)

let history p steps impl =
  let p = policy_of p in
  let ris = List.map ri_of steps in
  let model = String.concat " " (List.map dec_str (decide_history (new_session p) ris)) in
  let obs = String.concat " " impl in
  if obs = model then "ok"
  else
    (* the property on the implementation's own output *)
    match (try Some (List.map dec_of impl) with _ -> None) with
    | Some ds when List.length ds = List.length ris ->
      let bad = List.filter (fun (ri, d) -> not (prop_decision_ok p ri d)) (List.combine ris ds) in
      if bad <> [] then
        let (ri, d) = List.hd bad in
        Printf.sprintf "viol unsafe-decision=%s idem=%b cl=%s model=%s" (dec_str d) ri.ri_idempotent
          (cl_name ri.ri_consistency) (String.concat "," (String.split_on_char ' ' model))
      else if not (prop_history_ok p ds) then
        "viol same-target-retries-exceed-budget model=" ^ String.concat "," (String.split_on_char ' ' model)
      else "diff model=" ^ String.concat "," (String.split_on_char ' ' model)
    | _ -> "diff unparsable-impl-output model=" ^ String.concat "," (String.split_on_char ' ' model)

(* ---- fiber cases ---- *)
let outcome_of (s : string) : outcome =
  if s = "C" then OConnFail else if s = "K" then OSuccess
  else if String.length s > 2 && String.sub s 0 2 = "X/" then OError (err_of (String.sub s 2 (String.length s - 2)))
  else failwith ("bad outcome " ^ s)

let err_class = function
  | ESerializationError -> "E.SerializationError" | ECqlRequestSerialization -> "E.CqlRequestSerialization"
  | EUnableToAllocStreamId -> "E.UnableToAllocStreamId" | EBrokenConnectionError -> "E.BrokenConnectionError"
  | EBodyExtensionsParseError -> "E.BodyExtensionsParseError" | ECqlResultParseError -> "E.CqlResultParseError"
  | ECqlErrorParseError -> "E.CqlErrorParseError" | EUnexpectedResponse -> "E.UnexpectedResponse"
  | ERepreparedIdChanged -> "E.RepreparedIdChanged" | ERepreparedIdMissingInBatch -> "E.RepreparedIdMissingInBatch"
  | ENonfinishedPagingState -> "E.NonfinishedPagingState"
  | EDbError db -> (match db with
    | DbSyntaxError -> "Db.SyntaxError" | DbInvalid -> "Db.Invalid" | DbAlreadyExists -> "Db.AlreadyExists"
    | DbFunctionFailure -> "Db.FunctionFailure" | DbAuthenticationError -> "Db.AuthenticationError"
    | DbUnauthorized -> "Db.Unauthorized" | DbConfigError -> "Db.ConfigError"
    | DbUnavailable _ -> "Db.Unavailable" | DbOverloaded -> "Db.Overloaded"
    | DbIsBootstrapping -> "Db.IsBootstrapping" | DbTruncateError -> "Db.TruncateError"
    | DbReadTimeout _ -> "Db.ReadTimeout" | DbWriteTimeout _ -> "Db.WriteTimeout"
    | DbReadFailure -> "Db.ReadFailure" | DbWriteFailure -> "Db.WriteFailure"
    | DbUnprepared -> "Db.Unprepared" | DbServerError -> "Db.ServerError"
    | DbProtocolError -> "Db.ProtocolError" | DbRateLimitReached -> "Db.RateLimitReached"
    | DbOther -> "Db.Other")

let event_str = function
  | EvConnFail t -> "c" ^ hex_of_n t
  | EvAttempt (t, cl, AOk) -> Printf.sprintf "a%s/%s/ok" (hex_of_n t) (cl_name cl)
  | EvAttempt (t, cl, AErr (e, d)) -> Printf.sprintf "a%s/%s/%s/%s" (hex_of_n t) (cl_name cl) (err_class e) (dec_str d)
let result_str = function
  | RCompleted t -> "completed:" ^ hex_of_n t
  | RIgnoredWriteError t -> "ignored:" ^ hex_of_n t
  | RFailed LConn -> "failed:pool"
  | RFailed (LAttempt e) -> "failed:" ^ err_class e
  | REmptyPlan -> "emptyplan"
  | RPending -> "pending"

(* the observed trace as model events WITH the decisions the real session took: an error class
   stands for any error of that class (fields zeroed: the property predicate only looks at the
   class, the decision is the recorded one) *)
let zero_fields e = match e with
  | "Db.Unavailable" -> "Db.Unavailable:One:0:0" | "Db.ReadTimeout" -> "Db.ReadTimeout:One:0:0:0"
  | "Db.WriteTimeout" -> "Db.WriteTimeout:One:0:0:Simple" | e -> e
let obs_event (ev : string) : n event =
  let num s = n_of_hex s in
  if ev.[0] = 'c' then EvConnFail (num (String.sub ev 1 (String.length ev - 1)))
  else match String.split_on_char '/' (String.sub ev 1 (String.length ev - 1)) with
    | [t; cl; "ok"] -> EvAttempt (num t, cl_of cl, AOk)
    | [t; cl; e; d] -> EvAttempt (num t, cl_of cl, AErr (err_of (zero_fields e), dec_of d))
    | _ -> failwith "bad event"
let obs_result (s : string) : n fiber_result =
  match String.split_on_char ':' s with
  | ["completed"; t] -> RCompleted (n_of_hex t)
  | ["ignored"; t] -> RIgnoredWriteError (n_of_hex t)
  | ["pending"] -> RPending
  | ["emptyplan"] -> REmptyPlan
  | ["failed"; "pool"] -> RFailed LConn
  | ["failed"; cls] -> RFailed (LAttempt (err_of (zero_fields cls)))
  | _ -> failwith "bad result"

let fiber_case p idem cl0 nplan outs impl =
  let p = policy_of p in
  let idem = (idem = "1") in
  let nplan = int_of_string nplan in
  let plan = List.init nplan n_of_int in
  let (tr, r) = fiber p idem (cl_of cl0) plan (List.map outcome_of outs) in
  let model = String.concat " " (List.map event_str tr @ ["=>"; result_str r]) in
  if String.concat " " impl = model then "ok"
  else
    let rec upto = function "=>" :: _ | [] -> [] | x :: r -> x :: upto r in
    let rec after = function "=>" :: r :: _ -> Some r | _ :: r -> after r | [] -> None in
    (* the property predicate (C06_trace_prop_full: safe resend, serial, bound, the recorded decisions
       followed -- same / successor / stop -- and the result the last event prescribes) on the
       implementation's own trace *)
    match (try (match after impl with
                | Some res -> Some (prop_trace_full p idem plan (List.map obs_event (upto impl)) (obs_result res))
                | None -> None) with _ -> None) with
    | Some false -> "viol trace-violates-property model=" ^ String.concat "," (List.map event_str tr @ [result_str r])
    | _ -> "diff model=" ^ String.concat "," (List.map event_str tr @ [result_str r])

(* ==== end-to-end records (E6 / E13 cases): shared between ocaml/c06/driver.ml and
   ocaml/c13/driver.ml -- the two copies of this block are identical, keep them in sync ====
   One token per (logical request, page), see harness/src/e2e_attempts.rs for the format.
   The driver PROPOSES certificates (how the frames split into fibers, which plan / outcome
   stream each fiber had, for C13 a schedule of `execute`); the extracted checkers decide. *)
type e2e_rec = { api : string; idem : bool; pol : policy; spec : (int * int) option; cl0 : consistency;
                 nn : int; down : n list; pg : int; t0 : n; tr : n; mg : n; res : string; co : n option; tmo : int option; sm : n;
                 frs : frame list }

let strip1 s = String.sub s 1 (String.length s - 1)

let frame_of_string (s : string) : frame =
  let parts = String.split_on_char '/' s in
  let shard, parts = match parts with
    | [n; c; a; b; x; sh] -> n_of_hex sh, [n; c; a; b; x]
    | p -> N0, p in
  match parts with
  | [node; cl; a; b; ans] ->
    let f_ans =
      if ans = "ok" then AnsOk else if ans = "drop" then AnsErr EBrokenConnectionError
      else if ans = "-" then AnsNone
      else if String.length ans > 1 && ans.[0] = 'X' then AnsErr (err_of (strip1 ans))
      else failwith ("bad answer " ^ ans) in
    { f_node = n_of_hex node; f_cl = cl_of cl; f_arr = n_of_hex a; f_ans;
      f_done = (if b = "-" then N0 else n_of_hex b); f_shard = shard }
  | _ -> failwith ("bad frame " ^ s)

let parse_record (tok : string) : e2e_rec =
  match String.split_on_char ';' tok with
  | "R" :: kvs ->
    let tbl = List.map (fun kv -> let i = String.index kv '=' in
                         (String.sub kv 0 i, String.sub kv (i + 1) (String.length kv - i - 1))) kvs in
    let g k = try List.assoc k tbl with Not_found -> failwith ("missing field " ^ k) in
    let hex k = int_of_string ("0x" ^ g k) in
    { api = g "api"; idem = (g "idem" = "1"); pol = policy_of (g "pol");
      spec = (if g "spec" = "-" then None else
                match String.split_on_char ':' (g "spec") with
                | [m; iv] -> Some (int_of_string ("0x" ^ m), int_of_string ("0x" ^ iv))
                | _ -> failwith "bad spec");
      cl0 = cl_of (g "cl"); nn = hex "n"; down = nlist_of_string (g "down"); pg = hex "pg";
      t0 = n_of_hex (g "t0"); tr = n_of_hex (g "tr"); mg = n_of_hex (g "mg"); res = g "res";
      sm = (match List.assoc_opt "sm" tbl with Some x -> n_of_hex x | None -> n_of_int 20000);
      tmo = (match List.assoc_opt "to" tbl with Some "-" | None -> None | Some t -> Some (int_of_string ("0x" ^ t)));
      co = (match List.assoc_opt "co" tbl with Some "-" | None -> None | Some c -> Some (n_of_hex c));
      frs = (if g "fr" = "-" then [] else List.map frame_of_string (String.split_on_char ',' (g "fr"))) }
  | _ -> failwith ("bad record " ^ tok)

(* what the caller got.  Successful answers of the mock are Rows for QUERY / EXECUTE and Void for
   BATCH, so a void result of a query is the synthetic empty result of IgnoreWriteError; a pager that
   ends without delivering a page it asked for ("end") likewise *)
let ores_of (r : e2e_rec) : ores option =
  match r.res with
  | "rows" -> Some OCompleted
  | "void" -> Some (if r.api = "b" then OOk else OIgnored)
  | "end" -> Some OIgnored
  | "pool" -> Some (OFailed LConn)
  | "emptyplan" -> Some OEmptyPlan
  | s when String.length s > 1 && s.[0] = 'X' -> Some (OFailed (LAttempt (err_of (strip1 s))))
  | _ -> None

let outcome_of_frame f = match f.f_ans with AnsOk | AnsNone -> OSuccess | AnsErr e -> OError e
let nodes_of (r : e2e_rec) : n list = List.init r.nn n_of_int
let gate (r : e2e_rec) : int option = if r.idem then Option.map fst r.spec else None

let rec subsets = function [] -> [[]] | x :: l -> let s = subsets l in s @ List.map (fun y -> x :: y) s

(* (plan, outcome stream) candidates of ONE fiber with frames [frs]: the plan is the sequence of its
   nodes; where the mock has cut connections ([down]) a target may have been skipped without an
   attempt: the current target again (its pool lost the connection) or cut nodes that got no frame *)
let rec gen (down : n list) (cur : n option) (dn : n list) (frs : frame list) : (n list * outcome list) list =
  let sames = match cur with Some c when List.mem c down -> [false; true] | _ -> [false] in
  List.concat_map (fun same ->
      List.concat_map (fun skip ->
          let dn' = List.filter (fun d -> not (List.mem d skip)) dn in
          let pre_outs = (if same then [OConnFail] else []) @ List.map (fun _ -> OConnFail) skip in
          match frs with
          | [] -> [ (skip, pre_outs) ]
          | f :: rest ->
            let addp = if Some f.f_node = cur && (not same) && skip = [] then [] else [f.f_node] in
            List.map (fun (p, o) -> (skip @ addp @ p, pre_outs @ (outcome_of_frame f :: o)))
              (gen down (Some f.f_node) dn' rest))
        (subsets dn))
    sames

let take k l = List.filteri (fun i _ -> i < k) l

let fiber_cands (r : e2e_rec) (frs : frame list) : cert list =
  let dn = List.filter (fun d -> not (List.exists (fun f -> f.f_node = d) r.frs)) r.down in
  (* a fiber whose last frame was not answered was cancelled while that frame was in flight; one
     whose last answer was logged may still have been cancelled before it processed the answer *)
  let frees = match List.rev frs with f :: _ -> if f.f_ans = AnsNone then [true] else [false; true] | [] -> [false] in
  take 64 (List.concat_map (fun free -> List.map (fun (p, o) -> { c_plan = p; c_outs = o; c_free = free })
                                          (gen r.down None dn frs)) frees)

(* gate closed: one fiber; the rest of the plan = the nodes that got no frame and are not cut *)
let single_certs (r : e2e_rec) : cert list =
  let nodes = nodes_of r in
  List.map (fun c ->
      let rest = List.filter (fun x -> not (List.mem x c.c_plan) && not (List.mem x r.down)) nodes in
      { c with c_plan = c.c_plan @ rest; c_free = false })
    (fiber_cands r r.frs)

(* gate open: all ways to split the frames (in arrival order) into at most [maxf] fibers numbered in
   the order of their first frame, such that a node belongs to one fiber and a fiber sends a frame
   only after its previous one was answered *)
let partitions (maxf : int) (frs : frame list) : int list list =
  let res = ref [] in
  let count = ref 0 in
  (* fibers: (id, last frame, nodes) *)
  let rec go fibers nf acc = function
    | [] -> if !count < 400 then (incr count; res := List.rev acc :: !res)
    | f :: rest ->
      let can_follow (_, last, _) = last.f_ans <> AnsNone && compare_n last.f_done f.f_arr <= 0 in
      let owner = List.filter (fun (_, _, ns) -> List.mem f.f_node ns) fibers in
      let opts = match owner with
        | [o] -> if can_follow o then [o] else []
        | _ :: _ -> []
        | [] -> List.filter can_follow fibers in
      List.iter (fun (id, _, ns) ->
          let fibers' = List.map (fun ((i, _, _) as x) -> if i = id then (id, f, if List.mem f.f_node ns then ns else f.f_node :: ns) else x) fibers in
          go fibers' nf (id :: acc) rest) opts;
      if owner = [] && nf < maxf then go (fibers @ [(nf, f, [f.f_node])]) (nf + 1) (nf :: acc) rest
  and compare_n a b = compare (int_of_n a) (int_of_n b) in
  go [] 0 [] frs;
  List.rev !res

let rec product (ls : 'a list list) : 'a list list =
  match ls with
  | [] -> [[]]
  | l :: rest -> let p = product rest in List.concat_map (fun x -> List.map (fun y -> x :: y) p) l

(* (fiber certificates, assignment) candidates for the gate-open case *)
let multi_certs (r : e2e_rec) (max : int) : (cert list * nat list) list =
  List.concat_map (fun assign ->
      let nf = 1 + List.fold_left Stdlib.max (-1) assign in
      let nf = Stdlib.max nf 1 in
      let per = List.init nf (fun i ->
          fiber_cands r (List.filteri (fun k _ -> List.nth assign k = i) r.frs)) in
      let base = take 200 (product per) in
      (* a fiber the mock never saw: every target it was handed had lost its connection *)
      let dn = List.filter (fun d -> not (List.exists (fun f -> f.f_node = d) r.frs)) r.down in
      let hidden = if dn = [] || nf > max then [] else
          List.concat_map (fun cs ->
              List.filter_map (fun sub -> if sub = [] then None else
                                  Some (cs @ [{ c_plan = sub; c_outs = List.map (fun _ -> OConnFail) sub; c_free = false }]))
                (subsets dn)) base in
      List.map (fun cs -> (cs, List.map nat_of_int assign)) (base @ hidden))
    (partitions (1 + max) r.frs)

(* a request that ended with the client-side timeout: per fiber a cancelled prefix of a run
   (C06_e2e_timeout); the timeout must have been set on the statement *)
let timeout_accepted (r : e2e_rec) : bool =
  match r.tmo with
  | None -> false
  | Some ms ->
    let nodes = nodes_of r in
    let specn = Option.map (fun (m, _) -> nat_of_int m) r.spec in
    let max = match gate r with Some m -> m | None -> 0 in
    List.exists (fun (cs, assign) ->
        check_timeout r.pol r.idem specn r.cl0 nodes r.down cs assign r.frs r.t0 (n_of_int (ms * 1000)) r.tr r.mg r.sm)
      (multi_certs r max)

let rec_summary (r : e2e_rec) =
  Printf.sprintf "api=%s;idem=%b;spec=%s;pg=%d;res=%s;frames=%d" r.api r.idem
    (match r.spec with None -> "-" | Some (m, _) -> string_of_int m) r.pg r.res (List.length r.frs)

(* ---- E6: the C06 judgement of one record ---- *)
let e2e6_record (tok : string) : string =
  let r = parse_record tok in
  match ores_of r with
  | None ->
    let spec = Option.map (fun (m, _) -> nat_of_int m) r.spec in
    if r.res = "timeout" && timeout_accepted r then "ok"
    (* a frame OTHER than the first arrived more than the margin after the call gave up: sent again
       after the timeout (prop_timeout_frames; a single late frame is not a re-send: diff below) *)
    else if r.res = "timeout" && r.tmo <> None && not (prop_timeout_frames r.tr r.mg r.frs)
    then "viol e2e frame-after-the-timeout " ^ rec_summary r
    else if not (prop_frames r.pol r.idem spec (nat_of_int r.nn) r.frs)
    then "viol e2e frames-violate-property " ^ rec_summary r
    else "diff e2e unexpected-result " ^ rec_summary r
  | Some _ when r.res = "rows" && r.co = None -> "diff e2e rows-without-coordinator " ^ rec_summary r
  | Some o ->
    let nodes = nodes_of r in
    let spec = Option.map (fun (m, _) -> nat_of_int m) r.spec in
    let ok = match gate r with
      | None ->
        List.exists (fun c -> e2e_check r.pol r.idem spec r.cl0 nodes r.down [c] [] r.frs r.tr o r.co) (single_certs r)
      | Some max ->
        List.exists (fun (cs, assign) -> e2e_check r.pol r.idem spec r.cl0 nodes r.down cs assign r.frs r.tr o r.co)
          (multi_certs r max) in
    if ok then "ok"                       (* C06_e2e_run / C06_e2e_gate / C06_e2e_fibers *)
    else if not (prop_frames r.pol r.idem spec (nat_of_int r.nn) r.frs)
    then "viol e2e frames-violate-property " ^ rec_summary r
    else "diff e2e no-certificate " ^ rec_summary r

let e2e_line (judge : string -> string) (impl : string list) : string =
  match impl with
  | "skip-env" :: _ -> "ok skip-env"
  | env :: recs when String.length env > 4 && String.sub env 0 4 = "env:" ->
    if recs = [] then "diff e2e no-records" else
    let vs = List.map (fun t -> try judge t with e -> "error e2e " ^ Printexc.to_string e) recs in
    let is p v = String.length v >= String.length p && String.sub v 0 (String.length p) = p in
    (match List.find_opt (is "viol") vs with
     | Some v -> v
     | None -> (match List.find_opt (fun v -> not (is "ok" v)) vs with Some v -> v | None -> "ok"))
  | _ -> "error e2e " ^ String.concat "_" impl

let verdict case impl =
  match case with
  | "E6" :: _ -> e2e_line e2e6_record impl
  | ("X1" | "X2" | "X3" | "R") :: p :: steps -> history p steps impl
  | "F" :: p :: idem :: cl0 :: nplan :: outs -> fiber_case p idem cl0 nplan outs impl
  | _ -> "error unknown-case"

let () = run_lines verdict
