(* C08 correspondence driver.
   verdict mode (default): each line  "<KIND> <features> <mode> <framehex> | [dc=..] <status...> m=<maxreq> t=<total>"
     is decoded with the extracted model ([Model.decode]) and compared with what the real
     decoders did.  The property predicates evaluated on the implementation's output:
       - it terminated normally (no abort / timeout / panic),
       - its largest single allocation request is within C08_alloc's bound for the input length, the
         total of all requests within twice that (the bound is proved of the model's ghost counter and
         APPLIED here to the allocator's measurements).
     Everything else is correspondence (`diff`), incl. an accepted truncated frame (kinds T, U).
   gen mode ("driver gen <seed> <count>"): prints well-formed frames produced by the extracted
     ENCODER (the specification side) from randomly generated response values. *)

(* ---------- small helpers ---------- *)
let n_of_i = n_of_int
let z_of_i (i : int) : z = if i < 0 then z_of_hex ("-" ^ Printf.sprintf "%x" (-i)) else z_of_hex (Printf.sprintf "%x" i)
let dec_of_n (v : n) : string = string_of_int (int_of_n v)   (* values < 2^62 only *)
let dec_of_z (v : z) : string = match v with
  | Z0 -> "0" | Zpos p -> string_of_int (int_of_n (Npos p)) | Zneg p -> "-" ^ string_of_int (int_of_n (Npos p))
let hexs (b : n list) : string =
  let buf = Buffer.create (2 * List.length b + 1) in
  Buffer.add_char buf 'x';
  List.iter (fun x -> Buffer.add_string buf (Printf.sprintf "%02x" (int_of_n x))) b;
  Buffer.contents buf
let b01 b = if b then "1" else "0"
let lst f l = "[" ^ String.concat "," (List.map f l) ^ "]"
let opt f = function None -> "N" | Some v -> "S(" ^ f v ^ ")"

(* ---------- canonical rendering (must agree with harness/src/bin/c08.rs) ---------- *)
let native_name = function
  | Ascii -> "Ascii" | Boolean -> "Boolean" | Blob -> "Blob" | Counter -> "Counter" | Date -> "Date"
  | Decimal -> "Decimal" | Double -> "Double" | Duration -> "Duration" | Float -> "Float" | Int -> "Int"
  | BigInt -> "BigInt" | Text -> "Text" | Timestamp -> "Timestamp" | Inet -> "Inet" | SmallInt -> "SmallInt"
  | TinyInt -> "TinyInt" | Time -> "Time" | Timeuuid -> "Timeuuid" | Uuid -> "Uuid" | Varint -> "Varint"

let rec r_type (t : coltype) : string = match t with
  | TNative n -> native_name n
  | TList (f, e) -> "List(" ^ b01 f ^ "," ^ r_type e ^ ")"
  | TSet (f, e) -> "Set(" ^ b01 f ^ "," ^ r_type e ^ ")"
  | TMap (f, k, v) -> "Map(" ^ b01 f ^ "," ^ r_type k ^ "," ^ r_type v ^ ")"
  | TVector (e, d) -> "Vec(" ^ r_type e ^ "," ^ dec_of_n d ^ ")"
  | TUdt (f, ks, nm, fs) ->
    "Udt(" ^ b01 f ^ "," ^ hexs ks ^ "," ^ hexs nm ^ "," ^ lst (fun (a, b) -> "(" ^ hexs a ^ "," ^ r_type b ^ ")") fs ^ ")"
  | TTuple es -> "Tup(" ^ lst r_type es ^ ")"

let r_col (c : colspec) = let (ks, t) = c.cs_table in
  "(" ^ hexs ks ^ "," ^ hexs t ^ "," ^ hexs c.cs_name ^ "," ^ r_type c.cs_type ^ ")"
let r_wt = function
  | WtSimple -> "Simple" | WtBatch -> "Batch" | WtUnloggedBatch -> "UnloggedBatch" | WtCounter -> "Counter"
  | WtBatchLog -> "BatchLog" | WtCas -> "Cas" | WtView -> "View" | WtCdc -> "Cdc" | WtOther s -> "Other(" ^ hexs s ^ ")"
let r_db = function
  | DbServerError -> "ServerError" | DbProtocolError -> "ProtocolError" | DbAuthenticationError -> "AuthenticationError"
  | DbUnavailable (cl, a, b) -> Printf.sprintf "Unavailable(%s,%s,%s)" (dec_of_n cl) (dec_of_z a) (dec_of_z b)
  | DbOverloaded -> "Overloaded" | DbIsBootstrapping -> "IsBootstrapping" | DbTruncateError -> "TruncateError"
  | DbWriteTimeout (cl, a, b, w) -> Printf.sprintf "WriteTimeout(%s,%s,%s,%s)" (dec_of_n cl) (dec_of_z a) (dec_of_z b) (r_wt w)
  | DbReadTimeout (cl, a, b, d) -> Printf.sprintf "ReadTimeout(%s,%s,%s,%s)" (dec_of_n cl) (dec_of_z a) (dec_of_z b) (b01 d)
  | DbReadFailure (cl, a, b, c, d) -> Printf.sprintf "ReadFailure(%s,%s,%s,%s,%s)" (dec_of_n cl) (dec_of_z a) (dec_of_z b) (dec_of_z c) (b01 d)
  | DbFunctionFailure (ks, f, a) -> Printf.sprintf "FunctionFailure(%s,%s,%s)" (hexs ks) (hexs f) (lst hexs a)
  | DbWriteFailure (cl, a, b, c, w) -> Printf.sprintf "WriteFailure(%s,%s,%s,%s,%s)" (dec_of_n cl) (dec_of_z a) (dec_of_z b) (dec_of_z c) (r_wt w)
  | DbSyntaxError -> "SyntaxError" | DbUnauthorized -> "Unauthorized" | DbInvalid -> "Invalid" | DbConfigError -> "ConfigError"
  | DbAlreadyExists (ks, t) -> Printf.sprintf "AlreadyExists(%s,%s)" (hexs ks) (hexs t)
  | DbUnprepared id -> "Unprepared(" ^ hexs id ^ ")"
  | DbRateLimitReached (op, r) -> Printf.sprintf "RateLimitReached(%s,%s)" (dec_of_n op) (b01 r)
  | DbOther c -> "Other(" ^ dec_of_z c ^ ")"
let r_ct = function CtCreated -> "Created" | CtUpdated -> "Updated" | CtDropped -> "Dropped" | CtInvalid -> "Invalid"
let r_sc = function
  | ScKeyspace (c, ks) -> Printf.sprintf "Keyspace(%s,%s)" (r_ct c) (hexs ks)
  | ScTable (c, ks, n) -> Printf.sprintf "Table(%s,%s,%s)" (r_ct c) (hexs ks) (hexs n)
  | ScType (c, ks, n) -> Printf.sprintf "Type(%s,%s,%s)" (r_ct c) (hexs ks) (hexs n)
  | ScFunction (c, ks, n, a) -> Printf.sprintf "Function(%s,%s,%s,%s)" (r_ct c) (hexs ks) (hexs n) (lst hexs a)
  | ScAggregate (c, ks, n, a) -> Printf.sprintf "Aggregate(%s,%s,%s,%s)" (r_ct c) (hexs ks) (hexs n) (lst hexs a)
let r_addr (ip, port) = "(" ^ hexs ip ^ "," ^ dec_of_n port ^ ")"
let r_ev = function
  | EvTopology (nw, a) -> "Topology(" ^ b01 nw ^ "," ^ r_addr a ^ ")"
  | EvStatus (up, a) -> "Status(" ^ b01 up ^ "," ^ r_addr a ^ ")"
  | EvSchema sc -> "Schema(" ^ r_sc sc ^ ")"
  | EvClientRoutes (c, h) -> "ClientRoutes(" ^ lst hexs c ^ "," ^ lst hexs h ^ ")"
let r_cell = opt hexs
let sort_kv f l = List.sort (fun (a, _) (b, _) -> compare a b) (List.map (fun (k, v) -> (hexs k, f v)) l)
let r_rows (r : rows_result) (cc : n) : string =
  Printf.sprintf "Rows(%s,%s,%s,%s,%s,%s)" (opt hexs r.rr_hdr.rh_paging) (opt hexs r.rr_meta_id) (dec_of_n cc)
    (lst r_col r.rr_cols) (dec_of_n r.rr_rows_count) (lst (lst r_cell) r.rr_rows)
let r_res = function
  | ResVoid -> "Void"
  | ResSetKeyspace ks -> "SetKeyspace(" ^ hexs ks ^ ")"
  | ResSchemaChange sc -> "SchemaChange(" ^ r_sc sc ^ ")"
  | ResRows r ->
    let cc = if r.rr_hdr.rh_no_metadata then N0 else r.rr_hdr.rh_col_count in
    r_rows r cc
  | ResPrepared p ->
    Printf.sprintf "Prepared(%s,%s,%s,%s,%s,%s,%s,%s)" (hexs p.p_id) (opt hexs p.p_result_metadata_id) (dec_of_z p.p_flags)
      (dec_of_n p.p_col_count) (lst (fun (i, s) -> "(" ^ dec_of_n i ^ "," ^ dec_of_n s ^ ")") p.p_pk) (lst r_col p.p_cols)
      (dec_of_n p.pr_col_count) (lst r_col p.pr_cols)
let r_resp = function
  | RError (e, reason) -> "Error(" ^ r_db e ^ "," ^ hexs reason ^ ")"
  | RReady -> "Ready"
  | RAuthenticate n -> "Authenticate(" ^ hexs n ^ ")"
  | RSupported o -> "Supported(" ^ lst (fun (k, v) -> "(" ^ k ^ "," ^ v ^ ")") (sort_kv (lst hexs) o) ^ ")"
  | RResult r -> "Result(" ^ r_res r ^ ")"
  | REvent e -> "Event(" ^ r_ev e ^ ")"
  | RAuthChallenge m -> "AuthChallenge(" ^ opt hexs m ^ ")"
  | RAuthSuccess m -> "AuthSuccess(" ^ opt hexs m ^ ")"
let r_frame (f : dframe) : string =
  let h = f.d_header and x = f.d_ext in
  Printf.sprintf "F(%s,%s,%s,%s,%s,%s,%s,%s)" (dec_of_n h.h_version) (dec_of_n h.h_flags) (dec_of_z h.h_stream)
    (dec_of_n h.h_opcode) (opt hexs x.x_trace) (lst hexs x.x_warnings)
    (opt (fun p -> lst (fun (k, v) -> "(" ^ k ^ "," ^ v ^ ")") (sort_kv hexs p)) x.x_payload) (r_resp f.d_resp)

let err_name = function
  | EIo -> "IoError" | ETooFew -> "TooFewBytesReceived" | EUtf8 -> "UTF8DeserializationError"
  | ETryFromInt -> "TryFromIntError" | EInvalidValueLength -> "InvalidValueLength"
  | EUnknownConsistency -> "UnknownConsistency" | EInvalidInetLength -> "InvalidInetLength"
  | EHeaderIo -> "HeaderIoError" | EFrameFromClient -> "FrameFromClient" | EVersionNotSupported -> "VersionNotSupported"
  | EUnknownOpcode -> "UnknownResponseOpcode" | EConnectionClosed -> "ConnectionClosed"
  | ENoCompression -> "NoCompressionNegotiated" | EDecompress -> "DecompressError"
  | EUnknownResultId -> "UnknownResultId" | EUnknownEventType -> "UnknownEventType"
  | EUnknownSchemaTarget -> "UnknownTargetOfSchemaChange" | EUnknownTypeOfChange -> "UnknownTypeOfChange"
  | EConnHostMismatch -> "ConnectionHostIdsLengthMismatch" | EUuidParse -> "HostIdsUuidParseError"
  | EIdPresentForEmptyMetadata -> "IdPresentForEmptyMetadata" | ENonZeroPagingState -> "NonZeroPagingState"
  | ETypeNotImplemented -> "TypeNotImplemented" | ETypeNestingTooDeep -> "TypeNestingTooDeep"
  | ECtUnknownSimple -> "UnknownSimpleCustomTypeName" | ECtUnknownComplex -> "UnknownComplexCustomTypeName"
  | ECtUnexpectedChar -> "UnexpectedCharacter" | ECtInteger -> "IntegerParseError" | ECtEof -> "UnexpectedEndOfInput"
  | ECtBadHex -> "BadHexString" | ECtInvalidUtf8 -> "InvalidUtf8" | ECtParamCount -> "InvalidParameterCount"
  | ECtTooDeep -> "CustomTypeNestingTooDeep"
  | EOutOfFuel -> "MODEL-OUT-OF-FUEL" | EUnmodelled -> "MODEL-UNMODELLED"
let stage_name = function StHeader -> "hdr" | StExt -> "ext" | StBody -> "body"

(* ---------- verdict mode ---------- *)
let parse_features (s : string) : features =
  (* "rl:<hex|->,mid:<0|1>" *)
  match String.split_on_char ',' s with
  | [a; b] ->
    let rl = String.sub a 3 (String.length a - 3) and mid = String.sub b 4 (String.length b - 4) in
    { ft_rate_limit = (if rl = "-" then None else Some (z_of_hex rl)); ft_metadata_id = (mid = "1") }
  | _ -> failwith "bad features"

let find_field (pre : string) (fields : string list) : string option =
  let l = String.length pre in
  List.fold_left (fun acc f ->
      if acc = None && String.length f >= l && String.sub f 0 l = pre then Some (String.sub f l (String.length f - l)) else acc)
    None fields

let starts p f = String.length f >= String.length p && String.sub f 0 (String.length p) = p
let cut s = if String.length s > 300 then String.sub s 0 300 ^ "..." else s
let show_diff impl_s model =
  let k = ref 0 in
  let la = String.length impl_s and lb = String.length model in
  while !k < la && !k < lb && impl_s.[!k] = model.[!k] do incr k done;
  let from s = let st = max 0 (!k - 40) in cut (String.sub s st (String.length s - st)) in
  "diff at=" ^ string_of_int !k ^ " impl=.." ^ from impl_s ^ " model=.." ^ from model

(* the model's answer on a single frame: canonical content (or error class), cost, "unmodelled" *)
let model_single decompress ft v2 compression stream =
           let (o, c) = decode decompress ft v2 compression stream in
           match o with
           | OErr (st, e) -> ("err " ^ stage_name st ^ " " ^ err_name e, c, e = EUnmodelled)
           | ODone f ->
             (* typed rows (rows_iter::<Row>() until the first error) and the tablet payload *)
             let tv = (match f.d_resp with
                 | RResult (ResRows r) when r.rr_cols <> [] ->
                   (match typed_rows_first_error r.rr_cols r.rr_rows N0 with
                    | None -> "ok" | Some i -> "err@" ^ dec_of_n i)
                   ^ (* a typed tuple target, when one type-checks *)
                   (let k = tuple_target r.rr_cols in
                    if k = N0 then "" else
                      ",t" ^ dec_of_n k ^ ":" ^ (match tuple_rows_first_error k r.rr_cols r.rr_rows N0 with
                          | None -> "ok" | Some i -> "err@" ^ dec_of_n i))
                 | RResult (ResRows r) ->
                   "z" ^ dec_of_n (if int_of_n r.rr_rows_count > 1000000 then n_of_i 1000000 else r.rr_rows_count)
                 | _ -> "-") in
             let tb = (match f.d_ext.x_payload with
                 | None -> "-"
                 | Some p ->
                   (match payload_lookup tablets_key p with
                    | None -> "none"
                    | Some v ->
                      (match tablet_payload v with
                       | Ok ((first, last), reps) ->
                         "ok:" ^ hex_of_z first ^ "," ^ hex_of_z last ^ ","
                         ^ lst (fun (u, sh) -> "(" ^ hexs u ^ "," ^ dec_of_n sh ^ ")") reps
                       | Err TbDeserialization -> "err:Deserialization"
                       | Err TbShardNum -> "err:ShardNum"
                       | Err TbWrongTokenRange -> "err:WrongTokenRange"))) in
             ("ok " ^ r_frame f ^ " tv=" ^ tv ^ " tb=" ^ tb, c, false)

(* ---------- kind Z (wave-4 follow-up): well-formed frames with large, highly compressible bodies ---------- *)
let zhash_str (s : string) : int =
  let h = ref 7 in
  String.iter (fun ch -> h := (!h * 1000003 + Char.code ch) land ((1 lsl 62) - 1)) s; !h
let zhash_bytes (b : n list) : int =
  List.fold_left (fun h x -> (h * 1000003 + int_of_n x) land ((1 lsl 62) - 1)) 7 b
let zshort (s : string) : string =
  if String.length s <= 4096 then s else Printf.sprintf "%s#%x:%d" (String.sub s 0 1500) (zhash_str s) (String.length s)
let z_model_max = 140_000
(* the AST of a Z case, `<fill>.<period>.<len>.<shape>`; the runner's z_frame builds the same bytes by hand *)
let z_ast (spec : string) : dframe option =
  match String.split_on_char '.' spec with
  | [fh; ps; ls; shape] ->
    let fill = int_of_string ("0x" ^ fh) and period = int_of_string ps and len = int_of_string ls in
    let pat k mask = List.init k (fun i -> n_of_i (((fill + i mod period) land 255) land mask)) in
    let bs s = List.init (String.length s) (fun i -> n_of_i (Char.code s.[i])) in
    let rows ty cells =
      RResult (ResRows {
          rr_hdr = { rh_col_count = n_of_i 1; rh_global = false; rh_no_metadata = false; rh_metadata_changed = false; rh_paging = None };
          rr_meta_id = None;
          rr_cols = [{ cs_table = (bs "ks", bs "t"); cs_name = bs "c"; cs_type = TNative ty }];
          rr_rows_count = n_of_i (List.length cells); rr_rows = List.map (fun c -> [Some c]) cells }) in
    let resp = (match shape with
        | "blob" -> Some (rows Blob [pat len 255], 8)
        | "text" -> Some (rows Text [pat len 127], 8)
        | "rows" -> let k = max 1 (len / 8) in
          let cell = List.init 4 (fun _ -> n_of_i fill) in Some (rows Int (List.init k (fun _ -> cell)), 8)
        | "error" -> Some (RError (DbServerError, pat (min len 65535) 127), 0)
        | "supported" ->
          let sl = min len 1024 and count = max 1 (min 65535 (len / 1024)) in
          let st = pat sl 127 in Some (RSupported [(bs "K", List.init count (fun _ -> st))], 6)
        | _ -> None) in
    (match resp with
     | None -> None
     | Some (r, opcode) ->
       let h0 = { h_version = n_of_i 132; h_flags = N0; h_stream = z_of_i 1; h_opcode = n_of_i opcode; h_length = N0 } in
       let f0 = { d_header = h0; d_ext = { x_trace = None; x_warnings = []; x_payload = None }; d_resp = r } in
       Some f0)
  | _ -> None

let rec drop k l = if k <= 0 then l else match l with [] -> [] | _ :: t -> drop (k - 1) t
let rec take_ k l = if k <= 0 then [] else match l with [] -> [] | x :: t -> x :: take_ (k - 1) t
(* the compressed body of the first frame: the h_length bytes behind the 9-byte header *)
let comp_body (stream : n list) : n list =
  match stream with
  | _ :: _ :: _ :: _ :: _ :: a :: b :: c :: d :: rest ->
    take_ ((((int_of_n a * 256 + int_of_n b) * 256 + int_of_n c) * 256) + int_of_n d) rest
  | _ -> []

let verdict_z ftS mode spec impl =
  let ft = parse_features ftS in
  let v2 = mode.[0] = '2' in
  let fld p = find_field p impl in
  let num p = match fld p with Some v -> int_of_string_opt v | None -> None in
  let status = List.filter (fun f -> not (List.exists (fun p -> starts p f)
      ["m="; "t="; "s="; "h="; "g="; "zeq="; "bh="; "bl="; "cl="; "r="; "cf="])) impl in
  match status with
  | "notrun" :: r -> "ok notrun " ^ String.concat "_" r
  | ("abort" | "panic") :: _ -> "viol crash=" ^ cut (String.concat "_" status)
  | "timeout" :: _ -> "viol hang well-formed-compressible-frame"
  | _ ->
    (match num "m=", num "t=", num "bl=", num "cl=", num "g=", num "zeq=", fld "bh=", fld "cf=", fld "s=" with
     | Some maxreq, Some total, Some bl, Some cl, Some g, Some zeq, Some bh, Some cf, Some _ ->
       let codec = if mode.[1] = 'l' then CLz4 else CSnappy in
       let plain = bl - 9 and comp = cl - 9 in
       let avail = if codec = CLz4 then comp - 4 else comp in
       let ratio = Printf.sprintf "ratio=%d.%02d" (plain / max 1 comp) ((plain * 100 / max 1 comp) mod 100) in
       let impl_s = String.concat " " status in
       (* the NAMED hypothesis of C08_guard_passes_* evaluated on the real encoder's output *)
       if not (within_expansion codec (n_of_i plain) (n_of_i avail)) then
         "diff codec-expansion-hypothesis-false-of-the-real-encoder " ^ ratio
       else if g <> 0 then
         (* by C08_guard_passes_* the guard of the model lets this body through *)
         "viol well-formed-frame-refused-by-claimed-size-guard " ^ ratio ^ " impl=" ^ cut impl_s
       else if zeq <> 1 then "viol well-formed-frame-decompressed-to-different-content " ^ ratio ^ " impl=" ^ cut impl_s
       else if not (starts "ok " impl_s) then "viol well-formed-frame-refused " ^ ratio ^ " impl=" ^ cut impl_s
       else if bl > z_model_max then
         (if cf <> "-" then "error large Z case with cf=" else
          (* above the size the extracted model is run on: accepted, and the real decoder returned the encoded body *)
          let elen = n_of_i ((if codec = CLz4 then 255 else 32) * cl) in
          if not (largest_in_proportion elen (n_of_i maxreq) && total_in_proportion elen (n_of_i total)) then
            Printf.sprintf "viol alloc largest=%d total=%d len=%d" maxreq total cl
          else "ok")
       else
         (match z_ast spec with
          | None -> "error bad Z spec"
          | Some f0 ->
            let body = enc_body ft f0 in
            let f = { f0 with d_header = { f0.d_header with h_length = n_of_i (List.length body) } } in
            let wire = encode_frame (fun b -> b) ft f in
            if List.length wire <> bl || Printf.sprintf "%x" (zhash_bytes wire) <> bh then
              Printf.sprintf "diff z-builder: the runner's frame is not the extracted encoder's (len %d vs %d)" bl (List.length wire)
            else begin
              let stream = bytes_of_hexstr cf in
              let cbody = comp_body stream in
              if guard codec cbody <> GPass then "diff guard-model refuses the real encoder's output " ^ ratio else
              (* the model decoder behind a codec that returns what was encoded (C08_roundtrip's premise) *)
              let (model, c, _) = model_single (fun _ -> Some body) ft v2 true stream in
              let expect = { f with d_header = { f.d_header with h_flags = n_of_i 1; h_length = n_of_i comp } } in
              let want = "ok " ^ r_frame expect in
              if not (starts want model) then "diff z-model-roundtrip model=" ^ cut model
              else if impl_s <> zshort model then
                "viol well-formed-frame-decoded-to-different-content " ^ ratio ^ " " ^ show_diff impl_s (zshort model)
              else begin
                let elen = n_of_i ((if codec = CLz4 then 255 else 32) * cl) in
                if not (largest_in_proportion elen (n_of_i maxreq) && total_in_proportion elen (n_of_i total)) then
                  Printf.sprintf "viol alloc largest=%d total=%d len=%d model_alloc=%d" maxreq total cl (int_of_n c.c_alloc)
                else "ok"
              end
            end)
     | _ -> "error Z result line without m= / t= / s= / bl= / cl= / g= / zeq= / bh= / cf=")

(* Verdict.  Order: (1) the property predicate on the implementation's own output - it terminated
   normally and what it allocated (largest single request AND total, measured) is in proportion to
   the input; only this gives `viol` (no class tags: no finding is open); (2) correspondence with the model: anything else is `diff`;
   environment trouble is `ok notrun` (counted and capped by checks/c08.py). *)
let verdict case impl =
  match case with
  | ["Z"; ft; mode; spec] -> verdict_z ft mode spec impl
  | [kind; ft; mode; hex] ->
    let ft = parse_features ft in
    let v2 = mode.[0] = '2' and compression = mode.[1] <> 'n' in
    let stream = bytes_of_hexstr hex in
    let len = List.length stream in
    let dc = find_field "dc=" impl in
    let decompress = (fun _ -> match dc with
        | Some "!" | None -> None
        | Some h -> Some (bytes_of_hexstr h)) in
    let num p = match find_field p impl with Some v -> int_of_string_opt v | None -> None in
    let small = match find_field "s=" impl with Some v -> v | None -> "-" in
    let sch = match find_field "sch=" impl with
      | Some v -> List.filter_map int_of_string_opt (String.split_on_char '.' v) | None -> [] in
    let status = List.filter (fun f -> not (starts "m=" f || starts "t=" f || starts "s=" f || starts "dc=" f || starts "sch=" f || starts "h=" f || starts "g=" f)) impl in
    (match num "m=", num "t=" with
     | None, _ | _, None -> "error result line without m= / t= (the measurements the property is judged on)"
     | Some maxreq, Some total ->
    if find_field "s=" impl = None then "error result line without s=" else
    (* h= the stack high-water mark (bytes) of the run on the small stack; present whenever that run returned *)
    let hwm = match find_field "h=" impl with Some v -> int_of_string_opt v | None -> None in
    if (small = "ok" || small = "differ") && hwm = None then "error result line without h= (stack high-water mark)" else
    if kind.[0] = 'Q' && sch = [] && (match status with ("notrun" | "abort" | "panic" | "timeout") :: _ -> false | _ -> true)
    then "error Q result line without sch=" else
    match status with
     | "notrun" :: r -> "ok notrun " ^ String.concat "_" r
     | ("abort" | "panic") :: _ -> "viol crash=" ^ String.concat "_" status ^ " len=" ^ string_of_int len
     | "timeout" :: _ ->
       (* confirmed alone in a fresh child: that child burnt the per-input limit (10 s quick / 20 s thorough)
          of CPU time on this input; every generated input is far below the size for which seconds of
          decoding could be legitimate (largest 200 KB).  Above 1 MiB (hand-made replays only) it is not
          called a violation, but it is not agreement either *)
       if len <= 1 lsl 20 then "viol hang len=" ^ string_of_int len else "diff timeout-on-large-input len=" ^ string_of_int len
     | _ ->
       let pair = kind.[0] = 'P' in
       let compressed = (not pair) && compression && len > 1 && (int_of_n (List.nth stream 1)) land 1 = 1 in
       let snappy = compressed && mode.[1] = 's' in
       (* expansion factor of the codec (C08_alloc's R): frame::decompress refuses larger claims
          (LZ4 since d6bbe9c, Snappy since 30df852) *)
       let expansion = if snappy then 32 else if compressed then 255 else 1 in
       let (model, c, unmodelled) =
         if pair then
           (match decode_pair parse_custom ft stream with
            | (None, c) -> ("pair none", c, false)
            | (Some (Err (st, e)), c) -> ("err " ^ stage_name st ^ " " ^ err_name e, c, e = EUnmodelled)
            | (Some (Ok (r, cc)), c) ->
              let tv = if r.rr_cols = [] then "z" ^ dec_of_n (if int_of_n r.rr_rows_count > 1000000 then n_of_i 1000000 else r.rr_rows_count) else
                  (match typed_rows_first_error r.rr_cols r.rr_rows N0 with None -> "ok" | Some i -> "err@" ^ dec_of_n i)
                  ^ (let k = tuple_target r.rr_cols in
                     if k = N0 then "" else
                       ",t" ^ dec_of_n k ^ ":" ^ (match tuple_rows_first_error k r.rr_cols r.rr_rows N0 with
                           | None -> "ok" | Some i -> "err@" ^ dec_of_n i)) in
              ("ok " ^ r_rows r cc ^ " tv=" ^ tv, c, false))
         else begin
           model_single decompress ft v2 compression stream
         end in
       (* kind Q: the reader delivered the stream in chunks (C08_chunking: same answer as all at once);
          then what the next read_response_frame on the same reader returns *)
       let second_alloc = ref 0 in
       let model = if kind.[0] <> 'Q' then model else begin
           (* the reader after the first call: behind the frame; behind the 9 header bytes when the header
              was refused; at the end when the stream ran out *)
           (* the model of the chunked reader (Model/FrameChunk.v, C08_chunking) on the chunks the tie's
              reader delivered: the stream cut into the scheduled sizes; every read offers exactly what
              is still missing (offers = []: true of read_exact and of read_buf for bodies <= 1 MiB) *)
           let sizes = List.map n_of_i sch in
           let cs = cut_chunks (nat_of_int (len + 1)) sizes sizes stream in
           let first_chunked = read_frame_chunked [] cs in
           let agree = (match first_chunked, fst (read_frame stream) with
               | Ok ((h, body), cs'), Ok ((h', body'), rest) -> h = h' && body = body' && List.concat cs' = rest
               | Err e, Err e' -> e = e'
               | _ -> false) in
           let cs1 = reader_after [] cs in
           let rest = List.concat cs1 in
           (* the second call reserves its own body buffer (min(length, 1 MiB)): part of the accounting *)
           second_alloc := int_of_n (snd (read_frame rest)).c_alloc;
           let second = (match read_frame_chunked [] cs1 with
               | Ok ((h, body), _) -> Printf.sprintf "ok:%s:%s:%s:%s" (dec_of_n h.h_flags) (dec_of_z h.h_stream) (dec_of_n h.h_opcode) (hexs body)
               | Err e -> "err:" ^ err_name e) in
           (* C08_chunking instantiated: the two models of the reader must agree on the first frame *)
           (if agree then model else "chunk-model-disagrees-with-read_frame " ^ model) ^ " q2=" ^ second
         end in
       let impl_s = String.concat " " status in
       let malloc = int_of_n c.c_alloc + !second_alloc in
       let elen = n_of_i (expansion * len) in
       if not (largest_in_proportion elen (n_of_i maxreq) && total_in_proportion elen (n_of_i total)) then
         (* the property fails on the implementation's own measurements (C08_alloc's bound for the
            largest request, twice that for the total of all requests) *)
         Printf.sprintf "viol alloc largest=%d total=%d bound=%d len=%d model_alloc=%d" maxreq total
           (int_of_n (alloc_bound elen)) len malloc
       else if (match find_field "g=" impl with
           | Some gs when compressed && len >= 9 ->
             (* the claimed-size guard of frame::decompress against Model/FrameGuard.v, on every compressed case *)
             let want = (match guard (if snappy then CSnappy else CLz4) (comp_body stream) with
                 | GPass -> "0" | GRefused -> "1" | GShort -> "2") in
             gs <> want
           | _ -> false) then
         "diff guard impl=" ^ (match find_field "g=" impl with Some g -> g | None -> "-") ^ " model=" ^
         (match guard (if snappy then CSnappy else CLz4) (comp_body stream) with GPass -> "0" | GRefused -> "1" | GShort -> "2")
       else if unmodelled then "ok unmodelled"
       else if impl_s <> model then show_diff impl_s model
       else begin
         (* correspondence of the ghost counter with the measurement: every large request is one of the
            pinned reservations, or proportional to the (decompressed) input, or the codec's buffer *)
         let dlen = (match dc with Some h when h <> "!" -> String.length h / 2 | _ -> 0) in
         (* the codec's own buffer: at most 255 x body (LZ4) / 32 x body (Snappy), enforced by frame::decompress *)
         let codec_buffer = if compressed then expansion * len else 0 in
         (* a vector column under the target Vec<Option<i32>>: one 8-byte Option per DECLARED dimension
            (an exhausted cell yields null elements), whatever the cell holds *)
         let typed_vector () = (match fst (decode decompress ft v2 compression stream) with
             | ODone { d_resp = RResult (ResRows r); _ } when (not pair) && tuple_target r.rr_cols = n_of_i 5 ->
               List.fold_left (fun a c -> match c.cs_type with TVector (_, d) -> a + 16 * int_of_n d | _ -> a) 0 r.rr_cols
             | _ -> 0) in
         let base = malloc + 64 * (len + dlen) + 65536 + codec_buffer in
         if maxreq > base && maxreq > base + typed_vector () then
           Printf.sprintf "diff alloc-accounting maxreq=%d model_alloc=%d len=%d" maxreq malloc len
         else if (match hwm with Some h -> not (stack_in_bound c (n_of_i h)) | None -> false) then
           (* measured stack use above the prediction from the model's recursion depth (C08_stack) *)
           Printf.sprintf "diff stack-accounting hwm=%d predicted=%d model_depth=%s"
             (match hwm with Some h -> h | None -> 0) (int_of_n (stack_bound c)) (dec_of_n c.c_depth)
         else if small = "overflow" || small = "differ" then
           (* the model bounds the recursion by 257 levels: a quarter (512 KiB) of the 2 MiB stack must do *)
           "diff stack-accounting small-stack-run=" ^ small ^ " model_depth=" ^ dec_of_n c.c_depth
         else "ok"
       end)
  | _ -> "error unknown-case"

(* ---------- gen mode: random well-formed responses, encoded by the extracted encoder ---------- *)
let rng = ref 88172645463325252
let next () = (* xorshift64* on 62 bits *)
  let x = !rng in
  let x = x lxor (x lsl 13) in let x = x lxor (x lsr 7) in let x = x lxor (x lsl 17) in
  rng := x land max_int; (!rng lsr 3)
let below n = if n <= 0 then 0 else next () mod n
let chance a b = below b < a
let pick l = List.nth l (below (List.length l))
let nb (i : int) : n = n_of_i i
let bytes_of_str (s : string) : n list = List.init (String.length s) (fun i -> nb (Char.code s.[i]))

let gen_utf8 () : n list =
  match below 12 with
  | 0 -> []
  | 1 -> bytes_of_str (pick ["ks"; "system"; "tbl"; "a"; "SIMPLE"; "CREATED"; "KEYSPACE"; "org.apache.cassandra.db.marshal.Int32Type"])
  | 2 -> (* multi-byte sequences *)
    List.concat (List.init (1 + below 4) (fun _ -> match below 4 with
        | 0 -> [nb 0xC3; nb 0xA9] | 1 -> [nb 0xE2; nb 0x82; nb 0xAC] | 2 -> [nb 0xF0; nb 0x9F; nb 0x98; nb 0x80] | _ -> [nb 0x7A]))
  | _ -> List.init (1 + below 10) (fun _ -> nb (97 + below 26))
let gen_bytes k = List.init (below k) (fun _ -> nb (below 256))
let gen_int () : z = match below 6 with
  | 0 -> z_of_i 0 | 1 -> z_of_i (-1) | 2 -> z_of_i 2147483647 | 3 -> z_of_i (-2147483648) | _ -> z_of_i (below 100000 - 50000)
let gen_strlist k = List.init (below k) (fun _ -> gen_utf8 ())
let natives = [Ascii; Boolean; Blob; Counter; Date; Decimal; Double; Duration; Float; Int; BigInt; Text;
               Timestamp; Inet; SmallInt; TinyInt; Time; Timeuuid; Uuid; Varint]
let rec gen_type d : coltype =
  if d <= 0 || chance 1 2 then TNative (pick natives)
  else match below 5 with
    | 0 -> TList (false, gen_type (d - 1))
    | 1 -> TSet (false, gen_type (d - 1))
    | 2 -> TMap (false, gen_type (d - 1), gen_type (d - 1))
    | 3 -> TUdt (false, gen_utf8 (), gen_utf8 (), List.init (below 4) (fun _ -> (gen_utf8 (), gen_type (d - 1))))
    | _ -> TTuple (List.init (below 4) (fun _ -> gen_type (d - 1)))
let rec nest k t = if k <= 0 then t else nest (k - 1) (TList (false, t))
let gen_cols global n : colspec list =
  let g = (gen_utf8 (), gen_utf8 ()) in
  List.init n (fun _ -> { cs_table = (if global then g else (gen_utf8 (), gen_utf8 ())); cs_name = gen_utf8 (); cs_type = gen_type 3 })
let be32i (v : int) : n list = List.map nb [(v lsr 24) land 255; (v lsr 16) land 255; (v lsr 8) land 255; v land 255]
let rnd k = List.init k (fun _ -> nb (below 256))
let item (v : n list) : n list = be32i (List.length v) @ v
let fixed_width = function
  | TNative (Boolean | TinyInt) -> Some 1 | TNative SmallInt -> Some 2
  | TNative (Int | Float | Date) -> Some 4
  | TNative (BigInt | Counter | Timestamp | Double | Time) -> Some 8
  | TNative (Uuid | Timeuuid) -> Some 16 | _ -> None
(* bytes that the typed deserialiser accepts for the type (mostly) *)
let rec gen_val (t : coltype) : n list =
  match t with
  | TNative n ->
    (match n with
     | Ascii -> List.init (below 6) (fun _ -> nb (97 + below 26))
     | Text -> gen_utf8 ()
     | Boolean -> [nb (below 2)] | Blob | Varint -> gen_bytes 9
     | Counter | BigInt | Timestamp | Double -> rnd 8
     | Time -> [N0; N0] @ rnd 6 |> fun l -> (match l with a :: b :: c :: r -> a :: b :: nb (below 64) :: r | l -> l)
     | Date | Float | Int -> rnd 4
     | Decimal -> rnd 4 @ gen_bytes 6
     | Duration -> [nb (below 128); nb (below 128); nb (below 128)]
     | Inet -> if chance 1 2 then rnd 4 else rnd 16
     | SmallInt -> rnd 2 | TinyInt -> rnd 1 | Timeuuid | Uuid -> rnd 16)
  | TList (_, e) | TSet (_, e) -> let k = below 4 in be32i k @ List.concat (List.init k (fun _ -> item (gen_val e)))
  | TMap (_, k, v) -> let c = below 3 in be32i c @ List.concat (List.init c (fun _ -> item (gen_val k) @ item (gen_val v)))
  | TVector (e, d) ->
    (match fixed_width e with
     | Some _ -> List.concat (List.init (int_of_n d) (fun _ -> gen_val e))
     | None -> gen_bytes 10)
  | TTuple es -> List.concat (List.map (fun e -> if chance 1 6 then be32i 0xFFFFFFFF else item (gen_val e)) es)
  | TUdt (_, _, _, fs) -> List.concat (List.map (fun (_, e) -> if chance 1 6 then be32i 0xFFFFFFFF else item (gen_val e)) fs)
let gen_cell_for (t : coltype) : cell =
  match below 10 with 0 -> None | 1 -> Some (gen_bytes 12) | _ -> Some (gen_val t)
let gen_cell () : cell = if chance 1 5 then None else Some (gen_bytes 12)
(* the "tablets-routing-v1" payload entry: tuple<bigint, bigint, list<tuple<uuid, int>>> without the outer length *)
let gen_tablet_payload () : n list =
  let tok () = rnd 8 in
  let f, l = (if chance 3 4 then ([nb 0x10] @ rnd 7, [nb 0x40] @ rnd 7) else (tok (), tok ())) in
  let k = below 4 in
  let rep () = item (item (rnd 16) @ item ((if chance 1 8 then [nb 0xFF] else [N0]) @ rnd 3)) in
  let lst = be32i k @ List.concat (List.init k (fun _ -> rep ())) in
  match below 8 with
  | 0 -> item f @ item l                      (* list missing: empty iterator *)
  | 1 -> item f @ item l @ be32i 0xFFFFFFFF   (* null list *)
  | 2 -> item f @ item (rnd 7) @ item lst     (* wrong width *)
  | _ -> item f @ item l @ item lst
let gen_sc () : schema_change =
  let ct = pick [CtCreated; CtUpdated; CtDropped] in
  match below 5 with
  | 0 -> ScKeyspace (ct, gen_utf8 ()) | 1 -> ScTable (ct, gen_utf8 (), gen_utf8 ()) | 2 -> ScType (ct, gen_utf8 (), gen_utf8 ())
  | 3 -> ScFunction (ct, gen_utf8 (), gen_utf8 (), gen_strlist 4) | _ -> ScAggregate (ct, gen_utf8 (), gen_utf8 (), gen_strlist 4)
let gen_addr () = ((if chance 1 2 then List.init 4 (fun _ -> nb (below 256)) else List.init 16 (fun _ -> nb (below 256))), nb (below 65536))
let wts = [WtSimple; WtBatch; WtUnloggedBatch; WtCounter; WtBatchLog; WtCas; WtView; WtCdc]
let gen_wt () = if chance 1 5 then WtOther (bytes_of_str "WEIRD") else pick wts
let gen_cl () = nb (below 11)
let dedup_keys l = let seen = Hashtbl.create 8 in
  List.filter (fun (k, _) -> if Hashtbl.mem seen k then false else (Hashtbl.add seen k (); true)) l

let gen_response (ft : features) (v2 : bool) (deep : int) : response =
  match below 16 with
  | 0 | 1 ->
    let reason = gen_utf8 () in
    let e = (match below 21 with
        | 0 -> DbServerError | 1 -> DbProtocolError | 2 -> DbAuthenticationError
        | 3 -> DbUnavailable (gen_cl (), gen_int (), gen_int ()) | 4 -> DbOverloaded | 5 -> DbIsBootstrapping
        | 6 -> DbTruncateError | 7 -> DbWriteTimeout (gen_cl (), gen_int (), gen_int (), gen_wt ())
        | 8 -> DbReadTimeout (gen_cl (), gen_int (), gen_int (), chance 1 2)
        | 9 -> DbReadFailure (gen_cl (), gen_int (), gen_int (), gen_int (), chance 1 2)
        | 10 -> DbFunctionFailure (gen_utf8 (), gen_utf8 (), gen_strlist 4)
        | 11 -> DbWriteFailure (gen_cl (), gen_int (), gen_int (), gen_int (), gen_wt ())
        | 12 -> DbSyntaxError | 13 -> DbUnauthorized | 14 -> DbInvalid | 15 -> DbConfigError
        | 16 -> DbAlreadyExists (gen_utf8 (), gen_utf8 ()) | 17 -> DbUnprepared (gen_bytes 20)
        | 18 -> (match ft.ft_rate_limit with Some _ -> DbRateLimitReached (nb (below 4), chance 1 2) | None -> DbOverloaded)
        | _ -> DbOther (z_of_i (0x7000 + below 100))) in
    RError (e, reason)
  | 2 -> RReady
  | 3 -> RAuthenticate (gen_utf8 ())
  | 4 -> RSupported (dedup_keys (List.init (below 5) (fun _ -> (gen_utf8 (), gen_strlist 4))))
  | 5 -> RAuthChallenge (if chance 1 3 then None else Some (gen_bytes 20))
  | 6 -> RAuthSuccess (if chance 1 3 then None else Some (gen_bytes 20))
  | 7 | 8 ->
    REvent (match below (if v2 then 4 else 3) with
        | 0 -> EvTopology (chance 1 2, gen_addr ()) | 1 -> EvStatus (chance 1 2, gen_addr ()) | 2 -> EvSchema (gen_sc ())
        | _ -> let k = below 4 in EvClientRoutes (List.init k (fun _ -> gen_utf8 ()), List.init k (fun _ -> List.init 16 (fun _ -> nb (below 256)))))
  | 9 -> RResult ResVoid
  | 10 -> RResult (ResSetKeyspace (gen_utf8 ()))
  | 11 -> RResult (ResSchemaChange (gen_sc ()))
  | 12 ->
    let global = chance 1 2 in
    let pglobal = chance 1 2 in
    let npc = below 4 in let nrc = below 4 in
    let pglobal = pglobal && npc > 0 and global = global && nrc > 0 in
    let nomd = chance 1 5 in
    let pkn = below 4 in
    let wire = List.init pkn (fun _ -> below 6) in
    let pk = List.sort compare (List.mapi (fun i x -> (x, i)) wire) in
    RResult (ResPrepared {
        p_id = gen_bytes 20; p_result_metadata_id = (if ft.ft_metadata_id then Some (gen_bytes 20) else None);
        p_flags = z_of_i ((if pglobal then 1 else 0) + (if chance 1 4 then 16 else 0)); p_col_count = nb npc;
        p_pk = List.map (fun (x, i) -> (nb x, nb i)) pk; p_cols = gen_cols pglobal npc;
        pr_global = global; pr_no_metadata = nomd; pr_col_count = nb nrc;
        pr_cols = (if nomd then [] else gen_cols global nrc) })
  | _ ->
    let ncols = (if chance 1 8 then 0 else 1 + below 4) in
    let global = chance 1 2 && ncols > 0 in
    let nomd = chance 1 8 in
    let changed = ft.ft_metadata_id && not nomd && chance 1 3 in
    let cols0 = gen_cols global ncols in
    (* one time in three: column types for which a typed tuple target exists *)
    let cols0 = if chance 1 3 && deep = 0 then
        (match cols0 with
         | [c] -> [{ c with cs_type = pick [TNative Int; TNative Blob; TNative Boolean; TList (false, TNative Int); TSet (false, TNative Int)] }]
         | [a; b] -> [{ a with cs_type = TNative BigInt }; { b with cs_type = pick [TNative Text; TNative Ascii] }]
         | l -> l) else cols0 in
    let cols = if deep > 0 && ncols > 0 then
        List.mapi (fun i c -> if i = 0 then { c with cs_type = nest deep c.cs_type } else c) cols0 else cols0 in
    let cols = if nomd then [] else cols in
    let nrows = below 5 in
    let rows = if cols = [] then [] else
        List.init nrows (fun _ -> List.map (fun c -> if deep > 0 then gen_cell () else gen_cell_for c.cs_type) cols) in
    RResult (ResRows {
        rr_hdr = { rh_col_count = nb ncols; rh_global = global; rh_no_metadata = nomd; rh_metadata_changed = changed;
                   rh_paging = (if chance 1 3 then Some (gen_bytes 16) else None) };
        rr_meta_id = (if changed then Some (gen_bytes 16) else None);
        rr_cols = cols; rr_rows_count = nb nrows; rr_rows = rows })

let gen_frame (ft : features) (v2 : bool) (deep : int) : dframe =
  let resp = gen_response ft v2 deep in
  let tr = chance 1 4 and w = chance 1 4 and pl = chance 1 4 in
  let flags = (if tr then 2 else 0) + (if w then 8 else 0) + (if pl then 4 else 0) + (if chance 1 10 then 0x10 else 0) in
  let x = { x_trace = (if tr then Some (List.init 16 (fun _ -> nb (below 256))) else None);
            x_warnings = (if w then gen_strlist 3 else []);
            x_payload = (if pl then Some (dedup_keys ((if chance 1 2 then [(bytes_of_str "tablets-routing-v1", gen_tablet_payload ())] else [])
                                                     @ List.init (below 3) (fun _ -> (gen_utf8 (), gen_bytes 10)))) else None) } in
  let opcode = match resp with
    | RError _ -> 0 | RReady -> 2 | RAuthenticate _ -> 3 | RSupported _ -> 6 | RResult _ -> 8 | REvent _ -> 12
    | RAuthChallenge _ -> 14 | RAuthSuccess _ -> 16 in
  let h0 = { h_version = nb 132; h_flags = nb flags; h_stream = z_of_i (below 65536 - 32768); h_opcode = nb opcode; h_length = N0 } in
  let f0 = { d_header = h0; d_ext = x; d_resp = resp } in
  let body = enc_body ft f0 in
  { f0 with d_header = { h0 with h_length = nb (List.length body) } }

(* a PREPARED response and a Rows response without metadata whose cells fit the prepared result columns *)
let gen_pair (ft : features) : n list =
  let nrc = below 4 in
  let global = chance 1 2 && nrc > 0 in
  let rcols = gen_cols global nrc in
  let nomd = chance 1 10 in
  let p = { p_id = gen_bytes 12; p_result_metadata_id = (if ft.ft_metadata_id then Some (gen_bytes 8) else None);
            p_flags = z_of_i 0; p_col_count = N0; p_pk = []; p_cols = [];
            pr_global = global; pr_no_metadata = nomd; pr_col_count = nb nrc; pr_cols = (if nomd then [] else rcols) } in
  let mk resp =
    let h0 = { h_version = nb 132; h_flags = N0; h_stream = z_of_i (below 1000); h_opcode = nb 8; h_length = N0 } in
    let f0 = { d_header = h0; d_ext = { x_trace = None; x_warnings = []; x_payload = None }; d_resp = resp } in
    let body = enc_body ft f0 in
    encode_frame (fun b -> b) ft { f0 with d_header = { h0 with h_length = nb (List.length body) } } in
  let nrows = below 4 in
  let with_md = chance 1 5 in
  (* one time in four the rows are written for one column more / fewer than the cached metadata has *)
  let row_cols = if nomd then [] else
      (match below 8 with
       | 0 -> rcols @ gen_cols false 1
       | 1 -> (match rcols with [] -> [] | _ :: t -> t)
       | _ -> rcols) in
  let rows = List.init nrows (fun _ -> List.map (fun c -> gen_cell_for c.cs_type) row_cols) in
  let r = if with_md then
      (let cols = gen_cols false 1 in
       { rr_hdr = { rh_col_count = nb 1; rh_global = false; rh_no_metadata = false; rh_metadata_changed = false; rh_paging = None };
         rr_meta_id = None; rr_cols = cols; rr_rows_count = nb nrows;
         rr_rows = List.init nrows (fun _ -> List.map (fun c -> gen_cell_for c.cs_type) cols) })
    else
      { rr_hdr = { rh_col_count = nb (below 5); rh_global = false; rh_no_metadata = true; rh_metadata_changed = false;
                   rh_paging = (if chance 1 3 then Some (gen_bytes 8) else None) };
        rr_meta_id = None; rr_cols = []; rr_rows_count = nb nrows; rr_rows = rows } in
  mk (RResult (ResPrepared p)) @ mk (RResult (ResRows r))

(* kind F: the same response re-encoded by the extracted encoder with ONE count / length / flag field set to
   a boundary value (the field map is the encoder's: no byte offsets are guessed); the header length stays
   that of the new body unless it is the mutated field *)
let boundary () : n = pick [N0; nb 1; nb 2; nb 0x7fff; nb 0xffff; nb 0x10000; n_of_hex "7fffffff"; n_of_hex "80000000"; n_of_hex "ffffffff"; n_of_hex "fffffffe"]
let mutate_fields (ft : features) (f : dframe) : n list =
  let reframe ?(len_delta = 0) ?(flags = None) ?(opcode = None) ?(version = None) (resp : response) (x : extensions) =
    let h = f.d_header in
    let h0 = { h with h_flags = (match flags with Some v -> v | None -> h.h_flags);
                      h_opcode = (match opcode with Some v -> v | None -> h.h_opcode);
                      h_version = (match version with Some v -> v | None -> h.h_version) } in
    let f0 = { d_header = h0; d_ext = x; d_resp = resp } in
    let body = enc_body ft f0 in
    encode_frame (fun b -> b) ft { f0 with d_header = { h0 with h_length = nb (max 0 (List.length body + len_delta)) } } in
  let x = f.d_ext and r = f.d_resp in
  match below 10, r with
  | 0, _ -> reframe ~len_delta:(pick [-1; 1; -4; 4; 1000]) r x
  | 1, _ -> reframe ~flags:(Some (nb (below 32))) r x
  | 2, _ -> reframe ~opcode:(Some (nb (pick [0; 2; 3; 6; 8; 12; 14; 16; 1; 255]))) r x
  | 3, _ -> reframe ~version:(Some (nb (pick [4; 131; 133; 0x84; 0xff]))) r x
  | _, RResult (ResRows rr) ->
    let h = rr.rr_hdr in
    let rr' = (match below 6 with
        | 0 -> { rr with rr_hdr = { h with rh_col_count = boundary () } }
        | 1 -> { rr with rr_rows_count = boundary () }
        | 2 -> { rr with rr_hdr = { h with rh_global = not h.rh_global } }
        | 3 -> { rr with rr_hdr = { h with rh_no_metadata = not h.rh_no_metadata } }
        | 4 -> { rr with rr_hdr = { h with rh_metadata_changed = not h.rh_metadata_changed } }
        | _ -> { rr with rr_hdr = { h with rh_paging = (match h.rh_paging with None -> Some (gen_bytes 5) | Some _ -> None) } }) in
    reframe (RResult (ResRows rr')) x
  | _, RResult (ResPrepared p) ->
    let p' = (match below 6 with
        | 0 -> { p with p_col_count = boundary () }
        | 1 -> { p with pr_col_count = boundary () }
        | 2 -> { p with p_flags = z_of_hex (hex_of_n (boundary ())) }
        | 3 -> { p with pr_no_metadata = not p.pr_no_metadata }
        | 4 -> { p with pr_global = not p.pr_global }
        | _ -> { p with p_pk = List.map (fun (i, q) -> (boundary (), q)) p.p_pk }) in
    reframe (RResult (ResPrepared p')) x
  | _, RError (e, reason) ->
    let e' = (match e with
        | DbUnavailable (_, a, b) -> DbUnavailable (boundary (), a, b)
        | DbWriteTimeout (cl, _, b, w) -> DbWriteTimeout (cl, z_of_hex (hex_of_n (boundary ())), b, w)
        | DbReadTimeout (_, a, b, d) -> DbReadTimeout (boundary (), a, b, d)
        | DbOther _ -> DbOther (z_of_hex (hex_of_n (boundary ())))
        | e -> DbOther (z_of_i (pick [0x1000; 0x1100; 0x1200; 0x1300; 0x1400; 0x1500; 0x2400; 0x2500; 0x4321]))) in
    reframe (RError (e', reason)) x
  | _, _ ->
    (* the extension fields are explicit in every frame *)
    reframe r { x with x_trace = (match x.x_trace with None -> Some (gen_bytes 20) | Some t -> Some (List.tl t));
                       x_payload = (match x.x_payload with None -> Some [] | Some _ -> None) }

let gen_main seed count =
  rng := (seed * 2862933555777941757 + 3037000493) land max_int;
  if !rng = 0 then rng := 1;
  for i = 0 to count - 1 do
    let ft = { ft_rate_limit = (if chance 1 2 then Some (z_of_i (0x4321 + below 3)) else None); ft_metadata_id = chance 1 2 } in
    let v2 = chance 2 3 in
    (* a few frames with deeply nested column types: 10, 120, 128 (the limit), 129, 1000, 100000 *)
    if i mod 12 = 7 then
      Printf.printf "P rl:%s,mid:%s 2 %s\n"
        (match ft.ft_rate_limit with None -> "-" | Some z -> hex_of_z z) (b01 ft.ft_metadata_id)
        (let s = hexs (gen_pair ft) in String.sub s 1 (String.length s - 1))
    else
    let deep = if i mod 97 = 5 then pick [10; 100; 127; 128; 129; 1000] else if i mod 997 = 11 then 100000 else 0 in
    let f = gen_frame ft v2 deep in
    let wire = encode_frame (fun b -> b) ft f in
    if deep = 0 then
      for _ = 1 to 3 do
        Printf.printf "F rl:%s,mid:%s %s %s\n"
          (match ft.ft_rate_limit with None -> "-" | Some z -> hex_of_z z) (b01 ft.ft_metadata_id)
          (if v2 then "2" else "1") (let s = hexs (mutate_fields ft f) in String.sub s 1 (String.length s - 1))
      done;
    Printf.printf "rl:%s,mid:%s %s %s\n"
      (match ft.ft_rate_limit with None -> "-" | Some z -> hex_of_z z) (b01 ft.ft_metadata_id)
      (if v2 then "2" else "1") (let s = hexs wire in String.sub s 1 (String.length s - 1))
  done

let () =
  if Array.length Sys.argv >= 4 && Sys.argv.(1) = "gen" then
    gen_main (int_of_string Sys.argv.(2)) (int_of_string Sys.argv.(3))
  else run_lines verdict
