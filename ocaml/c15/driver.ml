(* C15 correspondence driver: replays every history on the extracted Tablets model and compares,
   step by step, the complete observation printed by the harness (exact, textual).  Only when a
   step differs are the property predicates evaluated on the implementation's own output:
   ranges sorted/disjoint/non-empty (ranges_okb), lookup = spec_lookup of the history,
   per-DC lookup = restriction of the full replica list, maintenance/learn does not panic. *)

let split c s = if s = "-" || s = "" then [] else String.split_on_char c s

let p_dc s = if s = "n" then None else Some (n_of_hex s)
let p_node s = match String.split_on_char '.' s with
  | [h; g; d] -> { host = n_of_hex h; gen = n_of_hex g; ndc = p_dc d }
  | _ -> failwith ("node " ^ s)
let p_nodes s = List.map p_node (split ',' s)
let p_tkey s = match String.split_on_char '.' s with
  | [k; t] -> (n_of_hex k, n_of_hex t) | _ -> failwith ("tkey " ^ s)

(* a history event as the driver sees it: a value-level op, or a byte payload (None: key absent) *)
type dop = DOp of op | DBytes of tkey * n list option * node list

let p_bytes_opt s = if s = "N" then None else Some (bytes_of_hexstr s)

let pres_tag (r : pres) : string =
  match r with
  | P_Ok (f, l, reps) ->
    Printf.sprintf "a:%s:%s:%s" (hex_of_z f) (hex_of_z l)
      (if reps = [] then "-" else String.concat "," (List.map (fun (h, s) -> hex_of_n h ^ "." ^ hex_of_n s) reps))
  | P_Deser e -> "rDeserialization:" ^ (match e with
      | DE_ExpectedNonNull -> "ExpectedNonNull" | DE_ByteLengthMismatch -> "ByteLengthMismatch"
      | DE_RawCqlBytesRead -> "RawCqlBytesRead" | DE_LengthDeser -> "LengthDeser"
      | DE_OutOfFuel -> "OutOfFuel(model-artefact)" | _ -> "Other")
  | P_WrongTokenRange -> "rWrongTokenRange"
  | P_ShardNum -> "rShardNum"

let bytes_tag = function None -> "none" | Some b -> pres_tag (parse_payload b)

let rec p_dop (s : string) : dop =
  match String.split_on_char '/' s with
  | ["B"; kt; bytes; known] -> DBytes (p_tkey kt, p_bytes_opt bytes, p_nodes known)
  | _ -> DOp (p_op s)

and p_op (s : string) : op =
  match String.split_on_char '/' s with
  | ["L"; kt; a; b; raw; known] ->
    Learn (p_tkey kt, z_of_hex a, z_of_hex b,
           List.map (fun x -> match String.index_opt x '.' with
               | Some i -> (n_of_hex (String.sub x 0 i), z_of_hex (String.sub x (i + 1) (String.length x - i - 1)))
               | None -> failwith "raw") (split ',' raw),
           p_nodes known)
  | ["M"; kss; removed; current; recreated] ->
    Maintain (List.map (fun x -> match String.split_on_char ':' x with
        | [k; tb; ts; vs] -> { ks_name = n_of_hex k; ks_tablet_based = (tb = "1");
                               ks_tables = List.map n_of_hex (split '+' ts);
                               ks_views = List.map n_of_hex (split '+' vs) }
        | _ -> failwith "ks") (split ',' kss),
              List.map n_of_hex (split ',' removed), p_nodes current, p_nodes recreated)
  | ["R"; kss; old; nw] ->
    refresh_op (List.map (fun x -> match String.split_on_char ':' x with
        | [k; tb; ts; vs] -> { ks_name = n_of_hex k; ks_tablet_based = (tb = "1");
                               ks_tables = List.map n_of_hex (split '+' ts);
                               ks_views = List.map n_of_hex (split '+' vs) }
        | _ -> failwith "ks") (split ',' kss)) (p_nodes old) (p_nodes nw)
  | _ -> failwith ("op " ^ s)

let join sep f l = if l = [] then "-" else String.concat sep (List.map f l)
let dc_s = function None -> "n" | Some d -> hex_of_n d
let rep_s ((nd, s) : replica) = Printf.sprintf "%s.%s.%s.%s" (hex_of_n nd.host) (hex_of_n nd.gen) (dc_s nd.ndc) (hex_of_n s)
let reps_s l = join "," rep_s l
let tablet_s (t : tablet) =
  Printf.sprintf "%s:%s:%s:%s" (hex_of_z t.t_first) (hex_of_z t.t_last) (reps_s t.t_reps.r_all)
    (match t.t_failed with None -> "n" | Some f -> join "," (fun (h, s) -> hex_of_n h ^ "." ^ hex_of_n s) f)

(* the model's observation of a state, in the harness' format *)
let observe (s : info) (res : string) tables tokens dcs : string =
  let b = Buffer.create 256 in
  Buffer.add_string b res; Buffer.add_char b '~';
  Buffer.add_string b (if s.i_flag then "1" else "0");
  List.iter (fun k ->
      match find_table s k with
      | None -> Buffer.add_string b "~A"
      | Some tt ->
        Buffer.add_string b (if tt.tt_flag then "~1[" else "~0[");
        Buffer.add_string b (String.concat ";" (List.map tablet_s tt.tt_list));
        Buffer.add_char b ']';
        let seen = ref [] in
        List.iter (fun tok ->
            let tok = token_new tok in
            let lk = match tablet_for_token tt.tt_list tok, replicas_for_token tt.tt_list tok with
              | None, None -> "n"
              | Some t, Some all ->
                Printf.sprintf "%s:%s:%s:%s" (hex_of_z t.t_first) (hex_of_z t.t_last) (reps_s all)
                  (String.concat "/" (List.map (fun d ->
                       match dc_replicas_for_token tt.tt_list tok d with Some l -> reps_s l | None -> "?") dcs))
              | _ -> "inconsistent" in
            let rec pos i = function [] -> None | x :: r -> if x = lk then Some i else pos (i + 1) r in
            (match pos 0 (List.rev !seen) with
             | Some i when lk <> "n" -> Buffer.add_string b (Printf.sprintf "@=%x" i)
             | _ -> Buffer.add_char b '@'; Buffer.add_string b lk);
            seen := lk :: !seen) tokens) tables;
  Buffer.contents b

let model_res (s : info) (o : op) : string =
  match o with
  | Maintain _ -> "m"
  | Learn (k, a, b, raw, known) ->
    (match payload_check a b raw with
     | Err WrongTokenRange -> "rWrongTokenRange"
     | Err ShardNum -> "rShardNum"
     | Ok _ -> "a")

(* ---- the property evaluated on the implementation's observation of one step ---- *)

(* parse "<res>~<iflag>~<table>~<table>" ; table = A | f[tablets]@lk@lk *)
let parse_table (s : string) =
  if s = "A" then None else begin
    let lb = String.index s '[' and rb = String.index s ']' in
    let tablets = String.sub s (lb + 1) (rb - lb - 1) in
    let rest = String.sub s (rb + 1) (String.length s - rb - 1) in
    let lks = match String.split_on_char '@' rest with _ :: l -> l | [] -> [] in
    let arr = Array.of_list lks in
    let lks = List.map (fun lk ->
        if String.length lk > 1 && lk.[0] = '=' then
          (let i = int_of_string ("0x" ^ String.sub lk 1 (String.length lk - 1)) in
           if i < Array.length arr then arr.(i) else lk)
        else lk) lks in
    let ranges = List.map (fun t -> match String.split_on_char ':' t with
        | f :: l :: _ -> (z_of_hex f, z_of_hex l) | _ -> failwith "tablet")
        (if tablets = "" then [] else String.split_on_char ';' tablets) in
    Some (ranges, lks)
  end

(* replica lists as multisets of printed replicas: the property clauses are evaluated up to order, so an
   order-only difference is a broken correspondence (diff), not a violation of the property *)
let sorted_reps (s : string) : string list = List.sort compare (split ',' s)
let same_multiset (a : string) (b : string) : bool = sorted_reps a = sorted_reps b

exception Malformed of string

(* returns Some reason when the PROPERTY fails on the implementation's output of this step;
   raises Malformed when that output cannot be parsed (reported as error, not as viol) *)
let property_fails (hist : op list) tables tokens dcs (obs : string) : string option =
  if obs = "panic" then Some "panic" else
  match String.split_on_char '~' obs with
  | _ :: _ :: tabs when List.length tabs = List.length tables ->
    let fail = ref None in
    List.iter2 (fun k tab ->
        if !fail = None then
        match (try parse_table tab with _ -> raise (Malformed "table")) with
        | None ->
          (* the table has no entry: every watched token is answered by nothing; the property fails when
             the history says that a learnt tablet still answers one of them (a lost lookup) *)
          List.iter (fun tok ->
              if !fail = None then
                let tok = token_new tok in
                match spec_lookup hist k tok with
                | Some l -> fail := Some (Printf.sprintf "lookup-lost-table-absent tok=%s spec=%s" (hex_of_z tok) (reps_s l))
                | None -> ()) tokens
        | Some (ranges, lks) ->
          if not (ranges_okb ranges) then fail := Some "ranges-not-sorted-disjoint"
          else begin
            if List.length lks <> List.length tokens then raise (Malformed "lookup-count");
            List.iter2 (fun tok lk ->
                if !fail = None then begin
                  let tok = token_new tok in
                  let spec = spec_lookup hist k tok in
                  let impl_all, impl_dcs =
                    if lk = "n" then None, []
                    else match String.split_on_char ':' lk with
                      | [_; _; all; per] -> Some all, String.split_on_char '/' per
                      | _ -> raise (Malformed "lookup") in
                  (match spec, impl_all with
                   | None, None -> ()
                   | Some l, Some a when same_multiset (reps_s l) a -> ()
                   | _ -> fail := Some (Printf.sprintf "lookup-differs-from-spec tok=%s spec=%s"
                                          (hex_of_z tok) (match spec with None -> "n" | Some l -> reps_s l)));
                  if !fail = None && impl_all <> None then begin
                    if List.length impl_dcs <> List.length dcs then raise (Malformed "dc-count");
                    List.iter2 (fun d got ->
                        match spec_lookup_dc hist k tok d with
                        | Some l when not (same_multiset (reps_s l) got) && !fail = None ->
                          fail := Some (Printf.sprintf "dc-list-not-restriction tok=%s dc=%s spec=%s" (hex_of_z tok) (hex_of_n d) (reps_s l))
                        | _ -> ()) dcs impl_dcs
                  end
                end) tokens lks
          end) tables tabs;
    !fail
  | _ -> raise (Malformed "step")

(* the clauses of the property that do not need the history (hence not the model's decoding of a byte
   payload): every table's ranges sorted / disjoint / non-empty, and every per-DC answer = the restriction of the
   implementation's OWN full answer to that datacenter (replicas are printed host.gen.dc.shard) *)
let property_fails_indep tables tokens dcs (obs : string) : string option =
  if obs = "panic" then Some "panic" else
  match String.split_on_char '~' obs with
  | _ :: _ :: tabs when List.length tabs = List.length tables ->
    let fail = ref None in
    List.iter (fun tab ->
        if !fail = None then
        match (try parse_table tab with _ -> raise (Malformed "table")) with
        | None -> ()
        | Some (ranges, lks) ->
          if not (ranges_okb ranges) then fail := Some "ranges-not-sorted-disjoint"
          else begin
            if List.length lks <> List.length tokens then raise (Malformed "lookup-count");
            List.iter (fun lk ->
                if !fail = None && lk <> "n" then
                  match String.split_on_char ':' lk with
                  | [_; _; all; per] ->
                    let per = String.split_on_char '/' per in
                    if List.length per <> List.length dcs then raise (Malformed "dc-count");
                    List.iter2 (fun d got ->
                        let want = List.filter (fun r -> match String.split_on_char '.' r with
                            | [_; _; dc; _] -> dc = hex_of_n d | _ -> raise (Malformed "replica")) (split ',' all) in
                        if List.sort compare want <> sorted_reps got && !fail = None then
                          fail := Some (Printf.sprintf "dc-list-not-restriction dc=%s of=%s" (hex_of_n d) all)) dcs per
                  | _ -> raise (Malformed "lookup")) lks
          end) tabs;
    !fail
  | _ -> raise (Malformed "step")

(* the value-level event of a byte payload (C15_bytes_as_learn); an absent key is no event at all:
   it is represented by a refused payload, which changes nothing either *)
let abstract_dop = function
  | DOp o -> o
  | DBytes (k, Some b, known) -> learn_of_bytes k b known
  | DBytes (k, None, known) -> Learn (k, Z0, Z0, [], known)
let dstep (s : info) = function
  | DOp o -> step s o
  | DBytes (k, Some b, known) -> step_bytes s k b known
  | DBytes (_, None, _) -> Some s
let dres_tag (s : info) = function
  | DOp o -> model_res s o
  | DBytes (_, b, _) -> bytes_tag b

let verdict case impl =
  match case with
  | kind :: tables :: tokens :: dcs :: ops when String.length kind >= 1 && kind.[0] = 'H' ->
    let tables = List.map p_tkey (split ',' tables) in
    let tokens = List.map z_of_hex (split ',' tokens) in
    let dcs = List.map n_of_hex (split ',' dcs) in
    let ops = List.map p_dop ops in
    if not (List.for_all (function DOp o -> op_i64b o | DBytes _ -> true) ops) then "error token-out-of-i64" else
    let impl = if impl = ["-"] then [] else impl in
    let rec go (s : info) (done_ : op list) ops obs i =
      match ops, obs with
      | [], [] -> "ok"
      | [], _ -> "diff extra-observations"
      | _ :: _, [] -> Printf.sprintf "diff missing-observation step=%d" i
      | o :: ops', ob :: obs' ->
        let hist = done_ @ [abstract_dop o] in
        (match dstep s o with
         | None ->
           (* the model never panics (C15_no_panic); kept for completeness *)
           if ob = "panic" then "viol panic step=" ^ string_of_int i else "diff model-panics step=" ^ string_of_int i
         | Some s' ->
           let m = observe s' (dres_tag s o) tables tokens dcs in
           if m = ob then go s' hist ops' obs' (i + 1)
           else if (match o with
               | DBytes _ -> ob <> "panic" &&
                             (match String.index_opt ob '~' with
                              | Some j -> String.sub ob 0 j <> dres_tag s o
                              | None -> true)
               | DOp _ -> false)
           then
             (* the implementation decoded this byte payload differently from the model: the history the
                specification would be evaluated on is the MODEL's decoding, so only the history-independent
                clauses of the property can be judged (they are, first); otherwise broken correspondence *)
             (match (try Ok (property_fails_indep tables tokens dcs ob) with Malformed w -> Err w) with
              | Err w -> Printf.sprintf "error malformed-observation step=%d %s" i w
              | Ok (Some why) -> Printf.sprintf "viol step=%d %s" i why
              | Ok None -> Printf.sprintf "diff step=%d decoder-divergence model=%s" i (dres_tag s o))
           else
             match (try Ok (property_fails hist tables tokens dcs ob) with Malformed w -> Err w) with
             | Err w -> Printf.sprintf "error malformed-observation step=%d %s" i w
             | Ok (Some why) -> Printf.sprintf "viol step=%d %s" i why
             | Ok None -> Printf.sprintf "diff step=%d model=%s" i (if String.length m > 300 then String.sub m 0 300 else m))
    in
    go info_empty [] ops impl 1
  | ["Pb"; bytes] ->
    (* from_custom_payload alone: decoded content / error class compared exactly.  The property part
       (C15_payload): an accepted payload must be a non-empty range inside i64 -> otherwise viol *)
    let m = bytes_tag (p_bytes_opt bytes) in
    let ob = String.concat " " impl in
    if m = ob then "ok"
    else if ob = "panic" then "viol panic"
    else (match String.split_on_char ':' ob with
        | ["a"; f; l; _] ->
          (try if ranges_okb [(z_of_hex f, z_of_hex l)] then "diff model=" ^ m else "viol accepted-empty-or-out-of-range model=" ^ m
           with _ -> "error malformed-observation")
        | _ -> "diff model=" ^ m)
  | ["Pe"; a; b; raw] ->
    (* the specification's encoder enc_payload (C15_payload_roundtrip) against the bytes of the crate's CQL
       serialiser and of the harness' encoder; and the round trip itself on the real decoder: its outcome on
       those bytes must be the value-level payload_check of (a, b, raw).  No property clause: never viol *)
    let a = z_of_hex a and b = z_of_hex b in
    let raw = List.map (fun x -> match String.index_opt x '.' with
        | Some i -> (n_of_hex (String.sub x 0 i), z_of_hex (String.sub x (i + 1) (String.length x - i - 1)))
        | None -> failwith "raw") (split ',' raw) in
    let enc = hexstr_of_bytes (enc_payload a b raw) in
    let expect = match payload_check a b raw with
      | Ok ((f, l), r) -> pres_tag (P_Ok (f, l, r))
      | Err WrongTokenRange -> "rWrongTokenRange" | Err ShardNum -> "rShardNum" in
    (match impl with
     | [ser; own; tag] ->
       if ser <> enc then "diff enc_payload-differs-from-serializer model=" ^ enc
       else if own <> enc then "diff enc_payload-differs-from-harness-encoder model=" ^ enc
       else if tag <> expect then "diff roundtrip model=" ^ expect
       else "ok"
     | _ -> "error malformed-observation")
  | _ -> "error unknown-case"

let () = run_lines verdict
