(* C19 correspondence driver: runs the extracted MergeChan model on the scripts the harness
   executed on the real channel and compares every observation exactly; the specification
   predicate (spec_check / stress_ok) is evaluated on the implementation's own observations
   only when they differ from the model's. *)

let n_of_int' (i : int) : n = n_of_int i

let parse_script (s : string) : op list =
  let tag = ref 0 in
  List.map (fun c -> match c with
      | 'M' -> let t = !tag in incr tag; OMerge (n_of_int' t)
      | 'N' -> ONoop | 'D' -> ODropSender | 'P' -> OPoll | 'C' -> OCancel | 'R' -> ODropReceiver
      | 'T' -> OTry
      | _ -> failwith "bad op") (chars_of_string s)

let parse_obs (tok : string) : obs * nat =
  match String.index_opt tok '/' with
  | None -> failwith ("bad observation token " ^ tok)
  | Some i ->
    let o = String.sub tok 0 i and w = String.sub tok (i + 1) (String.length tok - i - 1) in
    let wk = nat_of_int (int_of_string ("0x" ^ w)) in
    let ob =
      if o = "k" then ObsSend true else if o = "e" then ObsSend false
      else if o = "u" then ObsUnit else if o = "p" then ObsPoll Pending
      else if o = "rn" then ObsPoll (Ready None)
      else if String.length o > 1 && o.[0] = 'r' then
        ObsPoll (Ready (Some (List.map n_of_hex (String.split_on_char '.' (String.sub o 1 (String.length o - 1))))))
      else if o = "tn" then ObsTry None
      else if String.length o > 1 && o.[0] = 't' then
        ObsTry (Some (List.map n_of_hex (String.split_on_char '.' (String.sub o 1 (String.length o - 1)))))
      else failwith ("bad observation " ^ o) in
    (ob, wk)

let show_obs ((ob, wk) : obs * nat) : string =
  let l v = String.concat "." (List.map hex_of_n v) in
  (match ob with
   | ObsSend true -> "k" | ObsSend false -> "e" | ObsUnit -> "u"
   | ObsPoll Pending -> "p" | ObsPoll (Ready None) -> "rn" | ObsPoll (Ready (Some v)) -> "r" ^ l v
   | ObsTry None -> "tn" | ObsTry (Some v) -> "t" ^ l v)
  ^ "/" ^ Printf.sprintf "%x" (int_of_nat wk)

let show_trace tr = String.concat "," (List.map show_obs tr)

let parse_batches (s : string) : (n * n) list list =
  if s = "-" then [] else
    List.rev (List.rev_map (fun b ->
        List.map (fun r ->
            match String.index_opt r '+' with
            | Some i -> (n_of_hex (String.sub r 0 i), n_of_hex (String.sub r (i + 1) (String.length r - i - 1)))
            | None -> failwith ("bad run " ^ r)) (String.split_on_char '.' b))
        (String.split_on_char ';' s))

let verdict case impl =
  match case, impl with
  | [("X" | "Q"); script], [obs] ->
    let ops = parse_script script in
    let impl_tr = List.map parse_obs (String.split_on_char ',' obs) in
    (match run_ops ops init with
     | None -> "error model: script applies an operation that is not available"
     | Some tr ->
       if tr = impl_tr then "ok"
       else if not (spec_check ops a_init impl_tr) then "viol spec_check=false model=" ^ show_trace tr
       else "diff model=" ^ show_trace tr)
  | ["S"; _serial; n; _mode], [batches; fin] ->
    if fin = "hang" then "viol the consumer did not see the end of the stream within the time limit (lost wake-up or lost last update)"
    else begin
      let bs = parse_batches batches in
      if stress_ok (n_of_hex n) bs && fin = "end" then "ok"
      else "viol stress_ok=false: the received batches are not exactly the tags 0..n-1 in order"
    end
  | ["Z"; _serial; rounds; concurrent], [toks] ->
    (* user-visible half of the property: every requested refresh is answered (successfully) and the
       published cluster state shows the latest topology of the mock cluster *)
    let rounds = int_of_string ("0x" ^ rounds) and concurrent = int_of_string ("0x" ^ concurrent) in
    let toks = if toks = "-" then [] else String.split_on_char ',' toks in
    if List.length toks <> rounds then "diff shape: expected " ^ string_of_int rounds ^ " rounds"
    else begin
      let bad = ref "" in
      List.iteri (fun i tok ->
          match List.map (fun x -> int_of_string ("0x" ^ x)) (String.split_on_char '/' tok) with
          | [completed; ok; seen; mock] ->
            if !bad = "" then begin
              if completed <> concurrent then bad := Printf.sprintf "round %d: %d of %d refresh_metadata calls were answered" i completed concurrent
              else if ok <> concurrent then bad := Printf.sprintf "round %d: %d of %d refresh_metadata calls succeeded" i ok concurrent
              else if seen <> mock then bad := Printf.sprintf "round %d: the cluster state shows %d nodes, the mock cluster has %d" i seen mock
            end
          | _ -> if !bad = "" then bad := "bad token " ^ tok) toks;
      if !bad = "" then "ok" else "viol " ^ !bad
    end
  | _ -> "error unknown-case"

let () = run_lines verdict
