(* C19 correspondence driver: runs the extracted MergeChan model on the scripts the harness
   executed on the real channel and compares every observation exactly; the specification
   predicate (spec_check / stress_ok) is evaluated on the implementation's own observations
   only when they differ from the model's. *)

let n_of_int' (i : int) : n = n_of_int i

let parse_script (s : string) : op list =
  let tag = ref 0 in
  List.map (fun c -> match c with
      | 'M' -> let t = !tag in incr tag; OMerge (n_of_int' t)
      | 'N' -> ONoop | 'K' -> OClear | 'D' -> ODropSender | 'P' -> OPoll | 'C' -> OCancel | 'R' -> ODropReceiver
      | 'T' -> OTry
      | _ -> failwith "bad op") (chars_of_string s)

let parse_obs (tok : string) : obs * nat =
  match String.index_opt tok '/' with
  | None -> failwith ("bad observation token " ^ tok)
  | Some i ->
    let o = String.sub tok 0 i and w = String.sub tok (i + 1) (String.length tok - i - 1) in
    let wk = nat_of_int (int_of_string ("0x" ^ w)) in
    let ob =
      if o = "k" then ObsSend true else if o = "e" then ObsSend false
      else if o = "u" then ObsUnit else if o = "p" then ObsPoll Pending
      else if o = "rn" then ObsPoll (Ready None)
      else if String.length o > 1 && o.[0] = 'r' then
        ObsPoll (Ready (Some (List.map n_of_hex (String.split_on_char '.' (String.sub o 1 (String.length o - 1))))))
      else if o = "tn" then ObsTry None
      else if String.length o > 1 && o.[0] = 't' then
        ObsTry (Some (List.map n_of_hex (String.split_on_char '.' (String.sub o 1 (String.length o - 1)))))
      else failwith ("bad observation " ^ o) in
    (ob, wk)

let show_obs ((ob, wk) : obs * nat) : string =
  let l v = String.concat "." (List.map hex_of_n v) in
  (match ob with
   | ObsSend true -> "k" | ObsSend false -> "e" | ObsUnit -> "u"
   | ObsPoll Pending -> "p" | ObsPoll (Ready None) -> "rn" | ObsPoll (Ready (Some v)) -> "r" ^ l v
   | ObsTry None -> "tn" | ObsTry (Some v) -> "t" ^ l v)
  ^ "/" ^ Printf.sprintf "%x" (int_of_nat wk)

let show_trace tr = String.concat "," (List.map show_obs tr)

let parse_batches (s : string) : (n * n) list list =
  if s = "-" then [] else
    List.rev (List.rev_map (fun b ->
        List.map (fun r ->
            match String.index_opt r '+' with
            | Some i -> (n_of_hex (String.sub r 0 i), n_of_hex (String.sub r (i + 1) (String.length r - i - 1)))
            | None -> failwith ("bad run " ^ r)) (String.split_on_char '.' b))
        (String.split_on_char ';' s))

(* ---- U: the MetadataUpdate merge functions ---- *)
let parse_mops (s : string) : mop list =
  List.map (fun c -> match c with
      | 'f' -> MFull (false, false) | 'F' -> MFull (true, false)
      | 'g' -> MFull (false, true) | 'G' -> MFull (true, true)
      | 'c' -> MRoutes | 't' -> MTopology
      | 'u' -> MUp (n_of_int 1) | 'v' -> MUp (n_of_int 2)
      | 'd' -> MDown (n_of_int 1) | 'e' -> MDown (n_of_int 2)
      | 'k' -> MTake
      | _ -> failwith "bad update op") (chars_of_string s)

let show_view (slot : mupdate option) : string =
  let ((((((kind, mv), pv), rc), routes), resp), hints) = view slot in
  let l v = if v = [] then "-" else String.concat "." (List.map hex_of_n v) in
  let hs = if hints = [] then "-" else
      String.concat "." (List.map (fun (a, up) -> hex_of_n a ^ (if up then "+" else "-")) hints) in
  Printf.sprintf "%s:%s:%s:%d:%s:%s:%s" (hex_of_n kind) (hex_of_n mv) (hex_of_n pv) (if rc then 1 else 0) (l routes) (hex_of_n resp) hs

(* ---- F: the fetch plan bookkeeping and the resolution of PendingFetches ---- *)
let show_plan (p : plan) : string =
  match p with
  | PFull -> "F:-:0"
  | PPartial (rs, t) ->
    Printf.sprintf "P:%s:%d" (if rs = [] then "-" else String.concat "." (List.map hex_of_n rs)) (if t then 1 else 0)

let fetch_verdict (arg : string) (impl : string list) : string =
  if String.length arg > 0 && arg.[0] = 'p' then begin
    let script = String.sub arg 1 (String.length arg - 1) in
    let p = ref plan_empty and views = ref [] in
    List.iteri (fun i c ->
        p := (match c with
            | 'f' -> note_full !p
            | 't' -> note_topology !p
            | 'c' -> note_routes (n_of_int (i + 1)) !p
            | _ -> failwith "bad plan op");
        views := show_plan !p :: !views) (chars_of_string script);
    let model = String.concat "," (List.rev !views) in
    match impl with
    | [v] when v = model -> "ok"
    | _ -> "diff model=" ^ model
  end else begin
    (* r<full><routes><topology>: fetch ids 1, 2, 3; digit 2 = complete *)
    let d k = arg.[k + 1] in
    let fl = if d 0 <> '0' then IFull (n_of_int 1)
      else IPartial ((if d 1 <> '0' then Some (n_of_int 2) else None), (if d 2 <> '0' then Some (n_of_int 3) else None)) in
    let ready f = let k = int_of_n f in d (k - 1) = '2' in
    let model = match resolve ready fl with
      | None -> let (a, b, c) = (match fl with IFull _ -> (1, 0, 0) | IPartial (r, t) -> (0, (if r <> None then 1 else 0), (if t <> None then 1 else 0))) in
        Printf.sprintf "0 %d%d%d" a b c
      | Some (o, fl') ->
        let (a, b, c) = (match fl' with IFull _ -> (1, 0, 0) | IPartial (r, t) -> (0, (if r <> None then 1 else 0), (if t <> None then 1 else 0))) in
        Printf.sprintf "%d %d%d%d" (match o with OFull _ -> 1 | ORoutes _ -> 2 | OTopology _ -> 3) a b c in
    if String.concat " " impl = model then "ok" else "diff model=" ^ model
  end

let verdict case impl =
  match case, impl with
  | ["F"; arg], _ -> fetch_verdict arg impl
  | ("S" | "Z") :: _, "skip-env" :: _ -> "ok skip-env"
  | "U" :: _, "panic" :: _ -> "diff the hook / the merge functions panicked"
  | ["U"; script], [views; statuses] ->
    let ops = parse_mops script in
    let states = trace_mops (n_of_int 1) ops h_init in
    let model_views = String.concat "," (List.map (fun st -> show_view st.h_slot) states) in
    let final = List.fold_left (fun _ st -> st) h_init states in
    let model_st = let l = model_status final in
      if l = [] then "-" else String.concat "" (List.map hex_of_n l) in
    if views = model_views && statuses = model_st then "ok"
    else begin
      (* the property predicate on the implementation's own report: no response channel dropped or failed,
         every unanswered one still attached to the slot *)
      let impl_st = if statuses = "-" then [] else List.map (fun c -> n_of_int (Char.code c - 48)) (chars_of_string statuses) in
      let last_view = List.fold_left (fun _ v -> v) "0:0:0:0:-:0:-" (String.split_on_char ',' views) in
      let pending = match String.split_on_char ':' last_view with
        | [_; _; _; _; _; resp; _] -> n_of_hex resp | _ -> n_of_int 0 in
      (* "the published state reflects the latest fetched topology": the peer list in the slot must be the
         newest one fetched since the consumer last took a value (latest_peers, the specification) *)
      let rec firstn k l = if k = 0 then [] else match l with x :: r -> x :: firstn (k - 1) r | [] -> [] in
      let stale = ref "" in
      List.iteri (fun i v ->
          if !stale = "" then
            match String.split_on_char ':' v with
            | [kind; _; pv; _; _; _; _] ->
              let expect = match latest_peers (n_of_int 1) (firstn (i + 1) ops) None with
                | Some p -> hex_of_n p | None -> "0" in
              if (kind = "2" || kind = "3" || expect <> "0") && pv <> expect then
                stale := Printf.sprintf "step %d: the slot holds peer list %s, the newest fetched is %s" i pv expect
            | _ -> ()) (String.split_on_char ',' views);
      if !stale <> "" then "viol " ^ !stale ^ "; model=" ^ model_views
      else if not (status_ok impl_st pending) then
        "viol a refresh response was dropped, failed, or is neither answered nor attached to the slot; model=" ^ model_views ^ " " ^ model_st
      else "diff model=" ^ model_views ^ " " ^ model_st
    end
  | ["Y"; script], [obs] ->
    (* eager waker: a token "!obs/wakes" is a poll made by the waker during the preceding operation *)
    let toks = String.split_on_char ',' obs in
    let base_ops = parse_script script in
    let rec weave ops toks acc = match ops, toks with
      | [], [] -> List.rev acc
      | _, t :: tr when String.length t > 0 && t.[0] = '!' -> weave ops tr (OPoll :: acc)
      | o :: orest, _ :: tr -> weave orest tr (o :: acc)
      | _ -> failwith "observation tokens do not match the script" in
    let ops = weave base_ops toks [] in
    let strip t = if String.length t > 0 && t.[0] = '!' then String.sub t 1 (String.length t - 1) else t in
    let impl_tr = List.map (fun t -> parse_obs (strip t)) toks in
    (match run_ops ops init with
     | None -> "error model: script applies an operation that is not available"
     | Some tr ->
       if tr = impl_tr then "ok"
       else if not (spec_check ops a_init impl_tr) && not (String.contains script 'K')
       then "viol spec_check=false model=" ^ show_trace tr
       else "diff model=" ^ show_trace tr)
  | [("X" | "Q"); script], [obs] ->
    let ops = parse_script script in
    let impl_tr = List.map parse_obs (String.split_on_char ',' obs) in
    (match run_ops ops init with
     | None -> "error model: script applies an operation that is not available"
     | Some tr ->
       if tr = impl_tr then "ok"
       else if not (spec_check ops a_init impl_tr) then begin
         (* the clauses of the specification for a clearing closure (K) and for try_recv (T) come from the API
            documentation, not from the property text: a mismatch in a script that uses them is not labelled viol *)
         if String.contains script 'K' || String.contains script 'T'
         then "diff spec_check=false (script with K/T) model=" ^ show_trace tr
         else "viol spec_check=false model=" ^ show_trace tr
       end
       else "diff model=" ^ show_trace tr)
  | ["S"; _serial; n; _mode], [batches; fin] ->
    if fin = "hang" then "viol twice in a row the consumer did not see the end of the stream (no progress for 30 s after the producer had dropped the sender, or 300 s in total): lost wake-up or lost last update"
    else begin
      let bs = parse_batches batches in
      if stress_ok (n_of_hex n) bs && fin = "end" then "ok"
      else "viol stress_ok=false: the received batches are not exactly the tags 0..n-1 in order"
    end
  | ["Z"; _serial; rounds; _concurrent; mode], [toks] ->
    (* user-visible half of the property, evaluated on what the session reports (the runner has already
       repeated a scenario with an unexpected outcome once; this is the repetition):
       a requested refresh that is never answered (timeout / panic because its response sender was dropped)
       or a published state that does not show the latest topology = viol; a refresh answered with an error
       is an answer - unexpected on a healthy mock cluster, so diff *)
    let rounds = int_of_string ("0x" ^ rounds) in
    let toks = if toks = "-" then [] else String.split_on_char ',' toks in
    if List.length toks <> rounds then "diff shape: expected " ^ string_of_int rounds ^ " rounds"
    else begin
      let viol = ref "" and diff = ref "" in
      List.iteri (fun i tok ->
          match List.map (fun x -> int_of_string ("0x" ^ x)) (String.split_on_char '/' tok) with
          | [asked; completed; ok; seen; mock; _together; final_ok] ->
            if completed <> asked then
              (if !viol = "" then viol := Printf.sprintf "round %d: %d of %d refresh_metadata calls were answered" i completed asked)
            else if final_ok land 1 = 0 then
              (* nothing was fetched successfully after the faults: the node count says nothing (not a viol) *)
              (if !diff = "" then diff := Printf.sprintf "round %d: the refresh after the scripted faults did not succeed" i)
            else if seen <> mock && (mode <> "2" || ok > 0 || final_ok land 1 = 1) then
              (if !viol = "" then viol := Printf.sprintf "round %d: the cluster state shows %d nodes, the mock cluster has %d" i seen mock)
            else if ok <> asked && mode <> "2" then
              (* with scripted metadata failures (mode 2) an Err answer is an answer *)
              (if !diff = "" then diff := Printf.sprintf "round %d: %d of %d refresh_metadata calls succeeded" i ok asked)
          | _ -> if !diff = "" then diff := "bad token " ^ tok) toks;
      if !viol <> "" then "viol " ^ !viol else if !diff <> "" then "diff " ^ !diff else "ok"
    end
  | _ -> "error unknown-case"

let () = run_lines verdict
