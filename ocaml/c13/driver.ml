(* C13 correspondence driver: evaluates the extracted Spec model on the harness' cases.
   I <result> | 0/1                   can_be_ignored table
   X <max> <interval> <fibers> | obs…  every observed (start times / result / end time) of the real
                                       execute must be one of the model's tie resolutions
   E13 <seed> <tier> | env:<n> <record>...   a real Session against the mock cluster; per logical request
                                       (page) the frames the mock saw must be accepted by [e2e_check13] on a
                                       certificate the driver proposes (fibers + a schedule of execute) *)
(* an error name may carry a field suffix `~<fields>` (which field values the runner gave the real value):
   the model's tables do not look at fields, the suffix is dropped *)
let err_of_name (s : string) : request_error =
  let s = match String.index_opt s '~' with Some i -> String.sub s 0 i | None -> s in
  match request_error_of_name (chars_of_string s) with
  | Some e -> e
  | None -> failwith ("unknown error name " ^ s)

let res_of_string (s : string) : (request_error, n) result =
  let body = String.sub s 1 (String.length s - 1) in
  match s.[0] with
  | 'S' -> Ok (n_of_hex body)
  | 'E' -> Err (err_of_name body)
  | _ -> failwith ("bad result " ^ s)
let string_of_res = function
  | Ok v -> "S" ^ hex_of_n v
  | Err e -> "E" ^ string_of_chars (request_error_name e)

let out_of_string s = if s = "N" then None else Some (res_of_string s)

let fibers_of_string (s : string) =
  if s = "-" then [] else
  List.map (fun e ->
      let i = String.index e ':' in
      (n_of_hex (String.sub e 0 i), out_of_string (String.sub e (i + 1) (String.length e - i - 1))))
    (split_on ',' s)

let obs_of_string (s : string) : obs option =
  match String.split_on_char '/' s with
  | [st; r; e] ->
    (try Some { o_starts = nlist_of_string st; o_res = res_of_string r; o_end = n_of_hex e }
     with _ -> None)
  | _ -> None
let string_of_obs (o : obs) =
  string_of_nlist o.o_starts ^ "/" ^ string_of_res o.o_res ^ "/" ^ hex_of_n o.o_end

let contains s sub =
  let n = String.length s and m = String.length sub in
  let rec go i = i + m <= n && (String.sub s i m = sub || go (i + 1)) in go 0

(* ---- token parsers of the C06 driver (consistencies, policies, error tokens) ---- *)
let cl_of = function
  | "Any" -> CAny | "One" -> COne | "Two" -> CTwo | "Three" -> CThree | "Quorum" -> CQuorum
  | "All" -> CAll | "LocalQuorum" -> CLocalQuorum | "EachQuorum" -> CEachQuorum
  | "LocalOne" -> CLocalOne | "Serial" -> CSerial | "LocalSerial" -> CLocalSerial
  | s -> failwith ("bad consistency " ^ s)
let cl_name = function
  | CAny -> "Any" | COne -> "One" | CTwo -> "Two" | CThree -> "Three" | CQuorum -> "Quorum"
  | CAll -> "All" | CLocalQuorum -> "LocalQuorum" | CEachQuorum -> "EachQuorum"
  | CLocalOne -> "LocalOne" | CSerial -> "Serial" | CLocalSerial -> "LocalSerial"
let wt_of = function
  | "Simple" -> WSimple | "Batch" -> WBatch | "UnloggedBatch" -> WUnloggedBatch
  | "Counter" -> WCounter | "BatchLog" -> WBatchLog | "Cas" -> WCas | "View" -> WView
  | "Cdc" -> WCdc | "Other" -> WOther | s -> failwith ("bad write type " ^ s)
let policy_of = function
  | "Default" -> PDefault | "Downgrading" -> PDowngrading | "Fallthrough" -> PFallthrough
  | s -> failwith ("bad policy " ^ s)

(* the fields no decision reads (inner consistency, numfailures, codes, kinds) are dropped *)
let err_of (tok : string) =
  let f = Array.of_list (String.split_on_char ':' tok) in
  let z i = z_of_hex f.(i) in
  match f.(0) with
  | "E.SerializationError" -> ESerializationError
  | "E.CqlRequestSerialization" -> ECqlRequestSerialization
  | "E.UnableToAllocStreamId" -> EUnableToAllocStreamId
  | "E.BrokenConnectionError" -> EBrokenConnectionError
  | "E.BodyExtensionsParseError" -> EBodyExtensionsParseError
  | "E.CqlResultParseError" -> ECqlResultParseError
  | "E.CqlErrorParseError" -> ECqlErrorParseError
  | "E.UnexpectedResponse" -> EUnexpectedResponse
  | "E.RepreparedIdChanged" -> ERepreparedIdChanged
  | "E.RepreparedIdMissingInBatch" -> ERepreparedIdMissingInBatch
  | "E.NonfinishedPagingState" -> ENonfinishedPagingState
  | db -> EDbError (match db with
    | "Db.SyntaxError" -> DbSyntaxError | "Db.Invalid" -> DbInvalid
    | "Db.AlreadyExists" -> DbAlreadyExists | "Db.FunctionFailure" -> DbFunctionFailure
    | "Db.AuthenticationError" -> DbAuthenticationError | "Db.Unauthorized" -> DbUnauthorized
    | "Db.ConfigError" -> DbConfigError
    | "Db.Unavailable" -> ignore (cl_of f.(1)); DbUnavailable (z 2, z 3)
    | "Db.Overloaded" -> DbOverloaded | "Db.IsBootstrapping" -> DbIsBootstrapping
    | "Db.TruncateError" -> DbTruncateError
    | "Db.ReadTimeout" -> ignore (cl_of f.(1)); DbReadTimeout (z 2, z 3, f.(4) <> "0")
    | "Db.WriteTimeout" -> ignore (cl_of f.(1)); DbWriteTimeout (z 2, z 3, wt_of f.(4))
    | "Db.ReadFailure" -> DbReadFailure | "Db.WriteFailure" -> DbWriteFailure
    | "Db.Unprepared" -> DbUnprepared | "Db.ServerError" -> DbServerError
    | "Db.ProtocolError" -> DbProtocolError | "Db.RateLimitReached" -> DbRateLimitReached
    | "Db.Other" -> DbOther
    | _ -> failwith ("bad error token " ^ tok))

(* ==== end-to-end records (E6 / E13 cases): shared between ocaml/c06/driver.ml and
   ocaml/c13/driver.ml -- the two copies of this block are identical, keep them in sync ====
   One token per (logical request, page), see harness/src/e2e_attempts.rs for the format.
   The driver PROPOSES certificates (how the frames split into fibers, which plan / outcome
   stream each fiber had, for C13 a schedule of `execute`); the extracted checkers decide. *)
type e2e_rec = { api : string; idem : bool; pol : policy; spec : (int * int) option; cl0 : consistency;
                 nn : int; down : n list; pg : int; t0 : n; tr : n; mg : n; res : string; co : n option; tmo : int option; sm : n;
                 frs : frame list }

let strip1 s = String.sub s 1 (String.length s - 1)

let frame_of_string (s : string) : frame =
  let parts = String.split_on_char '/' s in
  let shard, parts = match parts with
    | [n; c; a; b; x; sh] -> n_of_hex sh, [n; c; a; b; x]
    | p -> N0, p in
  match parts with
  | [node; cl; a; b; ans] ->
    let f_ans =
      if ans = "ok" then AnsOk else if ans = "drop" then AnsErr EBrokenConnectionError
      else if ans = "-" then AnsNone
      else if String.length ans > 1 && ans.[0] = 'X' then AnsErr (err_of (strip1 ans))
      else failwith ("bad answer " ^ ans) in
    { f_node = n_of_hex node; f_cl = cl_of cl; f_arr = n_of_hex a; f_ans;
      f_done = (if b = "-" then N0 else n_of_hex b); f_shard = shard }
  | _ -> failwith ("bad frame " ^ s)

let parse_record (tok : string) : e2e_rec =
  match String.split_on_char ';' tok with
  | "R" :: kvs ->
    let tbl = List.map (fun kv -> let i = String.index kv '=' in
                         (String.sub kv 0 i, String.sub kv (i + 1) (String.length kv - i - 1))) kvs in
    let g k = try List.assoc k tbl with Not_found -> failwith ("missing field " ^ k) in
    let hex k = int_of_string ("0x" ^ g k) in
    { api = g "api"; idem = (g "idem" = "1"); pol = policy_of (g "pol");
      spec = (if g "spec" = "-" then None else
                match String.split_on_char ':' (g "spec") with
                | [m; iv] -> Some (int_of_string ("0x" ^ m), int_of_string ("0x" ^ iv))
                | _ -> failwith "bad spec");
      cl0 = cl_of (g "cl"); nn = hex "n"; down = nlist_of_string (g "down"); pg = hex "pg";
      t0 = n_of_hex (g "t0"); tr = n_of_hex (g "tr"); mg = n_of_hex (g "mg"); res = g "res";
      sm = (match List.assoc_opt "sm" tbl with Some x -> n_of_hex x | None -> n_of_int 20000);
      tmo = (match List.assoc_opt "to" tbl with Some "-" | None -> None | Some t -> Some (int_of_string ("0x" ^ t)));
      co = (match List.assoc_opt "co" tbl with Some "-" | None -> None | Some c -> Some (n_of_hex c));
      frs = (if g "fr" = "-" then [] else List.map frame_of_string (String.split_on_char ',' (g "fr"))) }
  | _ -> failwith ("bad record " ^ tok)

(* what the caller got.  Successful answers of the mock are Rows for QUERY / EXECUTE and Void for
   BATCH, so a void result of a query is the synthetic empty result of IgnoreWriteError; a pager that
   ends without delivering a page it asked for ("end") likewise *)
let ores_of (r : e2e_rec) : ores option =
  match r.res with
  | "rows" -> Some OCompleted
  | "void" -> Some (if r.api = "b" then OOk else OIgnored)
  | "end" -> Some OIgnored
  | "pool" -> Some (OFailed LConn)
  | "emptyplan" -> Some OEmptyPlan
  | s when String.length s > 1 && s.[0] = 'X' -> Some (OFailed (LAttempt (err_of (strip1 s))))
  | _ -> None

let outcome_of_frame f = match f.f_ans with AnsOk | AnsNone -> OSuccess | AnsErr e -> OError e
let nodes_of (r : e2e_rec) : n list = List.init r.nn n_of_int
let gate (r : e2e_rec) : int option = if r.idem then Option.map fst r.spec else None

let rec subsets = function [] -> [[]] | x :: l -> let s = subsets l in s @ List.map (fun y -> x :: y) s

(* (plan, outcome stream) candidates of ONE fiber with frames [frs]: the plan is the sequence of its
   nodes; where the mock has cut connections ([down]) a target may have been skipped without an
   attempt: the current target again (its pool lost the connection) or cut nodes that got no frame *)
let rec gen (down : n list) (cur : n option) (dn : n list) (frs : frame list) : (n list * outcome list) list =
  let sames = match cur with Some c when List.mem c down -> [false; true] | _ -> [false] in
  List.concat_map (fun same ->
      List.concat_map (fun skip ->
          let dn' = List.filter (fun d -> not (List.mem d skip)) dn in
          let pre_outs = (if same then [OConnFail] else []) @ List.map (fun _ -> OConnFail) skip in
          match frs with
          | [] -> [ (skip, pre_outs) ]
          | f :: rest ->
            let addp = if Some f.f_node = cur && (not same) && skip = [] then [] else [f.f_node] in
            List.map (fun (p, o) -> (skip @ addp @ p, pre_outs @ (outcome_of_frame f :: o)))
              (gen down (Some f.f_node) dn' rest))
        (subsets dn))
    sames

let take k l = List.filteri (fun i _ -> i < k) l

let fiber_cands (r : e2e_rec) (frs : frame list) : cert list =
  let dn = List.filter (fun d -> not (List.exists (fun f -> f.f_node = d) r.frs)) r.down in
  (* a fiber whose last frame was not answered was cancelled while that frame was in flight; one
     whose last answer was logged may still have been cancelled before it processed the answer *)
  let frees = match List.rev frs with f :: _ -> if f.f_ans = AnsNone then [true] else [false; true] | [] -> [false] in
  take 64 (List.concat_map (fun free -> List.map (fun (p, o) -> { c_plan = p; c_outs = o; c_free = free })
                                          (gen r.down None dn frs)) frees)

(* gate closed: one fiber; the rest of the plan = the nodes that got no frame and are not cut *)
let single_certs (r : e2e_rec) : cert list =
  let nodes = nodes_of r in
  List.map (fun c ->
      let rest = List.filter (fun x -> not (List.mem x c.c_plan) && not (List.mem x r.down)) nodes in
      { c with c_plan = c.c_plan @ rest; c_free = false })
    (fiber_cands r r.frs)

(* gate open: all ways to split the frames (in arrival order) into at most [maxf] fibers numbered in
   the order of their first frame, such that a node belongs to one fiber and a fiber sends a frame
   only after its previous one was answered *)
let partitions (maxf : int) (frs : frame list) : int list list =
  let res = ref [] in
  let count = ref 0 in
  (* fibers: (id, last frame, nodes) *)
  let rec go fibers nf acc = function
    | [] -> if !count < 400 then (incr count; res := List.rev acc :: !res)
    | f :: rest ->
      let can_follow (_, last, _) = last.f_ans <> AnsNone && compare_n last.f_done f.f_arr <= 0 in
      let owner = List.filter (fun (_, _, ns) -> List.mem f.f_node ns) fibers in
      let opts = match owner with
        | [o] -> if can_follow o then [o] else []
        | _ :: _ -> []
        | [] -> List.filter can_follow fibers in
      List.iter (fun (id, _, ns) ->
          let fibers' = List.map (fun ((i, _, _) as x) -> if i = id then (id, f, if List.mem f.f_node ns then ns else f.f_node :: ns) else x) fibers in
          go fibers' nf (id :: acc) rest) opts;
      if owner = [] && nf < maxf then go (fibers @ [(nf, f, [f.f_node])]) (nf + 1) (nf :: acc) rest
  and compare_n a b = compare (int_of_n a) (int_of_n b) in
  go [] 0 [] frs;
  List.rev !res

let rec product (ls : 'a list list) : 'a list list =
  match ls with
  | [] -> [[]]
  | l :: rest -> let p = product rest in List.concat_map (fun x -> List.map (fun y -> x :: y) p) l

(* (fiber certificates, assignment) candidates for the gate-open case *)
let multi_certs (r : e2e_rec) (max : int) : (cert list * nat list) list =
  List.concat_map (fun assign ->
      let nf = 1 + List.fold_left Stdlib.max (-1) assign in
      let nf = Stdlib.max nf 1 in
      let per = List.init nf (fun i ->
          fiber_cands r (List.filteri (fun k _ -> List.nth assign k = i) r.frs)) in
      let base = take 200 (product per) in
      (* a fiber the mock never saw: every target it was handed had lost its connection *)
      let dn = List.filter (fun d -> not (List.exists (fun f -> f.f_node = d) r.frs)) r.down in
      let hidden = if dn = [] || nf > max then [] else
          List.concat_map (fun cs ->
              List.filter_map (fun sub -> if sub = [] then None else
                                  Some (cs @ [{ c_plan = sub; c_outs = List.map (fun _ -> OConnFail) sub; c_free = false }]))
                (subsets dn)) base in
      List.map (fun cs -> (cs, List.map nat_of_int assign)) (base @ hidden))
    (partitions (1 + max) r.frs)

(* a request that ended with the client-side timeout: per fiber a cancelled prefix of a run
   (C06_e2e_timeout); the timeout must have been set on the statement *)
let timeout_accepted (r : e2e_rec) : bool =
  match r.tmo with
  | None -> false
  | Some ms ->
    let nodes = nodes_of r in
    let specn = Option.map (fun (m, _) -> nat_of_int m) r.spec in
    let max = match gate r with Some m -> m | None -> 0 in
    List.exists (fun (cs, assign) ->
        check_timeout r.pol r.idem specn r.cl0 nodes r.down cs assign r.frs r.t0 (n_of_int (ms * 1000)) r.tr r.mg r.sm)
      (multi_certs r max)

let rec_summary (r : e2e_rec) =
  Printf.sprintf "api=%s;idem=%b;spec=%s;pg=%d;res=%s;frames=%d" r.api r.idem
    (match r.spec with None -> "-" | Some (m, _) -> string_of_int m) r.pg r.res (List.length r.frs)

(* ---- E13: the C13 judgement of one record ---- *)
let sub_of (assign : nat list) (frs : frame list) (i : int) : frame list =
  List.filteri (fun k _ -> int_of_nat (List.nth assign k) = i) frs

(* candidate schedules of `execute`, most plausible (time order) first; [k] is called on each
   complete schedule until it accepts one *)
let schedules (r : e2e_rec) (max : int) (cs : cert list) (assign : nat list) (k : label list -> bool) : bool =
  let nvis = List.length cs in
  let carr = Array.of_list cs in
  let subs = Array.init nvis (sub_of assign r.frs) in
  let res = Array.init nvis (fun i -> fiber_check r.pol r.idem r.cl0 r.down carr.(i) subs.(i)) in
  if Array.exists (fun x -> x = None) res then false else
  let out_of i = match res.(i) with
    | Some RPending | None -> None
    | Some rr -> if carr.(i).c_free then None else Some (conv_result (nat_of_int i) rr) in
  let tr = int_of_n r.tr in
  let t_complete i = match List.rev subs.(i) with f :: _ when f.f_ans <> AnsNone -> int_of_n f.f_done | _ -> tr in
  let t_timer i = if i < nvis then (match subs.(i) with f :: _ -> int_of_n f.f_arr | [] -> tr) else tr in
  let budget = ref 4000 in
  let rec dfs (s : state) acc =
    if !budget <= 0 then false else
    match s.returned with
    | Some _ -> decr budget; k (List.rev acc)
    | None ->
      let started = int_of_nat s.started in
      let opts =
        (if s.retries <> O && s.sleep = Armed then [ (t_timer started, 1, Timer) ] else [])
        @ List.filter_map (fun f ->
            let fi = int_of_nat f in
            if fi < nvis then (match out_of fi with Some o -> Some (t_complete fi, 0, Complete (f, o)) | None -> None)
            else Some (tr, 0, Complete (f, None))) s.running in
      let opts = List.sort compare (List.map (fun (t, p, l) -> (t, p, l)) opts) in
      List.exists (fun (_, _, l) -> match step s l with Some s' -> dfs s' (l :: acc) | None -> false) opts in
  dfs (init (nat_of_int max)) []

let e2e13_record (tok : string) : string =
  let r = parse_record tok in
  let nodes = nodes_of r in
  let specn = Option.map (fun (m, _) -> nat_of_int m) r.spec in
  (* the property predicates, evaluated directly on the observation (no search involved):
     C13_e2e_prop_overlap / C06_e2e_prop_frames_any hold of every accepted observation *)
  let direct_viol (o : ores option) : string option =
    if not (prop_overlap r.idem specn r.frs) then Some "frames-in-flight"
    else if not (prop_frames r.pol r.idem specn (nat_of_int r.nn) r.frs) then Some "frames-violate-property"
    else match o, gate r with
      | Some o, Some _ when not (prop_first_real r.mg o r.co r.frs) -> Some "not-the-first-real-answer"
      | Some o, Some max when not (prop_last_error (nat_of_int max) (nat_of_int r.nn) r.down r.tr o r.frs) ->
        Some "last-error-returned-too-early"
      | _ -> None in
  match ores_of r with
  | None ->
    (* "it always returns": the call did not come back within the runner's 40 s although every frame
       had been answered and no scheduling stall was measured *)
    (* the E13 mix sets no client-side timeouts: this branch is reached by replayed / hand-made lines only *)
    if r.res = "timeout" && timeout_accepted r then "ok"
    else if r.res = "hang" && List.for_all (fun f -> f.f_ans <> AnsNone) r.frs && int_of_n r.mg < 1_000_000
    then "viol e2e no-return " ^ rec_summary r
    else (match direct_viol None with
        | Some c -> "viol e2e " ^ c ^ " " ^ rec_summary r
        | None -> "diff e2e unexpected-result " ^ rec_summary r)
  | Some _ when r.res = "rows" && r.co = None ->
    (* every session API exposes the coordinator of a rows result; without it the first-real-answer
       check could not tell which node's answer was returned *)
    "diff e2e rows-without-coordinator " ^ rec_summary r
  | Some o ->
    let spec13 = Option.map (fun (m, iv) -> (nat_of_int m, n_of_int (iv * 1000))) r.spec in
    let chk cs assign ls = e2e_check13 r.pol r.idem spec13 r.cl0 nodes r.down cs assign r.frs ls r.t0 r.tr r.mg o r.co in
    let ok = match gate r with
      | None -> List.exists (fun c -> chk [c] [] []) (single_certs r)
      | Some max -> List.exists (fun (cs, assign) -> schedules r max cs assign (chk cs assign)) (multi_certs r max) in
    if ok then "ok"               (* C13_e2e_gate / C13_e2e_schedule *)
    else match direct_viol (Some o) with
      | Some c -> "viol e2e " ^ c ^ " " ^ rec_summary r
      | None ->
        (* no certificate was accepted by the (bounded, untrusted) search and no property predicate
           fails on the observation: broken correspondence; the tag only helps the reader *)
        (match gate r with
         | None -> "diff e2e no-certificate " ^ rec_summary r
         | Some max ->
           let fibers_ok = List.filter (fun (cs, assign) ->
               e2e_check r.pol r.idem specn r.cl0 nodes r.down cs assign r.frs r.tr o r.co) (multi_certs r max) in
           if fibers_ok = [] then "diff e2e no-certificate " ^ rec_summary r
           else if not (List.exists (fun (cs, assign) ->
               starts_ok (mk_env r.pol r.idem r.cl0 nodes r.down
                            (n_of_int (match r.spec with Some (_, iv) -> iv * 1000 | None -> 0))
                            cs assign r.frs r.t0 r.tr r.mg r.co)) fibers_ok)
           then "diff e2e early-speculative-start " ^ rec_summary r
           else "diff e2e no-schedule-found " ^ rec_summary r)

let e2e_line (judge : string -> string) (impl : string list) : string =
  match impl with
  | "skip-env" :: _ -> "ok skip-env"
  | env :: recs when String.length env > 4 && String.sub env 0 4 = "env:" ->
    if recs = [] then "diff e2e no-records" else
    let vs = List.map (fun t -> try judge t with e -> "error e2e " ^ Printexc.to_string e) recs in
    let is p v = String.length v >= String.length p && String.sub v 0 (String.length p) = p in
    (match List.find_opt (is "viol") vs with
     | Some v -> v
     | None -> (match List.find_opt (fun v -> not (is "ok" v)) vs with Some v -> v | None -> "ok"))
  | _ -> "error e2e " ^ String.concat "_" impl

let verdict case impl =
  match case, impl with
  | "E13" :: _, _ -> e2e_line e2e13_record impl
  | [("I" | "IF"); r], [obs] ->
    let r = res_of_string r in
    let m = can_be_ignored r in
    let o = (obs = "1") in
    if obs <> "0" && obs <> "1" then "error " ^ obs
    else if o = m then "ok"
    (* the property text does not fix which errors are ignorable; the model's table (and its positive
       copy spec_transient) is the reading: a changed classification is a broken correspondence *)
    else "diff model=" ^ (if m then "1" else "0") ^ " spec=" ^ (if is_ignorable (Some r) then "1" else "0")
  | [("X" | "XF"); max; iv; fs], (_ :: _ as observed) ->
    let max = nat_of_int (int_of_n (n_of_hex max)) and iv = n_of_hex iv in
    let fs = fibers_of_string fs in
    (* the last token tells how the REAL can_be_ignored classified each listed outcome.  The property text
       does not fix the ignorable class (the model's table is the reading): where the real table differs
       from the model's for an outcome of this case, every difference is a broken correspondence *)
    let cls, observed = List.partition (fun t -> String.length t >= 2 && String.sub t 0 2 = "c=") observed in
    (* the token is `c=` followed by one character per listed fiber ('-' for a None outcome), or `c=-` for a
       case without fibers; anything else is a malformed line *)
    let bits = match cls with
      | [c] ->
        let b = String.sub c 2 (String.length c - 2) in
        if fs = [] then (if b = "-" then Some "" else None)
        else if String.length b = List.length fs then Some b else None
      | _ -> None in
    if bits = None then "error X-line-without-a-well-formed-c=-token" else
    let bits = Option.get bits in
    let reclassified =
      List.exists2 (fun b (_, o) -> match o with
          | None -> b <> '-'
          | Some r -> b <> (if can_be_ignored r then '1' else '0')) (List.init (String.length bits) (String.get bits)) fs in
    if reclassified then "diff can_be_ignored-differs-for-an-outcome-of-this-case" else
    if observed = [] then "error no-observation" else
    let model () = String.concat " " (List.sort_uniq compare (List.map string_of_obs (timed_runs max iv fs))) in
    let check tok =
      match obs_of_string tok with
      | None ->
        if contains tok "/hang/" || contains tok "/spin/" || tok = "panic"
        then Some ("viol no-return " ^ tok ^ " model=" ^ model ())
        else Some ("diff unreadable " ^ tok)
      | Some o ->
        if accept max iv fs o then None            (* C13_accept_sound: accepted => property *)
        else if not (prop_obs max fs o) then Some ("viol obs=" ^ tok ^ " model=" ^ model ())
        else Some ("diff obs=" ^ tok ^ " model=" ^ model ()) in
    let rec first = function
      | [] -> "ok"
      | t :: r -> (match check t with None -> first r | Some v when String.sub v 0 4 = "viol" -> v
                                     | Some v -> (match first r with "ok" -> v | w when String.sub w 0 4 = "viol" -> w | _ -> v)) in
    first observed
  | ["P"; idem; metrics; pol; tg], (_ :: _ as observed) ->
    let policy = if pol = "-" then None else
        let i = String.index pol ':' in
        Some (nat_of_int (int_of_n (n_of_hex (String.sub pol 0 i))),
              n_of_hex (String.sub pol (i + 1) (String.length pol - i - 1))) in
    let cfg = { is_idempotent = (idem = "1");
                metrics_and_policy = (if metrics = "1" then Some (Option.map fst policy) else None) } in
    let iv = match policy with Some (_, i) -> i | None -> N0 in
    let targets = if tg = "-" then [] else
        List.map (fun e -> let i = String.index e ':' in
                   (n_of_hex (String.sub e 0 i), n_of_hex (String.sub e (i + 1) (String.length e - i - 1))))
          (split_on ',' tg) in
    let ev_of_string s =
      let i = String.index s '@' in
      let id = n_of_hex (String.sub s 1 (i - 1)) and t = n_of_hex (String.sub s (i + 1) (String.length s - i - 1)) in
      match s.[0] with 'b' -> EvBegin (id, t) | 'e' -> EvEnd (id, t) | _ -> failwith "bad event" in
    let string_of_ev = function
      | EvBegin (id, t) -> "b" ^ hex_of_n id ^ "@" ^ hex_of_n t
      | EvEnd (id, t) -> "e" ^ hex_of_n id ^ "@" ^ hex_of_n t in
    let string_of_bobs o =
      (if o.bo_events = [] then "-" else String.concat "," (List.map string_of_ev o.bo_events))
      ^ "/" ^ string_of_res o.bo_res ^ "/" ^ hex_of_n o.bo_end in
    (* diagnostics only; plain enumeration can be huge when many fibers are ready at one instant *)
    let model () =
      if List.length targets > 5 then "<not enumerated>" else
      try String.concat " " (List.sort_uniq compare (List.map string_of_bobs (btimed_runs cfg iv targets)))
      with _ -> "<too many>" in
    let bobs_of_string s = match String.split_on_char '/' s with
      | [ev; r; e] ->
        (try Some { bo_events = (if ev = "-" then [] else List.map ev_of_string (split_on ',' ev));
                    bo_res = res_of_string r; bo_end = n_of_hex e }
         with _ -> None)
      | _ -> None in
    let check tok =
      match bobs_of_string tok with
      | None ->
        if contains tok "/hang/" || contains tok "/spin/" || tok = "panic"
        then Some ("viol no-return " ^ tok ^ " model=" ^ model ())
        else Some ("diff unreadable " ^ tok)
      | Some o ->
        (* C13_probe_guided: = membership in the model's traces; C13_probe_accept_sound: accepted => property *)
        if baccept_guided cfg iv targets o then None
        else if not (prop_trace cfg targets o) then Some ("viol trace=" ^ tok ^ " model=" ^ model ())
        else Some ("diff trace=" ^ tok ^ " model=" ^ model ()) in
    let rec first = function
      | [] -> "ok"
      | t :: r -> (match check t with None -> first r | Some v when String.sub v 0 4 = "viol" -> v
                                     | Some v -> (match first r with "ok" -> v | w when String.sub w 0 4 = "viol" -> w | _ -> v)) in
    first observed
  | _ -> "error unknown-case"

let () = run_lines verdict
