(* C13 correspondence driver: evaluates the extracted Spec model on the harness' cases.
   I <result> | 0/1                   can_be_ignored table
   X <max> <interval> <fibers> | obs…  every observed (start times / result / end time) of the real
                                       execute must be one of the model's tie resolutions *)
let err_of_name (s : string) : request_error =
  match request_error_of_name (chars_of_string s) with
  | Some e -> e
  | None -> failwith ("unknown error name " ^ s)

let res_of_string (s : string) : (request_error, n) result =
  let body = String.sub s 1 (String.length s - 1) in
  match s.[0] with
  | 'S' -> Ok (n_of_hex body)
  | 'E' -> Err (err_of_name body)
  | _ -> failwith ("bad result " ^ s)
let string_of_res = function
  | Ok v -> "S" ^ hex_of_n v
  | Err e -> "E" ^ string_of_chars (request_error_name e)

let out_of_string s = if s = "N" then None else Some (res_of_string s)

let fibers_of_string (s : string) =
  if s = "-" then [] else
  List.map (fun e ->
      let i = String.index e ':' in
      (n_of_hex (String.sub e 0 i), out_of_string (String.sub e (i + 1) (String.length e - i - 1))))
    (split_on ',' s)

let obs_of_string (s : string) : obs option =
  match String.split_on_char '/' s with
  | [st; r; e] ->
    (try Some { o_starts = nlist_of_string st; o_res = res_of_string r; o_end = n_of_hex e }
     with _ -> None)
  | _ -> None
let string_of_obs (o : obs) =
  string_of_nlist o.o_starts ^ "/" ^ string_of_res o.o_res ^ "/" ^ hex_of_n o.o_end

let contains s sub =
  let n = String.length s and m = String.length sub in
  let rec go i = i + m <= n && (String.sub s i m = sub || go (i + 1)) in go 0

let verdict case impl =
  match case, impl with
  | ["I"; r], [obs] ->
    let r = res_of_string r in
    let m = can_be_ignored r in
    let o = (obs = "1") in
    if obs <> "0" && obs <> "1" then "error " ^ obs
    else if o = m then "ok"
    else if o <> is_ignorable (Some r) then "viol spec=" ^ (if is_ignorable (Some r) then "1" else "0")
    else "diff model=" ^ (if m then "1" else "0")
  | ["X"; max; iv; fs], (_ :: _ as observed) ->
    let max = nat_of_int (int_of_n (n_of_hex max)) and iv = n_of_hex iv in
    let fs = fibers_of_string fs in
    let model () = String.concat " " (List.sort_uniq compare (List.map string_of_obs (timed_runs max iv fs))) in
    let check tok =
      match obs_of_string tok with
      | None ->
        if contains tok "/hang/" || contains tok "/spin/" || tok = "panic"
        then Some ("viol no-return " ^ tok ^ " model=" ^ model ())
        else Some ("diff unreadable " ^ tok)
      | Some o ->
        if accept max iv fs o then None            (* C13_accept_sound: accepted => property *)
        else if not (prop_obs max fs o) then Some ("viol obs=" ^ tok ^ " model=" ^ model ())
        else Some ("diff obs=" ^ tok ^ " model=" ^ model ()) in
    let rec first = function
      | [] -> "ok"
      | t :: r -> (match check t with None -> first r | Some v when String.sub v 0 4 = "viol" -> v
                                     | Some v -> (match first r with "ok" -> v | w when String.sub w 0 4 = "viol" -> w | _ -> v)) in
    first observed
  | ["P"; idem; metrics; pol; tg], (_ :: _ as observed) ->
    let policy = if pol = "-" then None else
        let i = String.index pol ':' in
        Some (nat_of_int (int_of_n (n_of_hex (String.sub pol 0 i))),
              n_of_hex (String.sub pol (i + 1) (String.length pol - i - 1))) in
    let cfg = { is_idempotent = (idem = "1");
                metrics_and_policy = (if metrics = "1" then Some (Option.map fst policy) else None) } in
    let iv = match policy with Some (_, i) -> i | None -> N0 in
    let targets = if tg = "-" then [] else
        List.map (fun e -> let i = String.index e ':' in
                   (n_of_hex (String.sub e 0 i), n_of_hex (String.sub e (i + 1) (String.length e - i - 1))))
          (split_on ',' tg) in
    let ev_of_string s =
      let i = String.index s '@' in
      let id = n_of_hex (String.sub s 1 (i - 1)) and t = n_of_hex (String.sub s (i + 1) (String.length s - i - 1)) in
      match s.[0] with 'b' -> EvBegin (id, t) | 'e' -> EvEnd (id, t) | _ -> failwith "bad event" in
    let string_of_ev = function
      | EvBegin (id, t) -> "b" ^ hex_of_n id ^ "@" ^ hex_of_n t
      | EvEnd (id, t) -> "e" ^ hex_of_n id ^ "@" ^ hex_of_n t in
    let string_of_bobs o =
      (if o.bo_events = [] then "-" else String.concat "," (List.map string_of_ev o.bo_events))
      ^ "/" ^ string_of_res o.bo_res ^ "/" ^ hex_of_n o.bo_end in
    (* diagnostics only; plain enumeration can be huge when many fibers are ready at one instant *)
    let model () =
      if List.length targets > 5 then "<not enumerated>" else
      try String.concat " " (List.sort_uniq compare (List.map string_of_bobs (btimed_runs cfg iv targets)))
      with _ -> "<too many>" in
    let bobs_of_string s = match String.split_on_char '/' s with
      | [ev; r; e] ->
        (try Some { bo_events = (if ev = "-" then [] else List.map ev_of_string (split_on ',' ev));
                    bo_res = res_of_string r; bo_end = n_of_hex e }
         with _ -> None)
      | _ -> None in
    let check tok =
      match bobs_of_string tok with
      | None ->
        if contains tok "/hang/" || contains tok "/spin/" || tok = "panic"
        then Some ("viol no-return " ^ tok ^ " model=" ^ model ())
        else Some ("diff unreadable " ^ tok)
      | Some o ->
        (* C13_probe_guided: = membership in the model's traces; C13_probe_accept_sound: accepted => property *)
        if baccept_guided cfg iv targets o then None
        else if not (prop_trace cfg targets o) then Some ("viol trace=" ^ tok ^ " model=" ^ model ())
        else Some ("diff trace=" ^ tok ^ " model=" ^ model ()) in
    let rec first = function
      | [] -> "ok"
      | t :: r -> (match check t with None -> first r | Some v when String.sub v 0 4 = "viol" -> v
                                     | Some v -> (match first r with "ok" -> v | w when String.sub w 0 4 = "viol" -> w | _ -> v)) in
    first observed
  | _ -> "error unknown-case"

let () = run_lines verdict
