(* Statement pins for C07: compiled on every check run against the built .vo files. *)
From SV Require Import Base.Prelude Model.Pager Proofs.Pager_proofs.
Open Scope N_scope.
From SV Require Import Props.C07.

Check C07_rows :
  forall m script, good_script m script = true ->
  exists s0, pager_init m script = Some s0 /\
  forall ls s, run s0 ls = Some s -> s_cons s = CEnded ->
    s_out s = spec_stream (script_pages script) /\
    map req_key (s_reqs s) = spec_requests m script.
Check C07_rows_safety :
  forall m script s0 ls s, good_script m script = true ->
  pager_init m script = Some s0 -> run s0 ls = Some s ->
  exists r, s_out s ++ r = spec_stream (script_pages script).
Check C07_ends :
  forall m script s0, pager_init m script = Some s0 ->
  (forall ls s, run s0 ls = Some s -> (List.length ls + mu s <= mu s0)%nat) /\
  (pdone m (s_prod s0) = true ->
   forall ls s, run s0 ls = Some s -> s_cons s = CActive ->
     ((exists s', step s LProd = Some s') \/ (exists s', step s LCons = Some s')) /\
     exists ls' s', run s ls' = Some s' /\ s_cons s' = CEnded).
Check C07_good_script_answers :
  forall m script s0, good_script m script = true ->
  pager_init m script = Some s0 -> pdone m (s_prod s0) = true.
Check C07_error_after_prefix :
  forall m script k e, fail_point m script = Some (k, e) ->
  match k with
  | O => exists rq0, start m script = (rq0, SFail e)
  | S _ => exists s0, pager_init m script = Some s0 /\
           forall ls s, run s0 ls = Some s -> s_cons s = CEnded ->
             s_out s = spec_error_stream (script_pages script) k e
  end.
Check C07_states :
  forall m script,
  (forall r, In r (fst (start m script)) -> rq_page r = 0%nat /\ rq_state r = None) /\
  (forall s0 ls s r, pager_init m script = Some s0 -> run s0 ls = Some s -> In r (s_reqs s) ->
     rq_state r = spec_state (script_pages script) (rq_page r) /\
     (rq_page r < List.length script)%nat).
Check C07_no_dup_under_retry :
  forall m script s0 ls s, good_script m script = true ->
  NoDup (concat (served_pages (script_pages script))) ->
  pager_init m script = Some s0 -> run s0 ls = Some s -> NoDup (s_out s).
Check C07_early_drop :
  forall s0 ls1 ls2 s1 s2,
  run s0 ls1 = Some s1 -> run s1 (LDrop :: ls2) = Some s2 ->
  (s_fetched s2 <= S (s_fetched s1))%nat /\
  (List.length ls2 <= 2)%nat /\
  (List.length ls2 = prank (s_prod s1) -> s_prod s2 = PDone) /\
  s_out s2 = s_out s1 /\
  exists i st ts, s_reqs s2 = s_reqs s1 ++ map (mk_req i st) ts.
Check C07_read_ahead :
  forall m script s0 ls s,
  pager_init m script = Some s0 -> run s0 ls = Some s ->
  (S (s_recv s) <= s_fetched s <= s_recv s + 3)%nat.
Check C07_schedule_independent :
  forall m script rq0 rows p ls s,
  start m script = (rq0, SPager rows p) ->
  run (init_sys m rq0 rows p) ls = Some s -> s_cons s = CEnded ->
  OStream (s_out s) = snd (seq_run m script) /\ s_reqs s = fst (seq_run m script).
Check C07_accept_full_sound :
  forall m script oi ok, accept_full m script oi ok = true ->
  (good_script m script = true ->
     oi = spec_stream (script_pages script) /\ ok = spec_requests m script) /\
  (forall k e, fail_point m script = Some (k, e) ->
     oi = spec_error_stream (script_pages script) k e) /\
  (forall i st, In (i, st) ok -> st = spec_state (script_pages script) i).
Check C07_accept_full_complete :
  forall m script,
  (forall s0 ls s, pager_init m script = Some s0 -> run s0 ls = Some s -> s_cons s = CEnded ->
     accept_full m script (s_out s) (map req_key (s_reqs s)) = true) /\
  (forall rq0 e, start m script = (rq0, SFail e) ->
     accept_full m script [IErr e; IEnd] (map req_key rq0) = true).
Check C07_accept_drop_sound :
  forall m script n oi ok,
  accept_drop m script n oi ok = true ->
  (forall i st, In (i, st) ok -> st = spec_state (script_pages script) i) /\
  (good_script m script = true ->
     (exists r, oi ++ r = spec_stream (script_pages script)) /\
     (exists r, ok ++ r = spec_requests m script)).
Check C07_accept_drop_complete :
  forall m script s0 lsa sa sb lp s1 ls2 s2,
  pager_init m script = Some s0 ->
  run s0 lsa = Some sa ->
  (sb = sa /\ lsa = [] \/
   step sa LCons = Some sb /\ List.length (s_out sb) = S (List.length (s_out sa))) ->
  s_cons sb = CActive ->
  Forall (eq LProd) lp -> run sb lp = Some s1 ->
  run s1 (LDrop :: ls2) = Some s2 ->
  accept_drop m script (List.length (s_out s2)) (s_out s2) (map req_key (s_reqs s2)) = true.
Check C07_ignored_write_error_ends_silently :
  forall m script k,
  ignore_point m script = Some k ->
  exists s0, pager_init m script = Some s0 /\
  forall ls s, run s0 ls = Some s -> s_cons s = CEnded ->
    s_out s = spec_truncated_stream (script_pages script) k.
Print Assumptions C07_rows.
Print Assumptions C07_rows_safety.
Print Assumptions C07_ends.
Print Assumptions C07_good_script_answers.
Print Assumptions C07_error_after_prefix.
Print Assumptions C07_states.
Print Assumptions C07_no_dup_under_retry.
Print Assumptions C07_early_drop.
Print Assumptions C07_read_ahead.
Print Assumptions C07_schedule_independent.
Print Assumptions C07_accept_full_sound.
Print Assumptions C07_accept_full_complete.
Print Assumptions C07_accept_drop_sound.
Print Assumptions C07_accept_drop_complete.
Print Assumptions C07_ignored_write_error_ends_silently.
