(* Statement pins for C05: compiled on every check run against the built .vo files. *)
From SV Require Import Base.Prelude Model.Ring Model.Replicas Model.Plan Proofs.Ring_proofs Proofs.Replicas_proofs Proofs.Plan_proofs.
From Coq Require Import Permutation.
Open Scope Z_scope.
From SV Require Import Props.C05.

Check C05_accept_sound :
  forall dcf rackf (g : ring N) keyspaces enabled connected pol rq p,
  plan_matches dcf rackf g keyspaces enabled connected pol rq p = true ->
  P_nodup p /\ P_filter enabled p /\ P_locality dcf pol rq p /\ P_complete dcf g enabled pol rq p /\
  P_order dcf rackf g keyspaces enabled connected pol rq p /\
  P_lwt dcf rackf g keyspaces enabled connected pol rq p.
Check C05_pick_sound :
  forall dcf rackf (g : ring N) keyspaces enabled connected pol rq n,
  pick_matches dcf rackf g keyspaces enabled connected pol rq (Some n) = true ->
  (group_of dcf rackf g keyspaces enabled connected pol rq n < 8)%nat /\
  (forall m, In m (all_nodes g) ->
     (group_of dcf rackf g keyspaces enabled connected pol rq n <=
      group_of dcf rackf g keyspaces enabled connected pol rq m)%nat) /\
  (rq_lwt rq = true -> (group_of dcf rackf g keyspaces enabled connected pol rq n < 3)%nat ->
   exists r, lwt_sequence dcf rackf g keyspaces enabled connected pol rq = n :: r).
Check C05_fallback_accepted :
  forall dcf rackf (g : ring N) keyspaces enabled connected shf pol rq,
  sorted_weak g ->
  (forall k s, ks_lookup keyspaces k = Some s -> nts_keys_ok s) ->
  forall cho shuf, (forall site l, Permutation (shuf site l) l) ->
  plan_matches dcf rackf g keyspaces enabled connected pol rq
    (map fst (fallback dcf rackf g keyspaces enabled connected shf pol rq cho shuf)) = true.
Check C05_fallback_properties :
  forall dcf rackf (g : ring N) keyspaces enabled connected shf pol rq,
  sorted_weak g ->
  (forall k s, ks_lookup keyspaces k = Some s -> nts_keys_ok s) ->
  forall cho shuf, (forall site l, Permutation (shuf site l) l) ->
  let p := map fst (fallback dcf rackf g keyspaces enabled connected shf pol rq cho shuf) in
  P_nodup p /\ P_filter enabled p /\ P_locality dcf pol rq p /\ P_complete dcf g enabled pol rq p /\
  P_order dcf rackf g keyspaces enabled connected pol rq p /\
  P_lwt dcf rackf g keyspaces enabled connected pol rq p.
Check C05_nodup_targets :
  forall dcf rackf (g : ring N) keyspaces enabled connected shf pol rq cho shuf,
  ForallOrdPairs (fun x y => target_cmp x y = false)
    (fallback dcf rackf g keyspaces enabled connected shf pol rq cho shuf).
Check C05_fallback_structure :
  forall dcf rackf (g : ring N) keyspaces enabled connected shf pol rq cho shuf,
  fallback dcf rackf g keyspaces enabled connected shf pol rq cho shuf =
  map (with_shard shf) (uniq (concat (seg_replicas dcf rackf g keyspaces enabled connected pol rq shuf))) ++
  map no_shard
    (filter (fun n => negb (mem n (concat (seg_replicas dcf rackf g keyspaces enabled connected pol rq shuf))))
            (uniq (concat (seg_nodes dcf rackf g enabled connected pol rq cho)))).
Check C05_pick_accepted :
  forall dcf rackf (g : ring N) keyspaces enabled connected shf pol rq,
  sorted_weak g ->
  (forall k s, ks_lookup keyspaces k = Some s -> nts_keys_ok s) ->
  forall cho, (forall site len, (0 < len)%nat -> (cho site len < len)%nat) ->
  pick_matches dcf rackf g keyspaces enabled connected pol rq
    (option_map fst (pick dcf rackf g keyspaces enabled connected shf pol rq cho)) = true.
Check C05_plan_accepted :
  forall dcf rackf (g : ring N) keyspaces enabled connected shf pol rq,
  sorted_weak g ->
  (forall k s, ks_lookup keyspaces k = Some s -> nts_keys_ok s) ->
  forall cho shuf, (forall site l, Permutation (shuf site l) l) ->
  (forall site len, (0 < len)%nat -> (cho site len < len)%nat) ->
  plan_matches dcf rackf g keyspaces enabled connected pol rq
    (map fst (plan dcf rackf g keyspaces enabled connected shf pol rq cho shuf)) = true.
Check C05_plan_properties :
  forall dcf rackf (g : ring N) keyspaces enabled connected shf pol rq,
  sorted_weak g ->
  (forall k s, ks_lookup keyspaces k = Some s -> nts_keys_ok s) ->
  forall cho shuf, (forall site l, Permutation (shuf site l) l) ->
  (forall site len, (0 < len)%nat -> (cho site len < len)%nat) ->
  let p := map fst (plan dcf rackf g keyspaces enabled connected shf pol rq cho shuf) in
  P_nodup p /\ P_filter enabled p /\ P_locality dcf pol rq p /\ P_complete dcf g enabled pol rq p /\
  P_order dcf rackf g keyspaces enabled connected pol rq p /\
  P_lwt dcf rackf g keyspaces enabled connected pol rq p.
Check C05_lwt :
  forall dcf rackf (g : ring N) keyspaces enabled connected shf pol rq,
  sorted_weak g ->
  (forall k s, ks_lookup keyspaces k = Some s -> nts_keys_ok s) ->
  forall cho shuf, (forall site l, Permutation (shuf site l) l) ->
  (forall site len, (0 < len)%nat -> (cho site len < len)%nat) ->
  rq_lwt rq = true ->
  filter (fun n => (group_of dcf rackf g keyspaces enabled connected pol rq n <? 3)%nat)
         (map fst (plan dcf rackf g keyspaces enabled connected shf pol rq cho shuf)) =
  lwt_sequence dcf rackf g keyspaces enabled connected pol rq.
Check C05_plan_nodes :
  forall dcf rackf (g : ring N) keyspaces enabled connected shf pol rq,
  sorted_weak g ->
  (forall k s, ks_lookup keyspaces k = Some s -> nts_keys_ok s) ->
  forall cho shuf, (forall site l, Permutation (shuf site l) l) ->
  (forall site len, (0 < len)%nat -> (cho site len < len)%nat) ->
  map fst (plan dcf rackf g keyspaces enabled connected shf pol rq cho shuf) =
  match pick dcf rackf g keyspaces enabled connected shf pol rq cho with
  | Some (p, _) => p :: remove_by N.eqb p (map fst (fallback dcf rackf g keyspaces enabled connected shf pol rq cho shuf))
  | None => map fst (fallback dcf rackf g keyspaces enabled connected shf pol rq cho shuf)
  end.
Print Assumptions C05_accept_sound.
Print Assumptions C05_pick_sound.
Print Assumptions C05_fallback_accepted.
Print Assumptions C05_fallback_properties.
Print Assumptions C05_nodup_targets.
Print Assumptions C05_fallback_structure.
Print Assumptions C05_pick_accepted.
Print Assumptions C05_plan_accepted.
Print Assumptions C05_plan_properties.
Print Assumptions C05_lwt.
Print Assumptions C05_plan_nodes.
