(* Statement pins for C14: compiled on every check run against the built .vo files. *)
From SV Require Import Base.Prelude Base.Bytes Model.Reprepare Proofs.Reprepare_proofs.
Open Scope N_scope.
From SV Require Import Props.C14.

Check C14_transparent :
  forall ST init st c a i pm r,
  greach ST init st ->
  let k := g_calls st c in
  let s := ST (xa_stmt a) in
  k_x k = Some a ->
  k_rcvd k = [r; RPrepared (s_id s) pm; RUnprepared i] ->
  exists m1 m2,
    let f1 := mk_exec_frame s (k_ext k) a m1 in
    let f2 := mk_exec_frame s (k_ext k) a m2 in
    k_sent k = [(Q_execute f2, Some m2); (Q_prepare (s_text s), None); (Q_execute f1, Some m1)] /\
    (f_id f2 = s_id s /\ f_id f2 = f_id f1 /\ f_values f2 = f_values f1 /\ f_cons f2 = f_cons f1 /\
     f_serial f2 = f_serial f1 /\ f_page_size f2 = f_page_size f1 /\ f_paging f2 = f_paging f1 /\
     f_ts f2 = f_ts f1) /\
    k_st k = CS_done (outcome_of (k_ext k) (cp_cached (k_ext k) (xa_use_cached a) m2) r).
Check C14_direct :
  forall ST init st c a r,
  greach ST init st ->
  let k := g_calls st c in
  k_x k = Some a -> k_rcvd k = [r] -> is_unprepared r = false ->
  exists m, k_sent k = [(Q_execute (mk_exec_frame (ST (xa_stmt a)) (k_ext k) a m), Some m)] /\
            k_st k = CS_done (outcome_of (k_ext k) (cp_cached (k_ext k) (xa_use_cached a) m) r).
Check C14_id_changed :
  forall ST init st c a i id pm,
  greach ST init st ->
  let k := g_calls st c in
  let s := ST (xa_stmt a) in
  k_x k = Some a ->
  k_rcvd k = [RPrepared id pm; RUnprepared i] -> id <> s_id s ->
  k_st k = CS_done (O_err E_IdChanged) /\
  forall ls st', grun ST st ls = Some st' ->
    exists m, k_sent (g_calls st' c) =
      [(Q_prepare (s_text s), None); (Q_execute (mk_exec_frame s (k_ext k) a m), Some m)].
Check C14_batch_resend :
  forall ST init st c,
  greach ST init st ->
  let k := g_calls st c in
  k_x k = None -> k_st k <> CS_idle ->
  exists b, forall q om, In (q, om) (k_sent k) ->
    om = None /\ (q = Q_batch (mk_batch_frame ST b) \/
                  exists p id, q = Q_prepare (s_text (ST p)) /\ find_prepared ST (ba_items b) id = Some p).
Check C14_batch_id_changed :
  forall ST init st c id pm rest,
  greach ST init st ->
  let k := g_calls st c in
  k_x k = None -> k_rcvd k = RPrepared id pm :: rest ->
  exists b,
  (exists p sent', k_st k = CS_batch b /\ id = s_id (ST p) /\
                   k_sent k = (Q_batch (mk_batch_frame ST b), None) :: sent') \/
  (k_st k = CS_done (O_err E_IdChanged) /\
   exists p rest', id <> s_id (ST p) /\
     forall ls st', grun ST st ls = Some st' ->
       k_sent (g_calls st' c) = (Q_prepare (s_text (ST p)), None) :: rest') \/
  k_st k = CS_done O_norows.
Check C14_decode_meta :
  forall ST init st c a used pg nr cl,
  greach ST init st ->
  let k := g_calls st c in
  let s := xa_stmt a in
  k_x k = Some a -> k_st k = CS_done (O_rows used pg nr cl) ->
  exists m b rest_sent rest_rcvd,
    let f := mk_exec_frame (ST s) (k_ext k) a m in
    k_sent k = (Q_execute f, Some m) :: rest_sent /\ k_rcvd k = RRows b :: rest_rcvd /\
    pg = rb_paging b /\ nr = rb_nrows b /\ cl = rb_cells b /\
    (m = init s \/ In m (g_ann st s)) /\
    match rb_meta b with
    | RM_full nid cols => used = meta_of_cols nid cols
    | RM_none _ => if f_skip f then used = m /\ m_count m <> 0 else used = mock_empty
    end.
Check C14_cell_announced :
  forall ST init st,
  greach ST init st -> cell_inv init st.
Check C14_next_id :
  forall ST init st l st' c f om,
  greach ST init st -> gstep ST st l = Some st' ->
  k_sent (g_calls st' c) = (Q_execute f, om) :: k_sent (g_calls st c) ->
  exists a, k_x (g_calls st' c) = Some a /\
    let s := xa_stmt a in
    let cur := hd (init s) (g_ann st' s) in
    g_cells st' s = cur /\ om = Some cur /\
    f = mk_exec_frame (ST s) (k_ext (g_calls st' c)) a cur.
Check C14_frame_presents_id :
  forall st a m y,
  m_count m <> 0 -> m_id m = Some y ->
  f_rmid (mk_exec_frame st true a m) = Some y /\ f_skip (mk_exec_frame st true a m) = true.
Check C14_never_skip_with_empty :
  forall ST init st c f om,
  greach ST init st ->
  In (Q_execute f, om) (k_sent (g_calls st c)) ->
  exists a m, k_x (g_calls st c) = Some a /\ om = Some m /\
              f = mk_exec_frame (ST (xa_stmt a)) (k_ext (g_calls st c)) a m /\
              (f_skip f = true -> m_count m <> 0 /\
                                  cp_cached (k_ext (g_calls st c)) (xa_use_cached a) m = Some m) /\
              (f_skip f = false -> cp_cached (k_ext (g_calls st c)) (xa_use_cached a) m = None).
Check C14_faithful :
  forall (D : schema) (ST : nat -> stmt) (ns : nat) (init : nat -> meta),
  (forall s v v', mid_of D s v = mid_of D s v' -> cols_of D s v = cols_of D s v') ->
  (forall s v, mid_of D s v <> []) ->
  (forall s s', s_id (ST s) = s_id (ST s') -> s = s') ->
  (forall s s', s_text (ST s) = s_text (ST s') -> s = s') ->
  (forall s, meta_ok D s (init s)) ->
  forall nodes ls st c a u pg nr cl,
  srun D ST ns (sinit init nodes) ls = Some st ->
  let k := g_calls (s_g st) c in
  k_x k = Some a -> k_st k = CS_done (O_rows u pg nr cl) ->
  ~ KnownClass (k_ext k) (xa_use_cached a) ->
  exists enc p, s_enc st c = Some (enc, p) /\ m_cols u = enc /\
                pg = p_paging p /\ nr = p_nrows p /\ cl = p_cells p.
Check C14_known_class_dec :
  forall ext uc, known_classb ext uc = true <-> KnownClass ext uc.
Check C14_spec_is_generic :
  forall (D : schema) (ST : nat -> stmt) (ns : nat) (init : nat -> meta),
  (forall s v v', mid_of D s v = mid_of D s v' -> cols_of D s v = cols_of D s v') ->
  (forall s v, mid_of D s v <> []) ->
  (forall s s', s_id (ST s) = s_id (ST s') -> s = s') ->
  (forall s s', s_text (ST s) = s_text (ST s') -> s = s') ->
  (forall s, meta_ok D s (init s)) ->
  forall nodes ls st,
  srun D ST ns (sinit init nodes) ls = Some st -> greach ST init (s_g st).
Check C14_evicted_recovers :
  forall (D : schema) (ST : nat -> stmt) (ns : nat) (init : nat -> meta),
  (forall s v v', mid_of D s v = mid_of D s v' -> cols_of D s v = cols_of D s v') ->
  (forall s v, mid_of D s v <> []) ->
  (forall s s', s_id (ST s) = s_id (ST s') -> s = s') ->
  (forall s s', s_text (ST s) = s_text (ST s') -> s = s') ->
  (forall s, meta_ok D s (init s)) ->
  forall nodes ls st c a m s p0 p1 p,
  srun D ST ns (sinit init nodes) ls = Some st ->
  let nd := s_nodes st (s_route st c) in
  let k := g_calls (s_g st) c in
  stmt_of_id ST ns (s_id (ST s)) = Some s -> stmt_of_text ST ns (s_text (ST s)) = Some s ->
  sid D s 0 = s_id (ST s) ->
  k_x k = Some a -> xa_stmt a = s -> k_st k = CS_exec1 a m ->
  s_out st c = Some (Q_execute (mk_exec_frame (ST s) (k_ext k) a m)) -> s_inbox st c = None ->
  k_ext k = n_ext nd ->
  n_prep nd s = false -> n_salt nd s = 0 -> cols_of D s (n_ver nd s) <> [] ->
  exists st' u,
    srun D ST ns st [SL_serve c p0; SL_recv c; SL_serve c p1; SL_recv c; SL_tick c; SL_serve c p; SL_recv c] = Some st' /\
    k_st (g_calls (s_g st') c) = CS_done (O_rows u (p_paging p) (p_nrows p) (p_cells p)) /\
    (~ KnownClass (k_ext k) (xa_use_cached a) -> m_cols u = cols_of D s (n_ver nd s)).
Check C14_accept_sound :
  forall ST tr st c c' st',
  g_accept ST st c tr = (c', V_ok st') ->
  (exists ls, grun ST st ls = Some st') /\
  forall i o, nth_error tr i = Some o -> op_matches st' (c + i) o.
Check C14_spec_accept_sound :
  forall D ST ns tr st c c' st',
  s_accept D ST ns st c tr = (c', V_ok st') -> exists ls, srun D ST ns st ls = Some st'.
Check C14_faithful_refuted :
  exists ls st c a u pg nr cl enc p,
    srun exD exST 1 (sinit (exInit false) (exNodes false)) ls = Some st /\
    k_x (g_calls (s_g st) c) = Some a /\
    k_st (g_calls (s_g st) c) = CS_done (O_rows u pg nr cl) /\
    KnownClass (k_ext (g_calls (s_g st) c)) (xa_use_cached a) /\
    s_enc st c = Some (enc, p) /\ m_cols u <> enc.
Print Assumptions C14_transparent.
Print Assumptions C14_direct.
Print Assumptions C14_id_changed.
Print Assumptions C14_batch_resend.
Print Assumptions C14_batch_id_changed.
Print Assumptions C14_decode_meta.
Print Assumptions C14_cell_announced.
Print Assumptions C14_next_id.
Print Assumptions C14_frame_presents_id.
Print Assumptions C14_never_skip_with_empty.
Print Assumptions C14_faithful.
Print Assumptions C14_known_class_dec.
Print Assumptions C14_spec_is_generic.
Print Assumptions C14_evicted_recovers.
Print Assumptions C14_accept_sound.
Print Assumptions C14_spec_accept_sound.
Print Assumptions C14_faithful_refuted.
