(* Statement pins for C17: compiled on every check run against the built .vo files. *)
From SV Require Import Base.Prelude Base.Bytes Model.Vint Model.Cql Model.Accept Proofs.Cql_proofs Proofs.Accept_proofs.
Open Scope N_scope.
From SV Require Import Props.C17.

Check C17_matrix_ser :
  forall k t, known_class k t = false -> ser_accepts k t = spec_compat Ser k t.
Check C17_matrix_ser_refuted :
  exists k t v, known_class k t = true /\ ser_accepts k t = true /\ spec_compat Ser k t = false /\
                has_carrier k v = true /\
                ser_out k true t v = ([0; 0; 0; 8; 0; 0; 0; 7; 255; 255; 255; 255], None).
Check C17_documented_accepted :
  forall k t, doc_compat Ser k t = true ->
  ser_accepts k t = true /\ spec_compat Ser k t = true /\ known_class k t = false.
Check C17_matrix_deser :
  forall k t, deser_impl k = true -> deser_accepts k t = doc_compat De k t.
Check C17_row_check :
  forall ks cols, forallb deser_impl ks = true ->
  row_accepts ks cols = (List.length ks =? List.length cols)%nat && all2 (doc_compat De) ks cols.
Check C17_accept_sound :
  forall k ws t v e,
  static k = true -> has_carrier k v = true -> ser_accepts k t = true ->
  snd (ser_out k ws t v) = Some e -> is_typeck e = false /\ e <> KE_IllTyped.
Check C17_reject_complete :
  forall k ws t v,
  has_carrier k v = true -> populated v = true -> ser_accepts k t = false ->
  exists e, snd (ser_out k ws t v) = Some e.
Check C17_append_only :
  forall k ws t v buf,
  ser_buf k ws t v buf = (buf ++ fst (ser_out k ws t v), snd (ser_out k ws t v)).
Check C17_no_bytes :
  forall s k t v e, snd (ser_out k true t v) = Some e -> fst (add_value s k t v) = s.
Check C17_rollback :
  forall s k t v s' e, add_value s k t v = (s', Some e) -> s' = s.
Check C17_add_ok :
  forall s k t v s', add_value s k t v = (s', None) ->
  exists o, ser_out k true t v = (o, None) /\ cell_out o /\ sv_count s <> u16_max /\
            s' = {| sv_bytes := sv_bytes s ++ o; sv_count := (sv_count s + 1) mod 65536 |}.
Check C17_cap :
  forall s k t v, sv_count s = u16_max -> add_value s k t v = (s, Some RE_TooManyValues).
Check C17_count :
  forall ops,
  exists cells, sv_iter (run_ops ops) = Some cells /\
                N.of_nat (List.length cells) = sv_count (run_ops ops) /\ sv_count (run_ops ops) <= u16_max.
Check C17_row_count :
  forall cols vals s, from_row cols vals = Ok s ->
  exists cells, sv_iter s = Some cells /\ List.length cells = List.length vals /\
                sv_count s = N.of_nat (List.length vals) /\ sv_count s <= u16_max.
Check C17_row_refuses :
  forall cols vals k t v i,
  nth_error cols i = Some t -> nth_error vals i = Some (k, v) ->
  (exists e, snd (ser_out k true t v) = Some e) -> exists e, from_row cols vals = Err e.
Check C17_chunks :
  forall cs cnt k t v,
  add_value {| sv_bytes := chunks_bytes cs; sv_count := cnt |} k t v =
  match add_value_chunks cs cnt k t v with
  | (cs', cnt', r) => ({| sv_bytes := chunks_bytes cs'; sv_count := cnt' |}, r)
  end.
Print Assumptions C17_matrix_ser.
Print Assumptions C17_matrix_ser_refuted.
Print Assumptions C17_documented_accepted.
Print Assumptions C17_matrix_deser.
Print Assumptions C17_row_check.
Print Assumptions C17_accept_sound.
Print Assumptions C17_reject_complete.
Print Assumptions C17_append_only.
Print Assumptions C17_no_bytes.
Print Assumptions C17_rollback.
Print Assumptions C17_add_ok.
Print Assumptions C17_cap.
Print Assumptions C17_count.
Print Assumptions C17_row_count.
Print Assumptions C17_row_refuses.
Print Assumptions C17_chunks.
