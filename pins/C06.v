(* Statement pins for C06: compiled on every check run against the built .vo files. *)
From SV Require Import Base.Prelude Model.Retry Model.Fiber.
From SV Require Import Proofs.Retry_proofs Proofs.Fiber_proofs Proofs.C06_proofs.
From SV Require Import Model.E2EAttempts Proofs.E2EAttempts_proofs.
Open Scope Z_scope.
From SV Require Import Props.C06.

Check C06_safe_set :
  forall e,
  safe_errorb e = true <->
  (e = EUnableToAllocStreamId \/ e = EDbError DbIsBootstrapping
   \/ (exists required alive, e = EDbError (DbUnavailable required alive))
   \/ (exists received required dp, e = EDbError (DbReadTimeout received required dp))).
Check C06_named_unsafe_set :
  forall e,
  named_unsafe_errorb e = true <->
  (e = EBrokenConnectionError \/ e = EDbError DbOverloaded \/ e = EDbError DbServerError
   \/ e = EDbError DbTruncateError
   \/ (exists received required wt, e = EDbError (DbWriteTimeout received required wt))).
Check C06_safe_resend :
  forall p cl0 plan outs tr r,
  fiber p false cl0 plan outs = (tr, r) ->
  forall pre t c e d post, tr = pre ++ EvAttempt t c (AErr e d) :: post -> post <> [] ->
  safe_errorb e = true.
Check C06_unsafe_error_final :
  forall p cl0 plan outs tr r,
  fiber p false cl0 plan outs = (tr, r) ->
  forall pre t c e d post, tr = pre ++ EvAttempt t c (AErr e d) :: post ->
  named_unsafe_errorb e = true ->
  d = DontRetry /\ post = [] /\ r = RFailed (LAttempt e).
Check C06_decide_safe :
  forall s ri s' d,
  decide s ri = (s', d) -> ri_idempotent ri = false -> is_retry d = true ->
  safe_errorb (ri_error ri) = true.
Check C06_serial_default :
  forall idem cl0 plan outs tr r,
  fiber PDefault idem cl0 plan outs = (tr, r) ->
  forall pre t c e d post, tr = pre ++ EvAttempt t c (AErr e d) :: post ->
  is_serial c = true ->
  d = DontRetry /\ post = [] /\ r = RFailed (LAttempt e).
Check C06_serial_default_one_attempt :
  forall idem cl0 plan outs tr r,
  fiber PDefault idem cl0 plan outs = (tr, r) -> is_serial cl0 = true ->
  (List.length (attempts tr) <= 1)%nat.
Check C06_bound :
  forall p idem cl0 plan outs tr r,
  fiber p idem cl0 plan outs = (tr, r) ->
  (List.length (attempts tr) + List.length (conn_fails tr)
   <= List.length plan + same_target_budget p)%nat.
Check C06_bound_fallthrough :
  forall idem cl0 plan outs tr r,
  fiber PFallthrough idem cl0 plan outs = (tr, r) -> (List.length (attempts tr) <= 1)%nat.
Check C06_same_target_budget :
  forall p h,
  (List.length (filter is_same_target (decide_history (new_session p) h))
   <= same_target_budget p)%nat.
Check C06_terminates :
  forall p idem cl0 plan outs tr r,
  fiber p idem cl0 plan outs = (tr, r) ->
  (List.length plan + same_target_budget p <= List.length outs)%nat -> r <> RPending.
Check C06_pending_consumed :
  forall p idem cl0 plan outs tr r,
  fiber p idem cl0 plan outs = (tr, r) -> r = RPending -> List.length tr = List.length outs.
Check C06_stream_prefix :
  forall p idem cl0 plan outs tr r more,
  fiber p idem cl0 plan outs = (tr, r) -> r <> RPending ->
  fiber p idem cl0 plan (outs ++ more) = (tr, r).
Check C06_exact :
  forall p idem cl0 plan outs tr r,
  fiber p idem cl0 plan outs = (tr, r) <->
  Exec decide idem plan (new_session p) cl0 None outs tr r.
Check C06_exact_any_policy :
  forall (St : Type) (dec : St -> request_info -> St * decision) (T : Type) idem
         s0 cl0 (plan : list T) outs tr r,
  fiber_run dec idem s0 cl0 plan outs = (tr, r) <-> Exec dec idem plan s0 cl0 None outs tr r.
Check C06_after_error :
  forall p idem cl0 plan outs tr r,
  fiber p idem cl0 plan outs = (tr, r) ->
  forall pre t c e d ev post, tr = pre ++ EvAttempt t c (AErr e d) :: ev :: post ->
  (exists nc, d = RetrySameTarget nc /\ ev_target ev = t) \/ (exists nc, d = RetryNextTarget nc).
Check C06_terminal :
  forall p idem cl0 plan outs tr r,
  fiber p idem cl0 plan outs = (tr, r) ->
  forall pre t c o post, tr = pre ++ EvAttempt t c o :: post ->
  match o with
  | AOk => post = [] /\ r = RCompleted t
  | AErr e DontRetry => post = [] /\ r = RFailed (LAttempt e)
  | AErr e IgnoreWriteError => post = [] /\ r = RIgnoredWriteError t
  | AErr _ _ => True
  end.
Check C06_provenance :
  forall p idem cl0 plan outs tr r,
  fiber p idem cl0 plan outs = (tr, r) ->
  forall pre t c e d post, tr = pre ++ EvAttempt t c (AErr e d) :: post ->
  exists s1 s2, session_policy s1 = p /\ decide s1 (mk_ri e idem c) = (s2, d).
Check C06_first_cl :
  forall p idem cl0 plan outs tr r,
  fiber p idem cl0 plan outs = (tr, r) -> forall c l, attempt_cls tr = c :: l -> c = cl0.
Check C06_cl_carried :
  forall p idem cl0 plan outs tr r,
  fiber p idem cl0 plan outs = (tr, r) ->
  forall pre t c e d post c' l, tr = pre ++ EvAttempt t c (AErr e d) :: post ->
  attempt_cls post = c' :: l -> c' = unwrap_or (carried d) c.
Check C06_cl_const :
  forall p idem cl0 plan outs tr r,
  fiber p idem cl0 plan outs = (tr, r) -> p <> PDowngrading ->
  Forall (eq cl0) (attempt_cls tr).
Check C06_downgrade_once :
  forall p idem cl0 plan outs tr r,
  fiber p idem cl0 plan outs = (tr, r) ->
  exists n c' m, attempt_cls tr = repeat cl0 n ++ repeat c' m.
Check C06_downgrade_sound :
  forall idem cl0 plan outs tr r,
  fiber PDowngrading idem cl0 plan outs = (tr, r) ->
  forall pre t c e d post c' l, tr = pre ++ EvAttempt t c (AErr e d) :: post ->
  attempt_cls post = c' :: l -> c' <> c ->
  is_serial c = false /\ d = RetrySameTarget (Some c') /\
  exists known_ok required,
    (e = EDbError (DbUnavailable required known_ok)
     \/ (exists dp, e = EDbError (DbReadTimeout known_ok required dp) /\ known_ok < required)
     \/ (e = EDbError (DbWriteTimeout known_ok required WUnloggedBatch) /\ idem = true))
    /\ exists n, cl_count c' = Some n
         /\ (n <= known_ok \/ (c = CEachQuorum /\ c' = COne /\ known_ok <= 0))
         /\ (known_ok < required -> 1 <= required -> n <= required
             /\ (n < required \/ (c = CEachQuorum /\ c' = COne /\ required = 1))).
Check C06_downgrade_decision :
  forall w ri s' d c',
  decide (SDowngrading w) ri = (s', d) -> carried d = Some c' ->
  w = false /\ s' = SDowngrading true /\
  is_serial (ri_consistency ri) = false /\ d = RetrySameTarget (Some c') /\
  exists known_ok required,
    (ri_error ri = EDbError (DbUnavailable required known_ok)
     \/ (exists dp, ri_error ri = EDbError (DbReadTimeout known_ok required dp) /\ known_ok < required)
     \/ (ri_error ri = EDbError (DbWriteTimeout known_ok required WUnloggedBatch) /\ ri_idempotent ri = true))
    /\ exists n, cl_count c' = Some n
         /\ (n <= known_ok \/ (ri_consistency ri = CEachQuorum /\ c' = COne /\ known_ok <= 0))
         /\ (known_ok < required -> 1 <= required -> n <= required
             /\ (n < required \/ (ri_consistency ri = CEachQuorum /\ c' = COne /\ required = 1))).
Check C06_ignore_only_idempotent :
  forall s ri s' d,
  decide s ri = (s', d) -> d = IgnoreWriteError ->
  ri_idempotent ri = true /\ (exists w, s = SDowngrading w) /\
  exists received required wt, ri_error ri = EDbError (DbWriteTimeout received required wt)
     /\ received > 0 /\ (wt = WSimple \/ wt = WBatch).
Check C06_decide_prop_ok :
  forall s ri,
  prop_decision_ok (session_policy s) ri (snd (decide s ri)) = true.
Check C06_history_prop_ok :
  forall p h,
  prop_history_ok p (decide_history (new_session p) h) = true.
Check C06_trace_prop_ok :
  forall p idem cl0 plan outs tr r,
  fiber p idem cl0 plan outs = (tr, r) -> prop_trace_ok p idem (List.length plan) tr = true.
Check C06_e2e_run :
  forall p idem cl0 nodes down c frs tret o co,
  check_single p idem cl0 nodes down c frs tret o co = true ->
  exists tr r,
    fiber p idem cl0 (c_plan c) (c_outs c) = (tr, r)
    /\ Forall2 ev_obs (attempts tr) frs
    /\ res_match r o = true /\ r <> RPending
    /\ seq_ok frs = true
    /\ NoDup (c_plan c) /\ incl (c_plan c) nodes
    /\ (forall n, In n nodes -> In n (c_plan c) \/ In n down)
    /\ (forall t, In t (conn_fail_targets tr) -> In t down)
    /\ coord_match co r = true.
Check C06_e2e_resend :
  forall p idem cl0 nodes down c frs tret o co,
  check_single p idem cl0 nodes down c frs tret o co = true ->
  forall pre f g post, frs = pre ++ f :: g :: post ->
  (exists e, f_ans f = AnsErr e /\ (idem = false -> safe_errorb e = true))
  /\ (f_arr f <= f_done f)%N /\ (f_done f <= f_arr g)%N.
Check C06_e2e_unsafe_final :
  forall p cl0 nodes down c frs tret o co,
  check_single p false cl0 nodes down c frs tret o co = true ->
  forall pre f post e, frs = pre ++ f :: post -> f_ans f = AnsErr e -> named_unsafe_errorb e = true ->
  post = [] /\ o = OFailed (LAttempt e).
Check C06_e2e_bound :
  forall p idem cl0 nodes down c frs tret o co,
  check_single p idem cl0 nodes down c frs tret o co = true ->
  (List.length frs <= List.length nodes + same_target_budget p)%nat.
Check C06_e2e_consistency :
  forall p idem cl0 nodes down c frs tret o co,
  check_single p idem cl0 nodes down c frs tret o co = true ->
  (forall f rest, frs = f :: rest -> f_cl f = cl0)
  /\ (p <> PDowngrading -> Forall (fun f => f_cl f = cl0) frs).
Check C06_e2e_serial_default :
  forall idem cl0 nodes down c frs tret o co,
  check_single PDefault idem cl0 nodes down c frs tret o co = true -> is_serial cl0 = true ->
  (List.length frs <= 1)%nat.
Check C06_e2e_gate :
  forall p idem spec cl0 nodes down cs assign frs tret o co,
  e2e_check p idem spec cl0 nodes down cs assign frs tret o co = true ->
  (idem = false \/ spec = None) ->
  exists c, cs = [c] /\ check_single p idem cl0 nodes down c frs tret o co = true
            /\ forall t, (List.length (in_flight t frs) <= 1)%nat.
Check C06_e2e_fibers :
  forall p spec cl0 nodes down cs assign frs tret o co max,
  e2e_check p true spec cl0 nodes down cs assign frs tret o co = true -> spec = Some max ->
  (1 <= List.length cs <= 1 + max)%nat
  /\ NoDup (concat (map c_plan cs)) /\ incl (concat (map c_plan cs)) nodes
  /\ forall i c, nth_error cs i = Some c ->
       exists tr r, fiber p true cl0 (c_plan c) (c_outs c) = (tr, r)
                    /\ match_frames (c_free c) (attempts tr) (sub_frames i assign frs) = true
                    /\ seq_ok (sub_frames i assign frs) = true
                    /\ (forall t, In t (conn_fail_targets tr) -> In t down).
Check C06_e2e_match :
  forall evs frs,
  (match_frames false evs frs = true -> Forall2 ev_obs evs frs) /\
  (match_frames true evs frs = true ->
     Forall2 ev_obs_free evs frs /\ Forall2 ev_obs (removelast evs) (removelast frs)).
Check C06_e2e_prop_frames :
  forall p idem spec cl0 nodes down c frs tret o co,
  check_single p idem cl0 nodes down c frs tret o co = true ->
  gate_open idem spec = None ->
  prop_frames p idem spec (List.length nodes) frs = true.
Print Assumptions C06_safe_set.
Print Assumptions C06_named_unsafe_set.
Print Assumptions C06_safe_resend.
Print Assumptions C06_unsafe_error_final.
Print Assumptions C06_decide_safe.
Print Assumptions C06_serial_default.
Print Assumptions C06_serial_default_one_attempt.
Print Assumptions C06_bound.
Print Assumptions C06_bound_fallthrough.
Print Assumptions C06_same_target_budget.
Print Assumptions C06_terminates.
Print Assumptions C06_pending_consumed.
Print Assumptions C06_stream_prefix.
Print Assumptions C06_exact.
Print Assumptions C06_exact_any_policy.
Print Assumptions C06_after_error.
Print Assumptions C06_terminal.
Print Assumptions C06_provenance.
Print Assumptions C06_first_cl.
Print Assumptions C06_cl_carried.
Print Assumptions C06_cl_const.
Print Assumptions C06_downgrade_once.
Print Assumptions C06_downgrade_sound.
Print Assumptions C06_downgrade_decision.
Print Assumptions C06_ignore_only_idempotent.
Print Assumptions C06_decide_prop_ok.
Print Assumptions C06_history_prop_ok.
Print Assumptions C06_trace_prop_ok.
Print Assumptions C06_e2e_run.
Print Assumptions C06_e2e_resend.
Print Assumptions C06_e2e_unsafe_final.
Print Assumptions C06_e2e_bound.
Print Assumptions C06_e2e_consistency.
Print Assumptions C06_e2e_serial_default.
Print Assumptions C06_e2e_gate.
Print Assumptions C06_e2e_fibers.
Print Assumptions C06_e2e_match.
Print Assumptions C06_e2e_prop_frames.
