(* Statement pins for C19: compiled on every check run against the built .vo files. *)
From SV Require Import Base.Prelude Model.Sched Model.MergeChan Proofs.MergeChan_proofs Proofs.MergeChan_thms.
Open Scope N_scope.
From SV Require Import Props.C19.

Check C19_no_loss_dup :
  forall s, reachable step init s ->
  delivered_values s ++ in_flight s ++ slot_list s = merged s.
Check C19_no_lost_wakeup :
  forall s, reachable step init s -> r_pc s = RParked ->
  (slot s <> None /\ s_pc s <> SNeedNotify) \/ (sender_dropped s = true /\ s_pc s <> SDropping) ->
  wtr s = Notified /\ woken s = true.
Check C19_last_update :
  forall s, reachable step init s ->
  (In (RecvRet None) (delivered s) \/ exists f, r_pc s = RReturning f None) ->
  sender_dropped s = true /\ slot s = None /\ delivered_values s = merged s.
Check C19_send_err_only_if :
  forall s, reachable step init s ->
  In false (send_results s) -> receiver_dropped s = true /\ r_pc s = RGone.
Check C19_send_err :
  forall s, s_pc s = SIdle ->
  exists s', step s SCheck = Some s' /\
    (receiver_dropped s = true ->
       send_results s' = send_results s ++ [false] /\ s_pc s' = SIdle /\
       merged s' = merged s /\ slot s' = slot s) /\
    (receiver_dropped s = false -> send_results s' = send_results s /\ s_pc s' = SChecked).
Check C19_cancel_safe :
  forall s s', reachable step init s -> step s RCancel = Some s' ->
  (CInv s' /\ DInv s') /\ slot s' = slot s /\ merged s' = merged s /\ delivered s' = delivered s /\
  r_pc s' = RIdle /\ wtr s' = NoWaiter /\
  (((slot s <> None /\ s_pc s <> SNeedNotify) \/ (sender_dropped s = true /\ s_pc s <> SDropping)) ->
   permit s' = true).
Check C19_progress :
  forall s lb, reachable step init s -> next_label (r_pc s) = Some lb ->
  exists s', step s lb = Some s'.
Check C19_poll_spec :
  forall s, reachable step init s ->
  (s_pc s = SIdle \/ s_pc s = SGone) -> (r_pc s = RIdle \/ r_pc s = RParked) ->
  exists s',
    (match slot s with
     | Some l => op_poll s = Some (s', Ready (Some l)) /\ r_pc s' = RIdle /\
                 delivered s' = delivered s ++ [RecvRet (Some l)]
     | None =>
         if sender_dropped s
         then op_poll s = Some (s', Ready None) /\ r_pc s' = RIdle /\ delivered s' = delivered s ++ [RecvRet None]
         else op_poll s = Some (s', Pending) /\ r_pc s' = RParked /\ delivered s' = delivered s /\
              wtr s' = Registered true /\ woken s' = false
     end) /\
    slot s' = None /\ merged s' = merged s /\ s_pc s' = s_pc s /\ sender_dropped s' = sender_dropped s /\
    receiver_dropped s' = receiver_dropped s /\ send_results s' = send_results s /\ wakes s' = wakes s.
Check C19_ops_reachable :
  forall o s s' ob, reachable step init s -> run_op o s = Some (s', ob) ->
  reachable step init s'.
Check C19_refines_spec :
  forall os tr, run_ops os init = Some tr -> spec_check os a_init tr = true.
Check C19_model_total :
  forall os, spec_avail os a_init = true -> exists tr, run_ops os init = Some tr.
Check C19_stress_ok_sound :
  forall n bs, stress_ok n bs = true ->
  expand_batches bs = nrange 0 (N.to_nat n).
Print Assumptions C19_no_loss_dup.
Print Assumptions C19_no_lost_wakeup.
Print Assumptions C19_last_update.
Print Assumptions C19_send_err_only_if.
Print Assumptions C19_send_err.
Print Assumptions C19_cancel_safe.
Print Assumptions C19_progress.
Print Assumptions C19_poll_spec.
Print Assumptions C19_ops_reachable.
Print Assumptions C19_refines_spec.
Print Assumptions C19_model_total.
Print Assumptions C19_stress_ok_sound.
