(* Statement pins for C15: compiled on every check run against the built .vo files. *)
From SV Require Import Base.Prelude Model.Tablets Proofs.Tablets_proofs.
Open Scope Z_scope.
From SV Require Import Props.C15.

Check C15_no_panic :
  forall hist, Forall op_i64 hist -> run hist <> None.
Check C15_inv :
  forall hist s k tt,
  Forall op_i64 hist -> run hist = Some s -> find_table s k = Some tt -> tablets_inv (tt_list tt).
Check C15_every_step :
  forall h1 h2 s, run (h1 ++ h2) = Some s -> exists s1, run h1 = Some s1.
Check C15_partitioned :
  forall l x, tablets_inv l ->
  split_at (fun t => t_last t <? x) l (partition_point (fun t => t_last t <? x) l) /\
  split_at (fun t => t_first t <=? x) l (partition_point (fun t => t_first t <=? x) l).
Check C15_partition_point_unique :
  forall (p : tablet -> bool) l n,
  split_at p l n -> n = partition_point p l.
Check C15_lookup :
  forall hist s k tok,
  Forall op_i64 hist -> run hist = Some s -> lookup s k tok = spec_lookup hist k tok.
Check C15_lookup_covers :
  forall hist s k tok t,
  Forall op_i64 hist -> run hist = Some s -> lookup_tablet s k tok = Some t ->
  t_first t <= tok <= t_last t.
Check C15_dc :
  forall hist s k tok dc,
  Forall op_i64 hist -> run hist = Some s ->
  lookup_dc s k tok dc = option_map (restrict_dc dc) (lookup s k tok).
Check C15_dc_spec :
  forall hist s k tok dc,
  Forall op_i64 hist -> run hist = Some s -> lookup_dc s k tok dc = spec_lookup_dc hist k tok dc.
Check C15_payload :
  forall a b raw f l r,
  i64_ok a -> i64_ok b -> payload_check a b raw = Ok (f, l, r) ->
  a < b /\ f = a + 1 /\ l = b /\ i64_ok f /\ i64_ok l /\ f <= l /\ conv_shards raw = Some r.
Check C15_latest_wins :
  forall pre post k a b raw known tok s,
  Forall op_i64 (pre ++ Learn k a b raw known :: post) ->
  run (pre ++ Learn k a b raw known :: post) = Some s ->
  spec_payload_ok a b raw = true -> a < tok <= b ->
  forallb (fun o => negb (accepted_overlap k (a + 1) b o)) post = true ->
  lookup s k tok = option_map e_reps (spec_maintain_all k post (spec_entry_of a b raw known)).
Check C15_stale_none :
  forall pre post k a b raw known tok s0 t s,
  Forall op_i64 (pre ++ Learn k a b raw known :: post) ->
  run pre = Some s0 -> lookup_tablet s0 k tok = Some t ->
  spec_payload_ok a b raw = true -> ~ (a < tok <= b) ->
  ranges_overlap (a + 1) b (t_first t) (t_last t) = true ->
  forallb (fun o => negb (covering_learn k tok o)) post = true ->
  run (pre ++ Learn k a b raw known :: post) = Some s ->
  lookup s k tok = None.
Check C15_never_learnt :
  forall hist k tok s,
  Forall op_i64 hist -> run hist = Some s ->
  forallb (fun o => negb (covering_learn k tok o)) hist = true -> lookup s k tok = None.
Check C15_maint_clean :
  forall hist kss removed current recreated s k tok t,
  Forall op_i64 hist -> run (hist ++ [Maintain kss removed current recreated]) = Some s ->
  lookup_tablet s k tok = Some t ->
  keep_table kss k = true /\ t_failed t = None /\
  (forall r, In r (r_all (t_reps t)) -> memN (host (fst r)) removed = false) /\
  (forall r n', In r (r_all (t_reps t)) -> find_node recreated (host (fst r)) = Some n' -> fst r = n').
Check C15_flags :
  forall hist s,
  Forall op_i64 hist -> run hist = Some s ->
  (forall k tt t, find_table s k = Some tt -> tt_flag tt = false -> In t (tt_list tt) -> t_failed t = None) /\
  (i_flag s = false -> forall k tt, find_table s k = Some tt -> tt_flag tt = false).
Check C15_present :
  forall hist s k,
  Forall op_i64 hist -> Forall op_maps_ok hist -> run hist = Some s ->
  is_some (find_table s k) = spec_present hist k.
Check C15_bsearch :
  forall l x, tablets_inv l ->
  partition_point_bs (fun t => t_last t <? x) l = partition_point (fun t => t_last t <? x) l /\
  partition_point_bs (fun t => t_first t <=? x) l = partition_point (fun t => t_first t <=? x) l.
Check C15_no_stale_nodes :
  forall known0 h s k tok t r,
  Forall op_i64 (cluster_ops known0 h) -> run (cluster_ops known0 h) = Some s ->
  lookup_tablet s k tok = Some t -> In r (r_all (t_reps t)) -> In (fst r) (cluster_known known0 h).
Print Assumptions C15_no_panic.
Print Assumptions C15_inv.
Print Assumptions C15_every_step.
Print Assumptions C15_partitioned.
Print Assumptions C15_partition_point_unique.
Print Assumptions C15_lookup.
Print Assumptions C15_lookup_covers.
Print Assumptions C15_dc.
Print Assumptions C15_dc_spec.
Print Assumptions C15_payload.
Print Assumptions C15_latest_wins.
Print Assumptions C15_stale_none.
Print Assumptions C15_never_learnt.
Print Assumptions C15_maint_clean.
Print Assumptions C15_flags.
Print Assumptions C15_present.
Print Assumptions C15_bsearch.
Print Assumptions C15_no_stale_nodes.
