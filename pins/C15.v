(* Statement pins for C15: compiled on every check run against the built .vo files. *)
From SV Require Import Base.Prelude Model.Tablets Proofs.Tablets_proofs.
Open Scope Z_scope.
From SV Require Import Props.C15.

Check C15_no_panic :
  forall hist, Forall op_i64 hist -> run hist <> None.
Check C15_inv :
  forall hist s k tt,
  Forall op_i64 hist -> run hist = Some s -> find_table s k = Some tt -> tablets_inv (tt_list tt).
Check C15_every_step :
  forall h1 h2 s, run (h1 ++ h2) = Some s -> exists s1, run h1 = Some s1.
Check C15_partitioned :
  forall l x, tablets_inv l ->
  split_at (fun t => t_last t <? x) l (partition_point (fun t => t_last t <? x) l) /\
  split_at (fun t => t_first t <=? x) l (partition_point (fun t => t_first t <=? x) l).
Check C15_partition_point_unique :
  forall (p : tablet -> bool) l n,
  split_at p l n -> n = partition_point p l.
Check C15_lookup :
  forall hist s k tok,
  Forall op_i64 hist -> run hist = Some s -> lookup s k tok = spec_lookup hist k tok.
Check C15_lookup_covers :
  forall hist s k tok t,
  Forall op_i64 hist -> run hist = Some s -> lookup_tablet s k tok = Some t ->
  t_first t <= tok <= t_last t.
Check C15_dc :
  forall hist s k tok dc,
  Forall op_i64 hist -> run hist = Some s ->
  lookup_dc s k tok dc = option_map (restrict_dc dc) (lookup s k tok).
Check C15_dc_spec :
  forall hist s k tok dc,
  Forall op_i64 hist -> run hist = Some s -> lookup_dc s k tok dc = spec_lookup_dc hist k tok dc.
Check C15_payload :
  forall a b raw f l r,
  i64_ok a -> i64_ok b -> payload_check a b raw = Ok (f, l, r) ->
  a < b /\ f = a + 1 /\ l = b /\ i64_ok f /\ i64_ok l /\ f <= l /\ conv_shards raw = Some r.
Print Assumptions C15_no_panic.
Print Assumptions C15_inv.
Print Assumptions C15_every_step.
Print Assumptions C15_partitioned.
Print Assumptions C15_partition_point_unique.
Print Assumptions C15_lookup.
Print Assumptions C15_lookup_covers.
Print Assumptions C15_dc.
Print Assumptions C15_dc_spec.
Print Assumptions C15_payload.
