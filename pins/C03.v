(* Statement pins for C03: compiled on every check run against the built .vo files. *)
From SV Require Import Base.Prelude Base.Bytes Model.Murmur Model.PartKey.
From SV Require Import Proofs.Murmur_proofs Proofs.PartKey_proofs.
Open Scope N_scope.
From SV Require Import Props.C03.

Check C03_chunking :
  forall chunks : list bytes,
  (Z.of_nat (length (concat chunks)) < 2 ^ 63)%Z ->
  m3_finish (fold_left m3_write chunks m3_init) = token_new (murmur3_spec (concat chunks)).
Check C03_cdc_chunking :
  forall chunks : list bytes,
  cdc_finish (fold_left cdc_write chunks cdc_init) = cdc_token_spec (concat chunks).
Check C03_cdc :
  forall key : bytes,
  ((8 <= length key)%nat -> cdc_token_spec key = j_normalize (dec_signed (firstn 8 key))) /\
  ((length key < 8)%nat -> cdc_token_spec key = (- 2 ^ 63)%Z).
Check C03_feed :
  forall p (chunks : list bytes),
  (Z.of_nat (length (concat chunks)) < 2 ^ 63)%Z ->
  feed p chunks = token_spec p (concat chunks).
Check C03_hash_one :
  forall p (data : bytes),
  (Z.of_nat (length data) < 2 ^ 63)%Z -> hash_one p data = token_spec p data.
Check C03_token_range :
  forall key : bytes,
  (- 2 ^ 63 < murmur3_token_spec key < 2 ^ 63)%Z.
Check C03_pk_order :
  forall ncols (wire : list N) (values : list raw_value),
  NoDup wire ->
  (forall i, In i wire -> (N.to_nat i < length values)%nat /\ (N.to_nat i < ncols)%nat) ->
  N.of_nat (length values) <= 65535 ->
  pk_new ncols wire values = Ok (map (fun i => as_value (nth (N.to_nat i) values RNull)) wire).
Check C03_partition_key :
  forall ncols wire values,
  key_ok ncols wire values ->
  (length wire = 1%nat \/ Forall fits (spec_components wire values)) ->
  ps_compute_partition_key ncols wire values =
  Ok (spec_serialized_key (spec_components wire values)).
Check C03_token :
  forall p ncols wire values,
  wire <> [] -> key_ok ncols wire values ->
  (length wire = 1%nat \/ Forall fits (spec_components wire values)) ->
  (Z.of_nat (length (spec_serialized_key (spec_components wire values))) < 2 ^ 63)%Z ->
  ps_calculate_token p ncols wire values = Ok (Some (spec_token p wire values)).
Check C03_too_long :
  forall p ncols wire values,
  key_ok ncols wire values -> (1 < length wire)%nat ->
  Exists (fun c => 65535 < N.of_nat (length c)) (spec_components wire values) ->
  exists n, ps_calculate_token p ncols wire values = Err (ValueTooLong n) /\ 65535 < n /\
            In n (map (fun c => N.of_nat (length c)) (spec_components wire values)).
Check C03_errors :
  forall p ncols wire values e,
  key_ok ncols wire values -> ps_calculate_token p ncols wire values = Err e ->
  exists n, e = ValueTooLong n /\ 65535 < n.
Check C03_token_preserialized :
  forall p (comps : list bytes),
  (length comps = 1%nat \/ Forall fits comps) ->
  (Z.of_nat (length (spec_serialized_key comps)) < 2 ^ 63)%Z ->
  token_for_partition_key p (map RValue comps) = Ok (token_spec p (spec_serialized_key comps)).
Check C03_chunk_independent :
  forall p (chunks1 chunks2 : list bytes),
  concat chunks1 = concat chunks2 -> (Z.of_nat (length (concat chunks1)) < 2 ^ 63)%Z ->
  feed p chunks1 = feed p chunks2.
Check C03_marker_order :
  forall p ncols1 wire1 values1 ncols2 wire2 values2,
  wire1 <> [] -> key_ok ncols1 wire1 values1 -> key_ok ncols2 wire2 values2 ->
  spec_components wire1 values1 = spec_components wire2 values2 ->
  (length wire1 = 1%nat \/ Forall fits (spec_components wire1 values1)) ->
  (Z.of_nat (length (spec_serialized_key (spec_components wire1 values1))) < 2 ^ 63)%Z ->
  ps_calculate_token p ncols1 wire1 values1 = ps_calculate_token p ncols2 wire2 values2.
Check C03_key_okb_sound :
  forall ncols wire values,
  key_okb ncols wire values = true -> key_ok ncols wire values.
Check C03_prop_model :
  forall p ncols wire values,
  (Z.of_nat (length (spec_serialized_key (spec_components wire values))) < 2 ^ 63)%Z ->
  prop_token_ok p ncols wire values (ps_calculate_token p ncols wire values) = true.
Check C03_prop_pk_model :
  forall p values,
  (Z.of_nat (length (spec_serialized_key (map bound_bytes values))) < 2 ^ 63)%Z ->
  prop_pk_token_ok p values (token_for_partition_key p values) = true.
Print Assumptions C03_chunking.
Print Assumptions C03_cdc_chunking.
Print Assumptions C03_cdc.
Print Assumptions C03_feed.
Print Assumptions C03_hash_one.
Print Assumptions C03_token_range.
Print Assumptions C03_pk_order.
Print Assumptions C03_partition_key.
Print Assumptions C03_token.
Print Assumptions C03_too_long.
Print Assumptions C03_errors.
Print Assumptions C03_token_preserialized.
Print Assumptions C03_chunk_independent.
Print Assumptions C03_marker_order.
Print Assumptions C03_key_okb_sound.
Print Assumptions C03_prop_model.
Print Assumptions C03_prop_pk_model.
