(* Statement pins for C02: compiled on every check run against the built .vo files. *)
From SV Require Import Base.Prelude Model.Streams Proofs.Streams_proofs.
From SV Require Import Model.StreamsTrace Proofs.StreamsTrace_proofs.
Open Scope N_scope.
From SV Require Import Props.C02.

Check C02_bitmap_alloc :
  forall ws sid ws', wf_words ws -> sid_alloc ws = Some (sid, ws') ->
  sid < nids /\ used ws sid = false /\ (forall j, j < sid -> used ws j = true) /\
  (forall j, used ws' j = (j =? sid) || used ws j) /\ wf_words ws'.
Check C02_bitmap_full :
  forall ws, wf_words ws ->
  (sid_alloc ws = None <-> forall j, j < nids -> used ws j = true).
Check C02_bitmap_free :
  forall ws sid, wf_words ws -> sid < nids ->
  (forall j, used (sid_free ws sid) j = negb (j =? sid) && used ws j) /\
  wf_words (sid_free ws sid).
Check C02_trailing_ones :
  forall w, w < 2 ^ 64 -> w <> word_full ->
  trailing_ones w < 64 /\ N.testbit w (trailing_ones w) = false /\
  (forall i, i < trailing_ones w -> N.testbit w i = true).
Check C02_inv :
  forall s, reachable s ->
  let m := c_hm s in let p := pending s in
  wf_words (hm_words m) /\
  (forall sid, used (hm_words m) sid = true <-> In sid (sids p)) /\
  (forall sid, In sid (sids p) <->
     ((exists h, mget sid (hm_handlers m) = Some h) \/ smem sid (hm_orphans m) = true)) /\
  (forall sid h, mget sid (hm_handlers m) = Some h -> smem sid (hm_orphans m) = false) /\
  (forall sid rid tok, mget sid (hm_handlers m) = Some (rid, tok) ->
     tok = rid /\ mget rid (hm_r2s m) = Some sid /\ In (sid, rid) p) /\
  (forall rid sid, mget rid (hm_r2s m) = Some sid -> mget sid (hm_handlers m) = Some (rid, rid)) /\
  NoDup (sids p) /\ NoDup (rids p ++ c_queue s) /\
  (forall rid, In rid (rids p ++ c_queue s) -> rid < c_next_rid s).
Check C02_inv_step :
  forall s l s', Inv s -> step s l = Some s' -> Inv s'.
Check C02_no_reuse :
  forall s rid tok m' sid, reachable s ->
  hm_allocate (c_hm s) rid tok = (m', AllocOk sid) ->
  ~ In sid (sids (pending s)) /\ smem sid (hm_orphans (c_hm s)) = false /\ sid < nids.
Check C02_unique_streams :
  forall s, reachable s -> NoDup (sids (pending s)).
Check C02_delivery :
  forall s sid ans fl, reachable s -> c_inflight s = (sid, ans) :: fl ->
  (snd (hm_lookup (c_hm s) sid) = LHandler ans ans /\ ~ In ans (map fst (c_mailbox s))) \/
  (snd (hm_lookup (c_hm s) sid) = LOrphaned /\ In ans (c_cancelled s)).
Check C02_delivery_exact :
  forall s, reachable s ->
  NoDup (map fst (c_mailbox s)) /\
  (forall tok ans, In (tok, Resp ans) (c_mailbox s) -> ans = tok) /\
  (forall rid ans, In (rid, Resp ans) (c_completed s) -> ans = rid).
Check C02_late_orphan :
  forall s rid, reachable s ->
  In rid (map fst (c_mailbox s)) \/ In rid (c_queue s) \/ c_next_rid s <= rid ->
  hm_orphan (c_hm s) rid = c_hm s.
Check C02_exhaustion :
  forall s rid q, reachable s -> c_broken s = false ->
  c_queue s = rid :: q ->
  ((forall j, j < nids -> In j (sids (pending s))) <->
   step s WriterTake = Some (after_alloc_fail s rid q)).
Check C02_exhaustion_reachable :
  exists s, reachable s /\ c_broken s = false /\ forall j, j < nids -> In j (sids (pending s)).
Check C02_no_spurious_break :
  forall s l s', reachable s -> step s l = Some s' ->
  c_broken s' = true -> l = Break \/ c_broken s = true.
Check C02_unsolicited :
  forall s sid, reachable s -> ~ In sid (sids (pending s)) ->
  snd (hm_lookup (c_hm s) sid) = LMissing /\
  hm_handlers (fst (hm_lookup (c_hm s) sid)) = hm_handlers (c_hm s) /\
  hm_r2s (fst (hm_lookup (c_hm s) sid)) = hm_r2s (c_hm s) /\
  hm_orphans (fst (hm_lookup (c_hm s) sid)) = hm_orphans (c_hm s).
Check C02_sm_spec :
  forall ops, sm_applicable ops = true -> Forall op_in_range ops ->
  sm_check ops (snd (hm_run hm_new ops)) = true.
Check C02_timed_refines :
  forall ops t m, TRel t m ->
  TRel (fst (th_run t ops)) (fst (hm_run m (untimed ops))) /\
  untimed_res (snd (th_run t ops)) = snd (hm_run m (untimed ops)).
Check C02_clock_independent :
  forall a b, same_ops a b ->
  untimed_res (snd (th_run th_new a)) = untimed_res (snd (th_run th_new b)).
Check C02_timed_alloc_full :
  forall t rid tok, wf_words (th_words t) ->
  ((forall j, j < nids -> used (th_words t) j = true) <-> th_allocate t rid tok = (t, AllocFull)).
Check C02_old_count_le :
  forall o now age,
  ot_older_than o now age <= N.of_nat (List.length (ot_by o)).
Check C02_old_count_mono :
  forall o now now' age, now <= now' ->
  ot_older_than o now age <= ot_older_than o now' age.
Check C02_old_count_bracket :
  forall l1 l2 mn mn', mn <= mn' ->
  Forall2 (fun e1 e2 => snd e2 = snd e1 /\ fst e2 <= fst e1) l1 l2 ->
  (List.length (filter (is_old mn) l1) <= List.length (filter (is_old mn') l2))%nat.
Check C02_old_count_young :
  forall o now age,
  (forall e, In e (ot_by o) -> now - age < fst e) -> ot_older_than o now age = 0.
Check C02_trace_sound :
  forall ls s, run conn_init ls = Some s -> c_writing s = [] ->
  c02_trace_ok (obs_run conn_init ls) = true.
Check C02_trace_prefix :
  forall ls s, run conn_init ls = Some s ->
  exists a, acc_run acc_init (obs_run conn_init ls) = Some a.
Check C02_reader_exact :
  forall f rest, frame_wf f ->
  ConnFail.parse_frame (ConnFail.f_raw f ++ rest) = ConnFail.Got f rest.
Check C02_reader_frames :
  forall fs k rest, Forall frame_wf fs ->
  read_frames (List.length fs + k) (concat (map ConnFail.f_raw fs) ++ rest) =
  (fs ++ fst (read_frames k rest), snd (read_frames k rest)).
Print Assumptions C02_bitmap_alloc.
Print Assumptions C02_bitmap_full.
Print Assumptions C02_bitmap_free.
Print Assumptions C02_trailing_ones.
Print Assumptions C02_inv.
Print Assumptions C02_inv_step.
Print Assumptions C02_no_reuse.
Print Assumptions C02_unique_streams.
Print Assumptions C02_delivery.
Print Assumptions C02_delivery_exact.
Print Assumptions C02_late_orphan.
Print Assumptions C02_exhaustion.
Print Assumptions C02_exhaustion_reachable.
Print Assumptions C02_no_spurious_break.
Print Assumptions C02_unsolicited.
Print Assumptions C02_sm_spec.
Print Assumptions C02_timed_refines.
Print Assumptions C02_clock_independent.
Print Assumptions C02_timed_alloc_full.
Print Assumptions C02_old_count_le.
Print Assumptions C02_old_count_mono.
Print Assumptions C02_old_count_bracket.
Print Assumptions C02_old_count_young.
Print Assumptions C02_trace_sound.
Print Assumptions C02_trace_prefix.
Print Assumptions C02_reader_exact.
Print Assumptions C02_reader_frames.
