(* Statement pins for C13: compiled on every check run against the built .vo files. *)
From SV Require Import Base.Prelude Model.Spec Proofs.Spec_proofs.
Open Scope nat_scope.
From SV Require Import Props.C13.

Check C13_ignorable_table :
  forall r, can_be_ignored r = is_ignorable (Some r).
Check C13_bound :
  forall max ls s, run (init max) ls = Some s ->
  started s <= 1 + max /\ NoDup (running s) /\ (forall f, In f (running s) -> f < started s) /\
  List.length (completions ls) + List.length (running s) = started s /\
  (existsb is_exhausted (completions ls) = false -> started s + retries s = 1 + max).
Check C13_result :
  forall max ls s, run (init max) ls = Some s ->
  returned s = spec_returned max (started s) (completions ls).
Check C13_no_deadlock :
  forall max ls s, run (init max) ls = Some s -> returned s = None ->
  (running s = [] -> sleep s = Armed /\ retries s > 0) /\
  exists l s', step s l = Some s'.
Check C13_measure :
  forall s l s', step s l = Some s' -> measure s' < measure s.
Check C13_terminates :
  forall max ls s, run (init max) ls = Some s ->
  List.length ls <= 3 * max + 3.
Check C13_always_returns :
  forall max ls s, run (init max) ls = Some s ->
  (forall l, step s l = None) -> returned s <> None.
Check C13_can_return :
  forall max ls s, run (init max) ls = Some s ->
  exists ls' s' r, run s ls' = Some s' /\ returned s' = Some r.
Check C13_accept_sound :
  forall max interval fs o,
  accept max interval fs o = true -> PropObs max fs (o_starts o) (o_res o) (o_end o).
Check C13_prop_obs_spec :
  forall max fs sts r e,
  prop_obs max fs (mkObs sts r e) = true <-> PropObs max fs sts r e.
Check C13_accept_schedule :
  forall max interval fs o,
  accept max interval fs o = true ->
  exists ls s, run (init max) ls = Some s /\ returned s = Some (o_res o) /\
               started s = List.length (o_starts o).
Check C13_accept_complete :
  forall max interval fs oracle,
  exists o, timed_run (fuel_for max) oracle interval fs (tinit max interval) = Some o /\
            accept max interval fs o = true.
Check C13_gate_cases :
  forall c,
  gate c = None <->
  (is_idempotent c = false \/ metrics_and_policy c = None \/ metrics_and_policy c = Some None).
Check C13_gate :
  forall c pl bls b, gate c = None -> brun (binit c pl) bls = Some b ->
  started (core b) = 1 /\ (forall f, In f (running (core b)) -> f = 0) /\
  (forall d, In d (draws b) -> fst d = 0) /\
  List.length (in_flight b) <= 1 /\
  returned (core b) = spec_returned 0 1 (completions (proj bls)).
Check C13_gate_open :
  forall c pl bls b max, gate c = Some max -> brun (binit c pl) bls = Some b ->
  run (init max) (proj bls) = Some (core b) /\ List.length (in_flight b) <= 1 + max.
Check C13_plan_conservation :
  forall c pl bls b, brun (binit c pl) bls = Some b ->
  pl = rev (drawn (draws b)) ++ plan b.
Check C13_distinct_targets :
  forall c pl bls b, NoDup pl -> brun (binit c pl) bls = Some b ->
  NoDup (drawn (draws b)) /\
  (forall f1 f2 t, In (f1, Some t) (draws b) -> In (f2, Some t) (draws b) -> f1 = f2) /\
  NoDup (in_flight b).
Check C13_exhausted_sound :
  forall c pl bls b f b', brun (binit c pl) bls = Some b ->
  bstep b (BComplete f None) = Some b' -> plan b = [] /\ plan b' = [].
Check C13_probe_guided :
  forall c interval tg o,
  baccept_guided c interval tg o = baccept c interval tg o.
Check C13_probe_accept_sound :
  forall c interval tg o,
  baccept_guided c interval tg o = true -> prop_trace c tg o = true.
Check C13_probe_accept_schedule :
  forall c interval tg o,
  baccept_guided c interval tg o = true ->
  (exists bls b, brun (binit c (map fst tg)) bls = Some b /\ returned (core b) = Some (bo_res o) /\
                 begins (bo_events o) = rev (drawn (draws b))) /\
  is_prefix (begins (bo_events o)) (map fst tg) = true.
Check C13_probe_accept_complete :
  forall c interval tg oracle,
  exists o, btimed_run (bfuel c tg) oracle interval tg (btinit c interval tg) = Some o /\
            baccept_guided c interval tg o = true.
Check C13_e2e_gate_model :
  forall idem spec,
  E2EAttempts.gate_open idem spec = gate (mkConfig idem (Some spec)).
Check C13_e2e_gate :
  forall p idem spec cl0 nodes down cs assign frs ls t0 tret margin o co,
  E2ESpec.e2e_check13 p idem spec cl0 nodes down cs assign frs ls t0 tret margin o co = true ->
  (idem = false \/ spec = None) ->
  exists c, cs = [c] /\ E2EAttempts.check_single p idem cl0 nodes down c frs tret o co = true
            /\ forall t, List.length (E2EAttempts.in_flight t frs) <= 1.
Check C13_e2e_open :
  forall p idem spec cl0 nodes down cs assign frs ls t0 tret margin o co max,
  E2ESpec.e2e_check13 p idem spec cl0 nodes down cs assign frs ls t0 tret margin o co = true ->
  E2EAttempts.gate_open idem (option_map fst spec) = Some max ->
  exists interval, spec = Some (max, interval) /\
    E2ESpec.check_spec p idem cl0 nodes down max interval cs assign frs ls t0 tret margin o co = true.
Check C13_e2e_schedule :
  forall p idem cl0 nodes down max interval cs assign frs ls t0 tret margin o co,
  E2ESpec.check_spec p idem cl0 nodes down max interval cs assign frs ls t0 tret margin o co = true ->
  let e := E2ESpec.mk_env p idem cl0 nodes down interval cs assign frs t0 tret margin co in
  E2EAttempts.multi_ok p idem cl0 nodes down max cs assign frs = true
  /\ (forall t, List.length (E2EAttempts.in_flight t frs) <= 1 + max
                /\ NoDup (map E2EAttempts.f_node (E2EAttempts.in_flight t frs)))
  /\ E2ESpec.starts_ok e = true
  /\ exists s R,
       run (init max) ls = Some s
       /\ returned s = Some R
       /\ spec_returned max (started s) (completions ls) = Some R
       /\ E2ESpec.rres_match e R o = true
       /\ List.length cs <= started s <= 1 + max
       /\ (started s <= List.length cs \/ E2ESpec.e_exhausted e = true)
       /\ E2ESpec.leftovers_ok e s ls = true
       /\ E2ESpec.walk e (init max) ls [] = true.
Check C13_e2e_completions :
  forall e ls s seen, E2ESpec.walk e s ls seen = true ->
  forall pre g out post, ls = pre ++ Complete g out :: post ->
  E2ESpec.complete_ok e g out = true /\
  exists lo hi, E2ESpec.comp_window e g = Some (lo, hi)
    /\ (forall x, In x seen -> (x <= hi + E2ESpec.e_margin e)%N)
    /\ (forall f out2, In (Complete f out2) pre ->
          exists lo2 hi2, E2ESpec.comp_window e f = Some (lo2, hi2) /\ (lo2 <= hi + E2ESpec.e_margin e)%N).
Check C13_e2e_timer :
  forall e ls s seen, E2ESpec.walk e s ls seen = true ->
  forall pre post s1 s2, ls = pre ++ Timer :: post ->
  run s pre = Some s1 -> step s1 Timer = Some s2 -> started s1 < started s2 ->
  forall f out, In (Complete f out) pre ->
  exists lo hi, E2ESpec.comp_window e f = Some (lo, hi) /\ (lo <= E2ESpec.start_hi e (started s1))%N.
Check C13_e2e_in_flight :
  forall bound frs, E2EAttempts.overlap_ok bound frs = true ->
  forall t, List.length (E2EAttempts.in_flight t frs) <= bound
            /\ NoDup (map E2EAttempts.f_node (E2EAttempts.in_flight t frs)).
Check C13_e2e_prop_overlap :
  forall p idem spec cl0 nodes down cs assign frs ls t0 tret margin o co,
  E2ESpec.e2e_check13 p idem spec cl0 nodes down cs assign frs ls t0 tret margin o co = true ->
  E2ESpec.prop_overlap idem (option_map fst spec) frs = true.
Print Assumptions C13_ignorable_table.
Print Assumptions C13_bound.
Print Assumptions C13_result.
Print Assumptions C13_no_deadlock.
Print Assumptions C13_measure.
Print Assumptions C13_terminates.
Print Assumptions C13_always_returns.
Print Assumptions C13_can_return.
Print Assumptions C13_accept_sound.
Print Assumptions C13_prop_obs_spec.
Print Assumptions C13_accept_schedule.
Print Assumptions C13_accept_complete.
Print Assumptions C13_gate_cases.
Print Assumptions C13_gate.
Print Assumptions C13_gate_open.
Print Assumptions C13_plan_conservation.
Print Assumptions C13_distinct_targets.
Print Assumptions C13_exhausted_sound.
Print Assumptions C13_probe_guided.
Print Assumptions C13_probe_accept_sound.
Print Assumptions C13_probe_accept_schedule.
Print Assumptions C13_probe_accept_complete.
Print Assumptions C13_e2e_gate_model.
Print Assumptions C13_e2e_gate.
Print Assumptions C13_e2e_open.
Print Assumptions C13_e2e_schedule.
Print Assumptions C13_e2e_completions.
Print Assumptions C13_e2e_timer.
Print Assumptions C13_e2e_in_flight.
Print Assumptions C13_e2e_prop_overlap.
