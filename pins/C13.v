(* Statement pins for C13: compiled on every check run against the built .vo files. *)
From SV Require Import Base.Prelude Model.Spec Proofs.Spec_proofs.
Open Scope nat_scope.
From SV Require Import Props.C13.

Check C13_ignorable_table :
  forall r, can_be_ignored r = is_ignorable (Some r).
Check C13_bound :
  forall max ls s, run (init max) ls = Some s ->
  started s <= 1 + max /\ NoDup (running s) /\ (forall f, In f (running s) -> f < started s) /\
  List.length (completions ls) + List.length (running s) = started s /\
  (existsb is_exhausted (completions ls) = false -> started s + retries s = 1 + max).
Check C13_result :
  forall max ls s, run (init max) ls = Some s ->
  returned s = spec_returned max (started s) (completions ls).
Check C13_no_deadlock :
  forall max ls s, run (init max) ls = Some s -> returned s = None ->
  (running s = [] -> sleep s = Armed /\ retries s > 0) /\
  exists l s', step s l = Some s'.
Check C13_measure :
  forall s l s', step s l = Some s' -> measure s' < measure s.
Check C13_terminates :
  forall max ls s, run (init max) ls = Some s ->
  List.length ls <= 3 * max + 3.
Check C13_always_returns :
  forall max ls s, run (init max) ls = Some s ->
  (forall l, step s l = None) -> returned s <> None.
Check C13_can_return :
  forall max ls s, run (init max) ls = Some s ->
  exists ls' s' r, run s ls' = Some s' /\ returned s' = Some r.
Print Assumptions C13_ignorable_table.
Print Assumptions C13_bound.
Print Assumptions C13_result.
Print Assumptions C13_no_deadlock.
Print Assumptions C13_measure.
Print Assumptions C13_terminates.
Print Assumptions C13_always_returns.
Print Assumptions C13_can_return.
