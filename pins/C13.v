(* Statement pins for C13: compiled on every check run against the built .vo files. *)
From SV Require Import Base.Prelude Model.Spec Proofs.Spec_proofs.
Open Scope nat_scope.
From SV Require Import Props.C13.

Check C13_ignorable_table :
  forall r, can_be_ignored r = is_ignorable (Some r).
Check C13_bound :
  forall max ls s, run (init max) ls = Some s ->
  started s <= 1 + max /\ NoDup (running s) /\ (forall f, In f (running s) -> f < started s) /\
  List.length (completions ls) + List.length (running s) = started s /\
  (existsb is_exhausted (completions ls) = false -> started s + retries s = 1 + max).
Check C13_result :
  forall max ls s, run (init max) ls = Some s ->
  returned s = spec_returned max (started s) (completions ls).
Check C13_no_deadlock :
  forall max ls s, run (init max) ls = Some s -> returned s = None ->
  (running s = [] -> sleep s = Armed /\ retries s > 0) /\
  exists l s', step s l = Some s'.
Check C13_measure :
  forall s l s', step s l = Some s' -> measure s' < measure s.
Check C13_terminates :
  forall max ls s, run (init max) ls = Some s ->
  List.length ls <= 3 * max + 3.
Check C13_always_returns :
  forall max ls s, run (init max) ls = Some s ->
  (forall l, step s l = None) -> returned s <> None.
Check C13_can_return :
  forall max ls s, run (init max) ls = Some s ->
  exists ls' s' r, run s ls' = Some s' /\ returned s' = Some r.
Check C13_accept_sound :
  forall max interval fs o,
  accept max interval fs o = true -> PropObs max fs (o_starts o) (o_res o) (o_end o).
Check C13_prop_obs_spec :
  forall max fs sts r e,
  prop_obs max fs (mkObs sts r e) = true <-> PropObs max fs sts r e.
Check C13_accept_schedule :
  forall max interval fs o,
  accept max interval fs o = true ->
  exists ls s, run (init max) ls = Some s /\ returned s = Some (o_res o) /\
               started s = List.length (o_starts o).
Check C13_accept_complete :
  forall max interval fs oracle,
  exists o, timed_run (fuel_for max) oracle interval fs (tinit max interval) = Some o /\
            accept max interval fs o = true.
Check C13_gate_cases :
  forall c,
  gate c = None <->
  (is_idempotent c = false \/ metrics_and_policy c = None \/ metrics_and_policy c = Some None).
Check C13_gate :
  forall c pl bls b, gate c = None -> brun (binit c pl) bls = Some b ->
  started (core b) = 1 /\ (forall f, In f (running (core b)) -> f = 0) /\
  (forall d, In d (draws b) -> fst d = 0) /\
  List.length (in_flight b) <= 1 /\
  returned (core b) = spec_returned 0 1 (completions (proj bls)).
Check C13_gate_open :
  forall c pl bls b max, gate c = Some max -> brun (binit c pl) bls = Some b ->
  run (init max) (proj bls) = Some (core b) /\ List.length (in_flight b) <= 1 + max.
Check C13_plan_conservation :
  forall c pl bls b, brun (binit c pl) bls = Some b ->
  pl = rev (drawn (draws b)) ++ plan b.
Check C13_distinct_targets :
  forall c pl bls b, NoDup pl -> brun (binit c pl) bls = Some b ->
  NoDup (drawn (draws b)) /\
  (forall f1 f2 t, In (f1, Some t) (draws b) -> In (f2, Some t) (draws b) -> f1 = f2) /\
  NoDup (in_flight b).
Check C13_exhausted_sound :
  forall c pl bls b f b', brun (binit c pl) bls = Some b ->
  bstep b (BComplete f None) = Some b' -> plan b = [] /\ plan b' = [].
Check C13_probe_guided :
  forall c interval tg o,
  baccept_guided c interval tg o = baccept c interval tg o.
Check C13_probe_accept_sound :
  forall c interval tg o,
  baccept_guided c interval tg o = true -> prop_trace c tg o = true.
Check C13_probe_accept_schedule :
  forall c interval tg o,
  baccept_guided c interval tg o = true ->
  (exists bls b, brun (binit c (map fst tg)) bls = Some b /\ returned (core b) = Some (bo_res o) /\
                 begins (bo_events o) = rev (drawn (draws b))) /\
  is_prefix (begins (bo_events o)) (map fst tg) = true.
Check C13_probe_accept_complete :
  forall c interval tg oracle,
  exists o, btimed_run (bfuel c tg) oracle interval tg (btinit c interval tg) = Some o /\
            baccept_guided c interval tg o = true.
Print Assumptions C13_ignorable_table.
Print Assumptions C13_bound.
Print Assumptions C13_result.
Print Assumptions C13_no_deadlock.
Print Assumptions C13_measure.
Print Assumptions C13_terminates.
Print Assumptions C13_always_returns.
Print Assumptions C13_can_return.
Print Assumptions C13_accept_sound.
Print Assumptions C13_prop_obs_spec.
Print Assumptions C13_accept_schedule.
Print Assumptions C13_accept_complete.
Print Assumptions C13_gate_cases.
Print Assumptions C13_gate.
Print Assumptions C13_gate_open.
Print Assumptions C13_plan_conservation.
Print Assumptions C13_distinct_targets.
Print Assumptions C13_exhausted_sound.
Print Assumptions C13_probe_guided.
Print Assumptions C13_probe_accept_sound.
Print Assumptions C13_probe_accept_schedule.
Print Assumptions C13_probe_accept_complete.
