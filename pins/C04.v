(* Statement pins for C04: compiled on every check run against the built .vo files. *)
From SV Require Import Base.Prelude Model.Ring Model.Replicas Proofs.Ring_proofs Proofs.Replicas_proofs.
From Coq Require Import Permutation.
Open Scope Z_scope.
From SV Require Import Props.C04.

Check C04_ring :
  forall (raw : ring N),
  sorted_weak (sort_ring raw) /\ Permutation (sort_ring raw) raw /\
  (NoDup (map fst raw) -> sorted_strict (sort_ring raw)).
Check C04_ring_range :
  forall (g : ring N) t,
  sorted_weak g -> ring_range_full g t = clockwise g t.
Check C04_simple :
  forall (g : ring N) t rf,
  sorted_weak g -> simple_replicas g t rf = spec_simple g t rf.
Check C04_nts :
  forall dcf rackf (g : ring N) t d rf,
  sorted_weak g -> nts_replicas dcf rackf g t d rf = spec_nts_dc dcf rackf g t d rf.
Check C04_replicas :
  forall dcf rackf (g : ring N) pre t s dc,
  sorted_weak g ->
  rs_iter dcf rackf g pre t (replicas_for dcf rackf g pre t s dc) = spec_replicas dcf rackf g t s dc.
Check C04_replicas_any_ring :
  forall dcf rackf (raw : ring N) pre t s dc,
  rs_iter dcf rackf (sort_ring raw) pre t (replicas_for dcf rackf (sort_ring raw) pre t s dc) =
  spec_replicas dcf rackf (sort_ring raw) t s dc.
Check C04_prefix_simple :
  forall (g : ring N) t rf m,
  (rf <= m)%nat -> simple_replicas g t rf = firstn rf (simple_replicas g t m).
Check C04_prefix_nts :
  forall dcf rackf (g : ring N) t d rf m,
  (rf <= m)%nat -> (m <= rack_count rackf (dc_ring dcf g d))%nat ->
  nts_replicas dcf rackf g t d rf = firstn rf (nts_replicas dcf rackf g t d m).
Check C04_token_snap :
  forall dcf rackf (g : ring N) t d rf e,
  (sorted_weak g -> get_entry_for_token g t = Some e ->
     simple_replicas g (fst e) rf = simple_replicas g t rf) /\
  (get_entry_for_token (dc_ring dcf g d) t = Some e ->
     nts_replicas dcf rackf g (fst e) d rf = nts_replicas dcf rackf g t d rf).
Check C04_precomputed :
  forall dcf rackf (g : ring N) pre t d rf,
  (sorted_weak g -> get_simple g pre t rf = simple_replicas g t rf) /\
  get_nts dcf rackf g pre t d rf = nts_replicas dcf rackf g t d rf.
Check C04_precomputed_rings :
  forall dcf rackf (g : ring N) pre t d m,
  (sorted_weak g ->
     get_elem_for_token (pre_ring_simple g pre) t =
     pre_lookup g (fun tk => simple_replicas g tk (max_global_rf pre)) t) /\
  get_elem_for_token (pre_ring_nts dcf rackf g d m) t =
  pre_lookup (dc_ring dcf g d) (fun tk => nts_replicas dcf rackf g tk d m) t.
Check C04_precomputed_any :
  forall dcf rackf (g : ring N) pre pre' t s dc,
  sorted_weak g ->
  rs_iter dcf rackf g pre t (replicas_for dcf rackf g pre t s dc) =
  rs_iter dcf rackf g pre' t (replicas_for dcf rackf g pre' t s dc).
Check C04_dc_filter :
  forall dcf rackf (g : ring N) pre t s d,
  rs_iter dcf rackf g pre t (replicas_for dcf rackf g pre t s (Some d)) =
  filter (in_dc dcf d) (rs_iter dcf rackf g pre t (replicas_for dcf rackf g pre t s None)).
Check C04_nts_len :
  forall dcf rackf (g : ring N) t d rf,
  List.length (nts_replicas dcf rackf g t d rf) = Nat.min rf (nodes_in_dc dcf g d).
Check C04_nts_sat :
  forall dcf rackf (g : ring N) t d rf,
  nts_replicas dcf rackf g t d (Nat.min rf (nodes_in_dc dcf g d)) = nts_replicas dcf rackf g t d rf.
Check C04_views_len :
  forall dcf rackf (g : ring N) pre t s dc,
  nts_keys_ok s ->
  rs_len dcf g (replicas_for dcf rackf g pre t s dc) =
  List.length (rs_iter dcf rackf g pre t (replicas_for dcf rackf g pre t s dc)).
Check C04_views_nth :
  forall dcf rackf (g : ring N) pre t s k,
  rs_nth dcf rackf g pre t s k = nth_error (rs_iter dcf rackf g pre t s) k.
Check C04_views_choose :
  forall dcf rackf (g : ring N) pre t s dc index,
  nts_keys_ok s ->
  rs_choose dcf rackf g pre t (replicas_for dcf rackf g pre t s dc) index =
  nth_error (rs_iter dcf rackf g pre t (replicas_for dcf rackf g pre t s dc)) index.
Check C04_views_nodup :
  forall dcf rackf (g : ring N) pre t,
  sorted_weak g -> forall s dc, NoDup (rs_iter dcf rackf g pre t (replicas_for dcf rackf g pre t s dc)).
Check C04_views_ordered :
  forall dcf rackf (g : ring N) pre t,
  sorted_weak g -> forall s dc, nts_keys_ok s ->
  rs_ordered dcf rackf g pre t (replicas_for dcf rackf g pre t s dc) =
  (filter (fun x => mem x (rs_iter dcf rackf g pre t (replicas_for dcf rackf g pre t s dc)))
          (uniq (ring_range g t)), []).
Check C04_views_ordered_perm :
  forall dcf rackf (g : ring N) pre t,
  sorted_weak g -> forall s dc, nts_keys_ok s ->
  Permutation (fst (rs_ordered dcf rackf g pre t (replicas_for dcf rackf g pre t s dc)))
              (rs_iter dcf rackf g pre t (replicas_for dcf rackf g pre t s dc)).
Print Assumptions C04_ring.
Print Assumptions C04_ring_range.
Print Assumptions C04_simple.
Print Assumptions C04_nts.
Print Assumptions C04_replicas.
Print Assumptions C04_replicas_any_ring.
Print Assumptions C04_prefix_simple.
Print Assumptions C04_prefix_nts.
Print Assumptions C04_token_snap.
Print Assumptions C04_precomputed.
Print Assumptions C04_precomputed_rings.
Print Assumptions C04_precomputed_any.
Print Assumptions C04_dc_filter.
Print Assumptions C04_nts_len.
Print Assumptions C04_nts_sat.
Print Assumptions C04_views_len.
Print Assumptions C04_views_nth.
Print Assumptions C04_views_choose.
Print Assumptions C04_views_nodup.
Print Assumptions C04_views_ordered.
Print Assumptions C04_views_ordered_perm.
