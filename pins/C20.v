(* Statement pins for C20: compiled on every check run against the built .vo files. *)
From SV Require Import Base.Prelude Model.Keyspace Proofs.Keyspace_proofs.
Open Scope N_scope.
From SV Require Import Props.C20.

Check C20_name :
  forall s, verify_name s = Ok tt <-> valid_name s.
Check C20_name_err :
  forall s e,
  verify_name s = Err e <->
  match e with
  | NEmpty => s = []
  | NTooLong n => n = N.of_nat (List.length s) /\ (48 < List.length s)%nat
  | NIllegal c => (1 <= List.length s <= 48)%nat /\
                  exists a b, s = a ++ c :: b /\ Forall (fun x => In x alphabet) a /\ ~ In c alphabet
  end.
Check C20_statement :
  forall k, valid_name (fst k) ->
  parse_use (use_statement k) = Some k /\
  forall c, In c (use_statement k) -> In c alphabet \/ c = 32 \/ c = dquote.
Check C20_verify_result :
  forall k r,
  verify_result k r = VOk <-> exists n, r = RSetKeyspace n /\ map to_lower n = map to_lower (fst k).
Check C20_verify_honest :
  forall k, verify_result k (RSetKeyspace (canon k)) = VOk.
Check C20_aggregate_ok :
  forall l,
  use_keyspace_result l = AOk <->
  (existsb is_ok l = true /\ forallb (fun x => negb (is_err x)) l = true).
Check C20_aggregate_err :
  forall l t,
  use_keyspace_result l = AErr t <->
  exists l1 l2, l = l1 ++ CErr t :: l2 /\ forallb (fun x => negb (is_err x)) l1 = true.
Check C20_aggregate_panic :
  forall l, use_keyspace_result l = APanic <-> l = [].
Print Assumptions C20_name.
Print Assumptions C20_name_err.
Print Assumptions C20_statement.
Print Assumptions C20_verify_result.
Print Assumptions C20_verify_honest.
Print Assumptions C20_aggregate_ok.
Print Assumptions C20_aggregate_err.
Print Assumptions C20_aggregate_panic.
