(* Statement pins for C20: compiled on every check run against the built .vo files. *)
From SV Require Import Base.Prelude Model.Keyspace Proofs.Keyspace_proofs.
Open Scope nat_scope.
From SV Require Import Props.C20.

Check C20_name :
  forall s, verify_name s = Ok tt <-> valid_name s.
Check C20_name_err :
  forall s e,
  verify_name s = Err e <->
  match e with
  | NEmpty => s = []
  | NTooLong n => n = N.of_nat (List.length s) /\ (48 < List.length s)%nat
  | NIllegal c => (1 <= List.length s <= 48)%nat /\
                  exists a b, s = a ++ c :: b /\ Forall (fun x => In x alphabet) a /\ ~ In c alphabet
  end.
Check C20_statement :
  forall k, valid_name (fst k) ->
  parse_use (use_statement k) = Some k /\
  forall c, In c (use_statement k) -> In c alphabet \/ c = 32%N \/ c = dquote.
Check C20_verify_result :
  forall k r,
  verify_result k r = VOk <-> exists n, r = RSetKeyspace n /\ map to_lower n = map to_lower (fst k).
Check C20_verify_honest :
  forall k, verify_result k (RSetKeyspace (canon k)) = VOk.
Check C20_aggregate_ok :
  forall l,
  use_keyspace_result l = AOk <->
  (existsb is_ok l = true /\ forallb (fun x => negb (is_err x)) l = true).
Check C20_aggregate_err :
  forall l t,
  use_keyspace_result l = AErr t <->
  exists l1 l2, l = l1 ++ CErr t :: l2 /\ forallb (fun x => negb (is_err x)) l1 = true.
Check C20_aggregate_ok_each :
  forall l,
  use_keyspace_result l = AOk -> forall x, In x l -> x = COk \/ exists t, x = CBroken t.
Check C20_pool_answer_err :
  forall r,
  answer_of r = PAErr <-> exists c, In c (cov r) /\ is_err (outcome (stat r c)) = true.
Check C20_aggregate_panic :
  forall l, use_keyspace_result l = APanic <-> l = [].
Check C20_inv :
  forall k0 s k c,
  reachable k0 s -> cur s = Some k -> ph s c = InPool -> alive s c = true ->
  In k (told s c) \/
  (exists r u, cur_uid s = Some u /\ In r (pending s) /\ uid r = u /\ uks r = k /\
               In c (cov r) /\ stat r c = NotSent) \/
  (exists u, cur_uid s = Some u /\ In (u, PAErr) (log s)).
Check C20_setup_first :
  forall k0 s k c,
  reachable k0 s -> ph s c = Setting k -> In k (told s c).
Check C20_after_success :
  forall k0 ls1 s1 raw cs s2 ls2 s3 a c,
  run (init k0) ls1 = Some s1 -> pending s1 = [] ->
  valid_name raw -> step s1 (UseKeyspace raw cs) = Some s2 ->
  no_use ls2 = true -> run s2 ls2 = Some s3 ->
  In (unext s1, a) (log s3) -> a <> PAErr ->
  ph s3 c = InPool -> alive s3 c = true ->
  wire s3 c = [] /\ matchesb s3 c (raw, cs) = true.
Check C20_fresh_pool :
  forall k ls s c,
  no_use ls = true -> run (init (Some k)) ls = Some s ->
  ph s c = InPool -> alive s c = true ->
  wire s c = [] /\ matchesb s c k = true.
Check C20_name_rejected :
  forall s raw cs, ~ valid_name raw -> step s (UseKeyspace raw cs) = Some s.
Check C20_only_valid_names_sent :
  forall k0 s k c,
  (forall k, k0 = Some k -> valid_name (fst k)) -> reachable k0 s ->
  In k (told s c) -> valid_name (fst k) /\ parse_use (use_statement k) = Some k.
Check C20_new_nodes :
  forall n0 ls k,
  used (wrun (winit n0) ls) = Some k ->
  exists pre u t, fans (wrun (winit n0) ls) = pre ++ [(u, k, t)] /\
    forall n, In n (nodes (wrun (winit n0) ls)) -> In n t \/ born (wrun (winit n0) ls) n = Some k.
Check C20_accept_sound :
  forall k0 t1 u k t2 t3 q t4 x t5,
  accept_trace k0 (t1 ++ ECall u k :: t2 ++ ERet u true :: t3 ++ EStart q :: t4 ++ EFrame q x :: t5) = true ->
  pending_calls t1 [] = [] ->
  no_call t2 = true -> no_call t3 = true -> no_call t4 = true ->
  forallb (fun e => negb (starts q e)) t4 = true ->
  x = Some (canon k).
Print Assumptions C20_name.
Print Assumptions C20_name_err.
Print Assumptions C20_statement.
Print Assumptions C20_verify_result.
Print Assumptions C20_verify_honest.
Print Assumptions C20_aggregate_ok.
Print Assumptions C20_aggregate_err.
Print Assumptions C20_aggregate_ok_each.
Print Assumptions C20_pool_answer_err.
Print Assumptions C20_aggregate_panic.
Print Assumptions C20_inv.
Print Assumptions C20_setup_first.
Print Assumptions C20_after_success.
Print Assumptions C20_fresh_pool.
Print Assumptions C20_name_rejected.
Print Assumptions C20_only_valid_names_sent.
Print Assumptions C20_new_nodes.
Print Assumptions C20_accept_sound.
