(* Statement pins for C11: compiled on every check run against the built .vo files. *)
From SV Require Import Base.Prelude Model.Shard Proofs.Shard_proofs.
From Coq Require Import Permutation String.
Open Scope N_scope.
From SV Require Import Props.C11.

Check C11_shard_spec :
  forall n msb t, shard_of n msb t = spec_shard_of n msb t.
Check C11_shard_lt :
  forall n msb t, 0 < n -> shard_of n msb t < n.
Check C11_shard_mono :
  forall n t t', (- 2 ^ 63 <= t <= t')%Z -> (t' < 2 ^ 63)%Z ->
  shard_of n 0 t <= shard_of n 0 t'.
Check C11_ports :
  forall n s lo hi, 0 < n -> s < n -> lo <= hi -> hi <= u16_max ->
  ports_for_shard n s lo hi = spec_ports n s lo hi.
Check C11_iter :
  forall n s lo hi pivot, 0 < n -> s < n -> lo <= hi -> hi <= u16_max ->
  Permutation (iter_ports n s lo hi pivot) (spec_ports n s lo hi) /\
  NoDup (iter_ports n s lo hi pivot).
Check C11_iter_In :
  forall n s lo hi pivot p, 0 < n -> s < n -> lo <= hi -> hi <= u16_max ->
  In p (iter_ports n s lo hi pivot) <-> (lo <= p <= hi /\ p mod n = s).
Check C11_draw :
  forall n s lo hi idx p, 0 < n -> s < n -> lo <= hi -> hi <= u16_max ->
  draw_port n s lo hi idx = Some p -> lo <= p <= hi /\ p mod n = s.
Check C11_empty_iff :
  forall n s lo hi, 0 < n -> s < n -> lo <= hi -> hi <= u16_max ->
  ports_for_shard n s lo hi = [] <-> (forall p, lo <= p <= hi -> p mod n <> s).
Check C11_draw_none_iff :
  forall n s lo hi, 0 < n -> s < n -> lo <= hi -> hi <= u16_max ->
  (forall idx, draw_port n s lo hi idx = None) <-> (forall p, lo <= p <= hi -> p mod n <> s).
Check C11_accept_iter_sound :
  forall n s lo hi obs,
  0 < n -> s < n -> lo <= hi -> hi <= u16_max ->
  accept_iter n s lo hi obs = true -> Permutation obs (spec_ports n s lo hi) /\ NoDup obs.
Check C11_accept_iter_complete :
  forall n s lo hi pivot,
  0 < n -> s < n -> lo <= hi -> hi <= u16_max ->
  (pivot < Nat.max 1 (List.length (ports_for_shard n s lo hi)))%nat ->
  accept_iter n s lo hi (iter_ports n s lo hi pivot) = true.
Check C11_accept_draw_sound :
  forall n s lo hi obs,
  0 < n -> s < n -> lo <= hi -> hi <= u16_max ->
  accept_draw n s lo hi obs = true ->
  match obs with
  | Some p => lo <= p <= hi /\ p mod n = s
  | None => forall p, lo <= p <= hi -> p mod n <> s
  end.
Check C11_parse_ok :
  forall se ne me shard nr msb,
  parse_shard_info se ne me = Ok (shard, nr, msb) -> shard < nr /\ nr <> 0.
Check C11_parse_rejects :
  forall s n m rs rn rm shard nr,
  parse_unsigned 65535 s = Some shard -> parse_unsigned 65535 n = Some nr ->
  (nr = 0 \/ nr <= shard) ->
  exists e, parse_shard_info (Some (s :: rs)) (Some (n :: rn)) (Some (m :: rm)) = Err e.
Print Assumptions C11_shard_spec.
Print Assumptions C11_shard_lt.
Print Assumptions C11_shard_mono.
Print Assumptions C11_ports.
Print Assumptions C11_iter.
Print Assumptions C11_iter_In.
Print Assumptions C11_draw.
Print Assumptions C11_empty_iff.
Print Assumptions C11_draw_none_iff.
Print Assumptions C11_accept_iter_sound.
Print Assumptions C11_accept_iter_complete.
Print Assumptions C11_accept_draw_sound.
Print Assumptions C11_parse_ok.
Print Assumptions C11_parse_rejects.
