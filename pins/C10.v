(* Statement pins for C10: compiled on every check run against the built .vo files. *)
From SV Require Import Base.Prelude Base.Bytes Model.ConnFail Proofs.ConnFail_proofs.
Open Scope N_scope.
From SV Require Import Props.C10.

Check C10_all_fail :
  forall ctl ls1 l ls2 st1 st2 st3 e e',
  run (conn_init ctl) ls1 = Some st1 ->
  step st1 l = Some st2 -> c_status st2 = TearingDown e ->
  run st2 ls2 = Some st3 -> c_status st3 = Broken e' ->
  e' = e /\
  (forall r, In r (pending_rids st2) ->
     exists o, outcome_of r (c_done st3) = Some o /\ broken_class o = true) /\
  (forall r o, outcome_of r (c_done st3) = Some o -> In (r, o) (c_done st2) \/ broken_class o = true).
Check C10_accounting :
  forall ctl st, reachable ctl st ->
  Acct (pending_rids st) (c_done st) (c_submitted st) (c_cancelled st).
Check C10_none_left :
  forall ctl st e r,
  reachable ctl st -> c_status st = Broken e -> In r (c_submitted st) ->
  (exists o, outcome_of r (c_done st) = Some o) \/ In r (c_cancelled st).
Check C10_later_submit_fails :
  forall ctl st r st',
  reachable ctl st -> chan_closed st = true -> step st (Reserve r) = Some st' ->
  outcome_of r (c_done st') = Some FailChannel /\ pending_rids st' = pending_rids st.
Check C10_submit_during_teardown :
  forall ctl st e r st',
  reachable ctl st -> c_status st = TearingDown e -> step st (Reserve r) = Some st' ->
  c_status st' = TearingDown e /\ In r (pending_rids st').
Check C10_teardown_progress :
  forall ctl st e, reachable ctl st ->
  c_status st = TearingDown e \/ c_status st = Draining e ->
  exists st', td_next st = Some st' /\ (td_measure st' < td_measure st)%nat /\
    (c_status st' = TearingDown e \/ c_status st' = Draining e \/
     (c_status st' = Broken e /\ pending_rids st' = [] /\ c_err_sent st' = true)).
Check C10_draining_monotone :
  forall st l st' e,
  c_status st = Draining e -> step st l = Some st' -> (td_measure st' <= td_measure st)%nat.
Check C10_teardown_terminates :
  forall ctl n st e, reachable ctl st ->
  c_status st = TearingDown e \/ c_status st = Draining e -> (td_measure st <= n)%nat ->
  c_status (teardown n st) = Broken e /\ pending_rids (teardown n st) = [] /\
  c_err_sent (teardown n st) = true.
Check C10_teardown_is_a_run :
  forall fuel st, exists ls, run st ls = Some (teardown fuel st) /\
  Forall (fun l => l = TdStep \/ exists r, l = Push r) ls /\ (List.length ls <= fuel)%nat.
Check C10_cut_anywhere :
  forall st bs, c_status st = Open ->
  exists st1, step st (Recv bs) = Some st1 /\
    (c_status st1 <> Open \/
     exists st2 e, step st1 Eof = Some st2 /\ c_status st2 = TearingDown e /\ (e = EHeaderIo \/ e = EClosedInBody)).
Check C10_fault_completes_all :
  forall ctl ls l st st2 e,
  run (conn_init ctl) ls = Some st -> step st l = Some st2 -> c_status st2 = TearingDown e ->
  exists fin st3, run st2 fin = Some st3 /\ Forall (fun l => l = TdStep \/ exists r, l = Push r) fin /\
    (List.length fin <= td_measure st2)%nat /\
    c_status st3 = Broken e /\ c_err_sent st3 = true /\
    forall r, In r (c_submitted st2) ->
      (exists o, outcome_of r (c_done st3) = Some o) \/ In r (c_cancelled st3).
Check C10_pre_fix_router_strands :
  exists st r, reachable false st /\ c_status st = Open /\ c_reserved st = [r] /\
    let st1 := old_finish EHeaderIo st in
    c_status st1 = Broken EHeaderIo /\ c_err_sent st1 = true /\
    exists st2, step st1 (Push r) = Some st2 /\
      forall ls st3, run st2 ls = Some st3 -> In r (c_queue st3) /\ outcome_of r (c_done st3) = None.
Check C10_post_fix_router_completes :
  match run (conn_init false) [Reserve 1; Push 1; WriterTake (Some 0); Reserve 2; Eof; TdStep; TdStep] with
  | Some st => c_status st = Draining EHeaderIo /\ step st TdStep = None /\
      match run st [Push 2; TdStep; TdStep] with
      | Some st' => c_status st' = Broken EHeaderIo /\ outcome_of 2 (c_done st') = Some (FailBroken EHeaderIo) /\
                    outcome_of 1 (c_done st') = Some (FailBroken EHeaderIo)
      | None => False
      end
  | None => False
  end.
Check C10_no_partial :
  forall ctl st r f,
  reachable ctl st -> In (r, Resp f) (c_done st) ->
  frame_ok f /\ exists pre post, c_received st = pre ++ f_raw f ++ post.
Check C10_no_cross :
  forall ctl st r f,
  reachable ctl st -> In (r, Resp f) (c_done st) -> In (f_stream f, r) (c_written st).
Check C10_unique :
  forall ctl st, reachable ctl st ->
  NoDup (map fst (c_handlers st)) /\ NoDup (pending_rids st) /\ NoDup (map fst (c_done st)) /\
  (forall s r, In (s, r) (c_handlers st) -> In (s, r) (c_written st)).
Check C10_reader_complete :
  forall fuel st, (List.length (c_rbuf st) < fuel)%nat ->
  is_open (drain fuel st) = true -> parse_frame (c_rbuf (drain fuel st)) = NeedMore.
Check C10_parse_got :
  forall buf f rest, parse_frame buf = Got f rest ->
  buf = f_raw f ++ rest /\ List.length (f_hdr f) = 9%nat /\ N.of_nat (List.length (f_body f)) = f_len f /\
  N.land (f_version f) 128 = 128 /\ N.land (f_version f) 127 = 4 /\ valid_opcode (f_opcode f) = true.
Check C10_pool :
  forall ls p c,
  prun pool_init ls = Some p -> In c (p_shared p) -> In c (p_broken p) -> In c (p_events p).
Check C10_pool_never_again :
  forall ls1 ls2 p1 p2 c,
  prun pool_init ls1 = Some p1 -> In c (p_broken p1) -> ~ In c (p_events p1) ->
  prun p1 ls2 = Some p2 -> ~ In c (p_shared p2).
Check C10_simulate_reachable :
  forall keep t, reachable false (simulate keep t).
Check C10_simulate_settled :
  forall keep t,
  c_status (simulate keep t) = Open \/
  exists e, c_status (simulate keep t) = Broken e /\ pending_rids (simulate keep t) = [].
Print Assumptions C10_all_fail.
Print Assumptions C10_accounting.
Print Assumptions C10_none_left.
Print Assumptions C10_later_submit_fails.
Print Assumptions C10_submit_during_teardown.
Print Assumptions C10_teardown_progress.
Print Assumptions C10_draining_monotone.
Print Assumptions C10_teardown_terminates.
Print Assumptions C10_teardown_is_a_run.
Print Assumptions C10_cut_anywhere.
Print Assumptions C10_fault_completes_all.
Print Assumptions C10_pre_fix_router_strands.
Print Assumptions C10_post_fix_router_completes.
Print Assumptions C10_no_partial.
Print Assumptions C10_no_cross.
Print Assumptions C10_unique.
Print Assumptions C10_reader_complete.
Print Assumptions C10_parse_got.
Print Assumptions C10_pool.
Print Assumptions C10_pool_never_again.
Print Assumptions C10_simulate_reachable.
Print Assumptions C10_simulate_settled.
