(* Statement pins for C18: compiled on every check run against the built .vo files. *)
From SV Require Import Base.Prelude Model.Sched Model.Timestamp Proofs.Timestamp_proofs.
From Coq Require Import Sorting.Sorted Permutation.
Open Scope Z_scope.
From SV Require Import Props.C18.

Check C18_inv :
  forall B N M ls s,
  (0 <= B /\ B + Z.of_nat (N * M) < i64_max /\ sched_ok B ls = true) ->
  run step (init N M) ls = Some s ->
  (forall v, In v (handed_out s) -> 0 < v <= last s) /\
  (handed_out s <> [] -> In (last s) (handed_out s)) /\
  (handed_out s = [] -> last s = 0) /\
  Permutation (handed_out s) (chain s) /\ StronglySorted Z.gt (chain s).
Check C18_cas_step :
  forall B N M ls s t s',
  (0 <= B /\ B + Z.of_nat (N * M) < i64_max /\ sched_ok B ls = true) ->
  run step (init N M) ls = Some s -> step s (Cas t) = Some s' ->
  (last s' = last s /\ chain s' = chain s /\ handed_out s' = handed_out s) \/
  (last s < last s' /\ chain s' = last s' :: chain s /\
   exists th, nth_error (threads s') t = Some th /\ hd_error (t_out th) = Some (last s')).
Check C18_distinct :
  forall B N M ls s,
  (0 <= B /\ B + Z.of_nat (N * M) < i64_max /\ sched_ok B ls = true) ->
  run step (init N M) ls = Some s -> NoDup (handed_out s).
Check C18_thread_mono :
  forall B N M ls s th,
  (0 <= B /\ B + Z.of_nat (N * M) < i64_max /\ sched_ok B ls = true) ->
  run step (init N M) ls = Some s -> In th (threads s) -> StronglySorted Z.lt (rev (t_out th)).
Check C18_call_order :
  forall B N M ls1 ls2 s1 s2 t th1 th2,
  (0 <= B /\ B + Z.of_nat (N * M) < i64_max /\ sched_ok B (ls1 ++ ls2) = true) ->
  run step (init N M) ls1 = Some s1 -> nth_error (threads s1) t = Some th1 -> t_pc th1 = Idle ->
  run step s1 ls2 = Some s2 -> nth_error (threads s2) t = Some th2 ->
  exists newer, t_out th2 = newer ++ t_out th1 /\ Forall (fun v => last s1 < v) newer /\
                (forall v, In v (handed_out s1) -> v <= last s1).
Check C18_compute_next_gt :
  forall l c, 0 <= l < i64_max -> l < compute_next l c.
Check C18_explicit :
  forall t gen,
  choose_ts (Some t) gen = Some t /\ gen_consulted (Some t) = false.
Check C18_generated :
  forall gen, choose_ts None gen = gen /\ gen_consulted None = true.
Check C18_prop_ok_iff :
  forall seqs,
  prop_ok seqs = true <-> (Forall (StronglySorted Z.lt) seqs /\ NoDup (concat seqs)).
Check C18_model_accepted :
  forall B N M ls s,
  (0 <= B /\ B + Z.of_nat (N * M) < i64_max /\ sched_ok B ls = true) ->
  run step (init N M) ls = Some s ->
  prop_ok (map (fun th => rev (t_out th)) (threads s)) = true.
Check C18_accept_sample_sound :
  forall lastv t0 v t1,
  0 <= lastv < i64_max -> 0 <= t0 -> t1 <= i64_max ->
  accept_sample lastv t0 v t1 = true ->
  lastv < v /\
  (t0 <= t1 -> exists now, t0 <= now <= t1 /\ v = compute_next lastv (Some now)).
Check C18_accept_sample_complete :
  forall lastv t0 now t1,
  0 <= lastv < i64_max -> 0 <= t0 <= now -> now <= t1 -> t1 <= i64_max ->
  accept_sample lastv t0 (compute_next lastv (Some now)) t1 = true.
Check C18_phase_ok_sound :
  forall firsts seconds, phase_ok firsts seconds = true ->
  forall f a s b, In f firsts -> In a f -> In s seconds -> In b s -> a < b.
Check C18_overflow_witness :
  exists ls s th, run step (init 1 2) ls = Some s /\ nth_error (threads s) 0 = Some th /\
                  t_out th = [i64_min; i64_max].
Print Assumptions C18_inv.
Print Assumptions C18_cas_step.
Print Assumptions C18_distinct.
Print Assumptions C18_thread_mono.
Print Assumptions C18_call_order.
Print Assumptions C18_compute_next_gt.
Print Assumptions C18_explicit.
Print Assumptions C18_generated.
Print Assumptions C18_prop_ok_iff.
Print Assumptions C18_model_accepted.
Print Assumptions C18_accept_sample_sound.
Print Assumptions C18_accept_sample_complete.
Print Assumptions C18_phase_ok_sound.
Print Assumptions C18_overflow_witness.
