(* Statement pins for C12: compiled on every check run against the built .vo files. *)
From SV Require Import Base.Prelude Base.Bytes Model.Ring Model.Replicas Model.Plan Model.Shard Model.Route.
From SV Require Model.Murmur Model.PartKey Model.Tablets.
From SV Require Proofs.Tablets_proofs Proofs.PartKey_proofs.
From SV Require Import Proofs.Ring_proofs Proofs.Replicas_proofs Proofs.Plan_proofs Proofs.Shard_proofs Proofs.Route_proofs.
Open Scope Z_scope.
From SV Require Import Props.C12.

Check C12_token :
  forall st cfg values,
  st_wire st <> [] -> PartKey_proofs.key_ok (st_ncols st) (st_wire st) values ->
  (List.length (st_wire st) = 1%nat \/
   Forall PartKey_proofs.fits (PartKey.spec_components (st_wire st) values)) ->
  (Z.of_nat (List.length (PartKey.spec_serialized_key (PartKey.spec_components (st_wire st) values))) < 2 ^ 63)%Z ->
  exists rq, routing_request st cfg values = Ok rq /\
             rq_token rq = Some (PartKey.spec_token (st_part st) (st_wire st) values) /\
             rq_ks rq = option_map fst (st_table st).
Check C12_first_target :
  forall cl cfg st values cho shufp k t s rq,
  cho_ok cho -> shuf_ok shufp -> cluster_ok cl -> sorted_weak (c_ring cl) -> keys_ok cl ->
  st_table st = Some k -> Tablets.find_table (c_tablets cl) k = None ->
  PartKey.ps_calculate_token (st_part st) (st_ncols st) (st_wire st) values = Ok (Some t) ->
  pol_token_aware (ex_pol cfg) = true ->
  ks_lookup (c_keyspaces cl) (fst k) = Some s ->
  routing_request st cfg values = Ok rq ->
  let reps := spec_replicas (c_dcf cl) (c_rackf cl) (c_ring cl) t s None in
  (exists n, In n reps /\ usable cl (ex_pol cfg) rq n = true) ->
  exists n c,
    route cl cho shufp cfg st values = Ok (Some (n, c)) /\
    In n reps /\ usable cl (ex_pol cfg) rq n = true /\
    (forall d, pref_dc (eff_pref (ex_pol cfg) rq) = Some d ->
       (exists m, In m reps /\ c_alive cl m = true /\ in_dc (c_dcf cl) d m = true) ->
       in_dc (c_dcf cl) d n = true) /\
    (forall nr msb, pool_sharder (c_pool cl n) = Some (nr, msb) ->
       pool_has_shard (c_pool cl n) (shard_u16 (spec_shard_of nr msb t)) = true ->
       conn_shard c = shard_u16 (spec_shard_of nr msb t)).
Check C12_shard_u16 :
  forall nr msb t, (0 < nr <= 65536)%N ->
  shard_u16 (spec_shard_of nr msb t) = spec_shard_of nr msb t.
Check C12_shard :
  forall size evs cho shard,
  Forall event_ok evs -> cho_ok cho ->
  let p := rf_view (pool_run size evs) in
  pool_wf p /\
  (p <> PoolDown ->
   exists c, connection_for_shard cho p shard = Some c /\ In c (pool_conns p) /\
     (pool_sharder p <> None -> pool_has_shard p (shard_u16 shard) = true ->
      conn_shard c = shard_u16 shard)).
Check C12_tablets :
  forall cl cfg st values cho shufp k t s rq tb,
  cho_ok cho -> shuf_ok shufp -> cluster_ok cl -> sorted_weak (c_ring cl) -> keys_ok cl ->
  tablets_coherent cl ->
  st_table st = Some k -> Tablets.lookup_tablet (c_tablets cl) k t = Some tb ->
  PartKey.ps_calculate_token (st_part st) (st_ncols st) (st_wire st) values = Ok (Some t) ->
  pol_token_aware (ex_pol cfg) = true ->
  ks_lookup (c_keyspaces cl) (fst k) = Some s ->
  routing_request st cfg values = Ok rq ->
  let reps := Tablets.r_all (Tablets.t_reps tb) in
  (exists r, In r reps /\ usable cl (ex_pol cfg) rq (Tablets.host (fst r)) = true) ->
  exists n c r,
    route cl cho shufp cfg st values = Ok (Some (n, c)) /\
    In r reps /\ Tablets.host (fst r) = n /\ usable cl (ex_pol cfg) rq n = true /\
    (forall d, pref_dc (eff_pref (ex_pol cfg) rq) = Some d ->
       (exists r', In r' reps /\ c_alive cl (Tablets.host (fst r')) = true /\
                   in_dc (c_dcf cl) d (Tablets.host (fst r')) = true) ->
       in_dc (c_dcf cl) d n = true) /\
    (pool_sharder (c_pool cl n) <> None ->
     exists r', In r' reps /\ Tablets.host (fst r') = n /\
       (pool_has_shard (c_pool cl n) (shard_u16 (snd r')) = true -> conn_shard c = shard_u16 (snd r'))).
Check C12_tablets_precedence :
  forall cl pol rq k tt,
  Tablets.find_table (c_tablets cl) k = Some tt ->
  route_source cl pol rq (Some k) =
  match token_strategy (c_keyspaces cl) pol rq with
  | Some (t, _) => Some (tablet_source (c_tablets cl) k t)
  | None => None
  end.
Check C12_tablets_reachable :
  forall cl known0 h,
  Forall Tablets.op_i64 (Tablets.cluster_ops known0 h) ->
  Tablets.run (Tablets.cluster_ops known0 h) = Some (c_tablets cl) ->
  (forall nd, In nd (Tablets.cluster_known known0 h) -> Tablets.ndc nd = c_dcf cl (Tablets.host nd)) ->
  tablets_coherent cl /\
  (forall k tok tb, Tablets.lookup_tablet (c_tablets cl) k tok = Some tb ->
                    Tablets.t_first tb <= tok <= Tablets.t_last tb).
Check C12_accept_sound :
  forall cl cfg st values obs,
  sorted_weak (c_ring cl) -> keys_ok cl ->
  ((exists k tt, st_table st = Some k /\ Tablets.find_table (c_tablets cl) k = Some tt) -> tablets_coherent cl) ->
  route_ok cl cfg st values obs = true -> route_prop cl cfg st values obs.
Check C12_model_accepted :
  forall cl cfg st values cho shufp,
  cho_ok cho -> shuf_ok shufp -> cluster_ok cl -> sorted_weak (c_ring cl) -> keys_ok cl ->
  match route_obs cl cho shufp cfg st values with
  | Ok obs => route_ok cl cfg st values obs = true
  | Err _ => route_ok cl cfg st values None = true
  end.
Check C12_route_prop :
  forall cl cfg st values cho shufp obs,
  cho_ok cho -> shuf_ok shufp -> cluster_ok cl -> sorted_weak (c_ring cl) -> keys_ok cl ->
  ((exists k tt, st_table st = Some k /\ Tablets.find_table (c_tablets cl) k = Some tt) -> tablets_coherent cl) ->
  route_obs cl cho shufp cfg st values = Ok obs -> route_prop cl cfg st values obs.
Check C12_plan_ring :
  forall cl cfg st rq cho shufp k t s,
  sorted_weak (c_ring cl) -> keys_ok cl -> shuf_ok shufp ->
  st_table st = Some k -> Tablets.find_table (c_tablets cl) k = None ->
  token_strategy (c_keyspaces cl) (ex_pol cfg) rq = Some (t, s) ->
  route_plan cl cho shufp cfg st rq =
  plan (c_dcf cl) (c_rackf cl) (c_ring cl) (c_keyspaces cl) (c_enabled cl) (c_connected cl)
       (ring_shf cl t) (ex_pol cfg) rq cho (node_shuf cl t shufp) /\
  (forall site l, Permutation.Permutation (node_shuf cl t shufp site l) l).
Check C12_plan_properties :
  forall cl cfg st rq cho shufp k t s,
  sorted_weak (c_ring cl) -> keys_ok cl -> shuf_ok shufp -> cho_ok cho ->
  st_table st = Some k -> Tablets.find_table (c_tablets cl) k = None ->
  token_strategy (c_keyspaces cl) (ex_pol cfg) rq = Some (t, s) ->
  let p := map fst (route_plan cl cho shufp cfg st rq) in
  P_nodup p /\ P_filter (c_enabled cl) p /\ P_locality (c_dcf cl) (ex_pol cfg) rq p /\
  P_complete (c_dcf cl) (c_ring cl) (c_enabled cl) (ex_pol cfg) rq p /\
  P_order (c_dcf cl) (c_rackf cl) (c_ring cl) (c_keyspaces cl) (c_enabled cl) (c_connected cl) (ex_pol cfg) rq p /\
  P_lwt (c_dcf cl) (c_rackf cl) (c_ring cl) (c_keyspaces cl) (c_enabled cl) (c_connected cl) (ex_pol cfg) rq p.
Check C12_pool_wfb_sound :
  forall p, pool_wfb p = true -> pool_wf p.
Print Assumptions C12_token.
Print Assumptions C12_first_target.
Print Assumptions C12_shard_u16.
Print Assumptions C12_shard.
Print Assumptions C12_tablets.
Print Assumptions C12_tablets_precedence.
Print Assumptions C12_tablets_reachable.
Print Assumptions C12_accept_sound.
Print Assumptions C12_model_accepted.
Print Assumptions C12_route_prop.
Print Assumptions C12_plan_ring.
Print Assumptions C12_plan_properties.
Print Assumptions C12_pool_wfb_sound.
