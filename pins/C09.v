(* Statement pins for C09: compiled on every check run against the built .vo files. *)
From SV Require Import Base.Prelude Base.Bytes Model.Request Proofs.Request_proofs.
Open Scope N_scope.
From SV Require Import Props.C09.

Check C09_parse_encode :
  forall cd alg tr r f mid,
  req_wf r -> mid_matches mid r ->
  encode_request cd None tr r = Ok f ->
  parse_frame cd alg mid f
  = Ok (mkHeader 4 (if tr then 2 else 0) 0 (opcode r) (blen f - 9), r).
Check C09_plain_body :
  forall cd tr r f,
  encode_request cd None tr r = Ok f -> serialize_request r = Ok (skipn 9 f).
Check C09_compressed :
  forall cd alg tr r f mid body,
  codec_ok cd -> req_wf r -> mid_matches mid r ->
  encode_request cd (Some alg) tr r = Ok f -> serialize_request r = Ok body ->
  decompress cd alg (skipn 9 f) = Some body /\
  parse_frame cd (Some alg) mid f
  = Ok (mkHeader 4 (if tr then 3 else 1) 0 (opcode r) (blen f - 9), r).
Check C09_oversize :
  forall cd c tr r,
  oversize r = true \/ (body_too_long r = true /\ c <> Some Snappy) ->
  exists e, encode_request cd c tr r = Err e.
Check C09_body_too_long :
  forall cd c tr r body,
  serialize_request r = Ok body -> 4294967296 <= blen body -> c <> Some Snappy ->
  encode_request cd c tr r = Err (ErrBodyTooLong (blen body)).
Check C09_payload_too_long :
  forall cd alg tr r body payload,
  serialize_request r = Ok body -> compress_append cd alg body = Ok payload ->
  4294967296 <= blen payload ->
  encode_request cd (Some alg) tr r = Err (ErrBodyTooLong (blen payload)).
Check C09_encode_total :
  forall cd tr r,
  oversize r = false -> batch_counts_match r = true -> body_too_long r = false ->
  (exists f, encode_request cd None tr r = Ok f) /\
  (forall body, serialize_request r = Ok body -> 4 + blen (lz4_compress cd body) < 4294967296 ->
     exists f, encode_request cd (Some Lz4) tr r = Ok f).
Check C09_batch_mismatch :
  forall cd cmp tr bt stmts vals c sc ts,
  List.length stmts <> List.length vals ->
  exists e, encode_request cd cmp tr (Batch bt stmts vals c sc ts) = Err e.
Check C09_batch_mismatch_class :
  forall cd cmp tr bt stmts vals c sc ts,
  oversize (Batch bt stmts vals c sc ts) = false -> List.length stmts <> List.length vals ->
  encode_request cd cmp tr (Batch bt stmts vals c sc ts)
  = Err (ErrBatchMismatch (N.of_nat (List.length vals)) (N.of_nat (List.length stmts))).
Check C09_bad_batch_unreachable :
  forall cd cmp tr r a b,
  encode_request cd cmp tr r <> Err (ErrBadBatch a b).
Check C09_encode_injective :
  forall cd tr r1 r2 f,
  req_wf r1 -> req_wf r2 -> uses_mid r1 = uses_mid r2 ->
  encode_request cd None tr r1 = Ok f -> encode_request cd None tr r2 = Ok f -> r1 = r2.
Check C09_set_stream :
  forall cd alg mid f h r s,
  (- 2 ^ 15 <= s < 2 ^ 15)%Z ->
  parse_frame cd alg mid f = Ok (h, r) ->
  parse_frame cd alg mid (set_stream s f) = Ok (with_stream s h, r).
Check C09_frame_says_sound :
  forall cd c tr r f, frame_says cd c tr r f = true ->
  exists h, parse_frame cd c (uses_mid r) f = Ok (h, r) /\ h_version h = 4 /\ h_opcode h = opcode r /\
            h_length h + 9 = blen f /\ h_flags h = frame_flags (is_some c) tr /\ h_stream h = 0%Z.
Check C09_frame_says_complete :
  forall cd tr r f,
  req_wf r -> encode_request cd None tr r = Ok f -> frame_says cd None tr r f = true.
Check C09_uniform_batch :
  forall cd text n,
  blen text < 2147483648 -> N.of_nat n < 65536 ->
  match uniform_batch_outcome (N.of_nat n) (blen text) with
  | Ok b => exists f, encode_request cd None false
                        (Batch Logged (repeat (SQuery text) n) (repeat [] n) One None None) = Ok f /\
                      blen f = 9 + b /\ be_dec (firstn 4 (skipn 5 f)) = b
  | Err b => encode_request cd None false
               (Batch Logged (repeat (SQuery text) n) (repeat [] n) One None None)
             = Err (ErrBodyTooLong b) /\ 4294967296 <= b
  end.
Print Assumptions C09_parse_encode.
Print Assumptions C09_plain_body.
Print Assumptions C09_compressed.
Print Assumptions C09_oversize.
Print Assumptions C09_body_too_long.
Print Assumptions C09_payload_too_long.
Print Assumptions C09_encode_total.
Print Assumptions C09_batch_mismatch.
Print Assumptions C09_batch_mismatch_class.
Print Assumptions C09_bad_batch_unreachable.
Print Assumptions C09_encode_injective.
Print Assumptions C09_set_stream.
Print Assumptions C09_frame_says_sound.
Print Assumptions C09_frame_says_complete.
Print Assumptions C09_uniform_batch.
