(* Statement pins for C01: compiled on every check run against the built .vo files. *)
From SV Require Import Base.Prelude Base.Bytes Model.Vint Model.Cql Proofs.Vint_proofs Proofs.Cql_proofs.
Open Scope N_scope.
From SV Require Import Props.C01.

Check C01_roundtrip :
  forall t c b r,
  wf_cell t c = true -> known_class_cell t c = false -> ser_cell t c = Ok b ->
  deser_cell t (b ++ r) = Ok (pad_cell t c, r).
Check C01_roundtrip_value :
  forall t ws v b,
  wf_type t = true -> wf_val t v = true -> known_class t v = false ->
  ser_value ws t v = Ok b -> blen b < two64 -> deser_value t b = Ok (pad t v).
Check C01_known_class_split :
  forall t v,
  known_class t v = false <-> vector_hole t v = false /\ empty_tuple_inside t v = false.
Check C01_roundtrip_refuted_vector :
  exists t c b,
  wf_cell t c = true /\ ser_cell t c = Ok b /\ deser_cell t b <> Ok (pad_cell t c, []).
Check C01_vector_cells_refuted :
  ser_vector_cells (TNative NInt) 2 [CVal (CInt 7); CNull] = Ok [0; 0; 0; 8; 0; 0; 0; 7; 255; 255; 255; 255] /\
  deser_cell (TVector (TNative NInt) 2) [0; 0; 0; 8; 0; 0; 0; 7; 255; 255; 255; 255]
  = Ok (CVal (CVector [CInt 7; CInt (-1)]), []).
Check C01_roundtrip_refuted_tuple :
  exists t c b,
  wf_cell t c = true /\ ser_cell t c = Ok b /\ deser_cell t b <> Ok (pad_cell t c, []).
Check C01_conforms :
  forall t ws v b,
  wf_type t = true -> wf_val t v = true -> vector_hole t v = false ->
  ser_value ws t v = Ok b -> blen b < two64 -> Enc t v b.
Check C01_conforms_refuted :
  exists t v b,
  wf t v = true /\ ser_value true t v = Ok b /\ ~ Enc t v b.
Check C01_cell_conforms :
  forall t c b,
  wf_cell t c = true ->
  match c with CVal v => vector_hole t v = false | _ => True end ->
  ser_cell t c = Ok b -> EncCell t c b.
Check C01_cell_markers :
  forall t,
  ser_cell t CNull = Ok (spec_int (-1)) /\ ser_cell t CUnset = Ok (spec_int (-2)) /\
  (supports_empty t = true -> ser_cell t (CVal CEmpty) = Ok (spec_int 0)).
Check C01_ser_total :
  forall t c, wf_cell t c = true -> size_only (ser_cell t c).
Check C01_ser_total_value :
  forall t ws v,
  wf_type t = true -> wf_val t v = true -> size_only (ser_value ws t v).
Check C01_deser_fuel :
  forall t b,
  deser_value t b <> Err DE_OutOfFuel /\ deser_cell t b <> Err DE_OutOfFuel.
Check C01_vint_roundtrip :
  forall n r, n < 2 ^ 64 -> uvint_decode (uvint_encode n ++ r) = Some (n, r).
Check C01_vint_signed_roundtrip :
  forall z r, (- 2 ^ 63 <= z < 2 ^ 63)%Z ->
  vint_decode (vint_encode z ++ r) = Some (z, r).
Check C01_vint_len :
  forall n, n < 2 ^ 64 -> N.max 1 (uvint_nbytes n) = spec_uvint_len n.
Check C01_vint_conforms :
  forall n, n < 2 ^ 64 -> uvint_encode n = spec_uvint n.
Check C01_zigzag :
  forall z, (- 2 ^ 63 <= z < 2 ^ 63)%Z ->
  zigzag_encode z = spec_zigzag z /\ zigzag_encode z < 2 ^ 64 /\ zigzag_decode (zigzag_encode z) = z.
Print Assumptions C01_roundtrip.
Print Assumptions C01_roundtrip_value.
Print Assumptions C01_known_class_split.
Print Assumptions C01_roundtrip_refuted_vector.
Print Assumptions C01_vector_cells_refuted.
Print Assumptions C01_roundtrip_refuted_tuple.
Print Assumptions C01_conforms.
Print Assumptions C01_conforms_refuted.
Print Assumptions C01_cell_conforms.
Print Assumptions C01_cell_markers.
Print Assumptions C01_ser_total.
Print Assumptions C01_ser_total_value.
Print Assumptions C01_deser_fuel.
Print Assumptions C01_vint_roundtrip.
Print Assumptions C01_vint_signed_roundtrip.
Print Assumptions C01_vint_len.
Print Assumptions C01_vint_conforms.
Print Assumptions C01_zigzag.
