(* Statement pins for C16: compiled on every check run against the built .vo files. *)
From SV Require Import Base.Prelude Base.Bytes Model.Derive Proofs.Derive_proofs.
From Coq Require Import Permutation String.
Open Scope N_scope.
From SV Require Import Props.C16.

Check C16_by_name_ser :
  forall d db,
  NoDup (map vf_name (nonskipped (vd_fields d))) ->
  Permutation (map fst db) (map vf_name (nonskipped (vd_fields d))) ->
  (forall c f, In c db -> vfind (fst c) (vd_fields d) = Some f -> accepts (vf_ty f) (snd c) = true) ->
  gen_ser_value_by_name d db = Ok (map (fun c => value_of (vd_fields d) (fst c)) db).
Check C16_roundtrip :
  forall d db cells,
  NoDup (map vf_name (nonskipped (vd_fields d))) -> vvals_ok d = true ->
  gen_ser_value_by_name d db = Ok cells -> gen_typeck_value_by_name d db = Ok tt ->
  gen_deser_value_by_name d db cells = Ok (map (back_value (map fst db)) (vd_fields d)).
Check C16_excess_missing_ser_value :
  forall d db,
  NoDup (map vf_name (nonskipped (vd_fields d))) ->
  outcome_of (gen_ser_value_by_name d db) = doc_ser_value_by_name d db.
Check C16_excess_missing_typeck_value :
  forall d db,
  NoDup (map vf_name (nonskipped (vd_fields d))) ->
  (gen_typeck_value_by_name d db = Ok tt <-> doc_typeck_value_by_name d db = true) /\
  gen_typeck_value_by_name d db <> Err EPanic.
Check C16_excess_missing_deser_value :
  forall d db cells,
  NoDup (map vf_name (nonskipped (vd_fields d))) ->
  doc_typeck_value_by_name d db = true ->
  outcome_of (gen_deser_value_by_name d db cells) =
    match all_some (map (fun f => doc_field_value f (udt_items db cells)) (vd_fields d)) with
    | Some vs => Accept vs
    | None => Reject
    end /\
  gen_deser_value_by_name d db cells <> Err EPanic.
Print Assumptions C16_by_name_ser.
Print Assumptions C16_roundtrip.
Print Assumptions C16_excess_missing_ser_value.
Print Assumptions C16_excess_missing_typeck_value.
Print Assumptions C16_excess_missing_deser_value.
