(* Statement pins for C16: compiled on every check run against the built .vo files. *)
From SV Require Import Base.Prelude Base.Bytes Model.Derive Proofs.Derive_proofs.
From Coq Require Import Permutation String.
Open Scope N_scope.
From SV Require Import Props.C16.

Check C16_by_name_ser :
  forall d db,
  NoDup (map vf_name (nonskipped (vd_fields d))) ->
  Permutation (map fst db) (map vf_name (nonskipped (vd_fields d))) ->
  (forall c f, In c db -> vfind (fst c) (vd_fields d) = Some f -> accepts (vf_ty f) (snd c) = true) ->
  gen_ser_value_by_name d db = Ok (map (fun c => value_of (vd_fields d) (fst c)) db).
Check C16_roundtrip :
  forall d db cells,
  NoDup (map vf_name (nonskipped (vd_fields d))) -> vvals_ok d = true ->
  gen_ser_value_by_name d db = Ok cells -> gen_typeck_value_by_name d db = Ok tt ->
  gen_deser_value_by_name d db cells = Ok (map (back_value (map fst db)) (vd_fields d)).
Check C16_excess_missing_ser_value :
  forall d db,
  NoDup (map vf_name (nonskipped (vd_fields d))) ->
  outcome_of (gen_ser_value_by_name d db) = doc_ser_value_by_name d db.
Check C16_excess_missing_typeck_value :
  forall d db,
  NoDup (map vf_name (nonskipped (vd_fields d))) ->
  (gen_typeck_value_by_name d db = Ok tt <-> doc_typeck_value_by_name d db = true) /\
  gen_typeck_value_by_name d db <> Err EPanic.
Check C16_excess_missing_deser_value :
  forall d db cells,
  NoDup (map vf_name (nonskipped (vd_fields d))) ->
  doc_typeck_value_by_name d db = true ->
  outcome_of (gen_deser_value_by_name d db cells) =
    match all_some (map (fun f => doc_field_value f (udt_items db cells)) (vd_fields d)) with
    | Some vs => Accept vs
    | None => Reject
    end /\
  gen_deser_value_by_name d db cells <> Err EPanic.
Check C16_by_name_ser_row :
  forall d cols, rdesc_wf d = true ->
  Permutation (map fst cols) (map rl_name (rd_leaves d)) ->
  (forall c l, In c cols -> lfind (fst c) (rd_leaves d) = Some l -> accepts (rl_ty l) (snd c) = true) ->
  gen_ser_row_by_name d cols = Ok (map (fun c => rvalue_of (rd_leaves d) (fst c)) cols).
Check C16_roundtrip_row :
  forall d ls cols cells, rdesc_wf d = true ->
  leaves_only (rd_fields d) = Some ls ->
  forallb (fun l => val_ok (rl_ty l) (rl_val l)) ls = true ->
  gen_ser_row_by_name d cols = Ok cells -> gen_typeck_row_by_name ls cols = Ok tt ->
  gen_deser_row_by_name ls cols cells = Ok (map rback_value ls).
Check C16_excess_missing_ser_row :
  forall d cols, rdesc_wf d = true ->
  outcome_of (gen_ser_row_by_name d cols) = doc_ser_row_by_name d cols /\
  gen_ser_row_by_name d cols <> Err EPanic.
Check C16_excess_missing_typeck_row :
  forall ls cols,
  NoDup (map rl_name (filter (fun f => negb (rl_skip f)) ls)) ->
  (gen_typeck_row_by_name ls cols = Ok tt <-> doc_typeck_row_by_name ls cols = true) /\
  gen_typeck_row_by_name ls cols <> Err EPanic.
Check C16_excess_missing_deser_row :
  forall ls cols cells,
  NoDup (map rl_name (filter (fun f => negb (rl_skip f)) ls)) ->
  List.length cells = List.length cols ->
  doc_typeck_row_by_name ls cols = true ->
  outcome_of (gen_deser_row_by_name ls cols cells) =
    match all_some (map (fun f => doc_row_field_value f (combine cols cells)) ls) with
    | Some vs => Accept vs
    | None => Reject
    end /\
  gen_deser_row_by_name ls cols cells <> Err EPanic.
Check C16_ordered_typeck_value :
  forall d db, vordered_plain d = true ->
  (gen_typeck_value_ordered d db = Ok tt <->
   exists p rest, db = p ++ rest /\ map fst p = map vf_name (nonskipped (vd_fields d)) /\
                  (vd_forbid d = true -> rest = []) /\
                  forallb acc_pair (combine (nonskipped (vd_fields d)) p) = true).
Check C16_ordered_ser_value :
  forall d db, vordered_plain d = true ->
  outcome_of (gen_ser_value_ordered d db) = doc_ser_value_ordered d db.
Check C16_ordered_typeck_row :
  forall ls cols,
  (gen_typeck_row_ordered false ls cols = Ok tt <->
   map fst cols = map rl_name (filter (fun f => negb (rl_skip f)) ls) /\
   forallb racc_pair (combine (filter (fun f => negb (rl_skip f)) ls) cols) = true).
Check C16_ordered_ser_row :
  forall d cols, rordered_plain d = true ->
  outcome_of (gen_ser_row_ordered d cols) = doc_ser_row_ordered d cols.
Check C16_ordered_deser_value :
  forall d db cells, vordered_plain d = true ->
  NoDup (map vf_name (nonskipped (vd_fields d))) -> doc_typeck_value_ordered d db = true ->
  outcome_of (gen_deser_value_ordered d db cells) =
    match all_some (map (fun f => doc_field_value f (udt_items db cells)) (vd_fields d)) with
    | Some vs => Accept vs
    | None => Reject
    end /\
  gen_deser_value_ordered d db cells <> Err EPanic.
Check C16_ordered_deser_row :
  forall ls cols cells,
  NoDup (map rl_name (filter (fun f => negb (rl_skip f)) ls)) ->
  List.length cells = List.length cols -> doc_typeck_row_ordered ls cols = true ->
  outcome_of (gen_deser_row_ordered false ls cols cells) =
    match all_some (map (fun f => doc_row_field_value f (combine cols cells)) ls) with
    | Some vs => Accept vs
    | None => Reject
    end /\
  gen_deser_row_ordered false ls cols cells <> Err EPanic.
Check C16_ordered_allow_missing_sound :
  forall d db cells, vd_snc d = false ->
  gen_ser_value_ordered d db = Ok cells ->
  exists used p rest, subseq used (nonskipped (vd_fields d)) /\
    (forall f, In f (nonskipped (vd_fields d)) -> ~ In f used -> vf_am f = true) /\
    db = p ++ rest /\ map fst p = map vf_name used /\ cells = map vf_val used /\
    (vd_forbid d = true -> rest = []).
Check C16_roundtrip_ordered_value :
  forall d db cells, vvals_ok d = true ->
  gen_ser_value_ordered d db = Ok cells ->
  exists xs, gen_deser_value_ordered d db cells = Ok xs /\ Forall2 rt_ok (vd_fields d) xs.
Check C16_roundtrip_ordered_row :
  forall d ls cols cells, leaves_only (rd_fields d) = Some ls ->
  forallb (fun l => val_ok (rl_ty l) (rl_val l)) ls = true ->
  gen_ser_row_ordered d cols = Ok cells ->
  gen_deser_row_ordered (rd_snc d) ls cols cells = Ok (map rback_value ls).
Print Assumptions C16_by_name_ser.
Print Assumptions C16_roundtrip.
Print Assumptions C16_excess_missing_ser_value.
Print Assumptions C16_excess_missing_typeck_value.
Print Assumptions C16_excess_missing_deser_value.
Print Assumptions C16_by_name_ser_row.
Print Assumptions C16_roundtrip_row.
Print Assumptions C16_excess_missing_ser_row.
Print Assumptions C16_excess_missing_typeck_row.
Print Assumptions C16_excess_missing_deser_row.
Print Assumptions C16_ordered_typeck_value.
Print Assumptions C16_ordered_ser_value.
Print Assumptions C16_ordered_typeck_row.
Print Assumptions C16_ordered_ser_row.
Print Assumptions C16_ordered_deser_value.
Print Assumptions C16_ordered_deser_row.
Print Assumptions C16_ordered_allow_missing_sound.
Print Assumptions C16_roundtrip_ordered_value.
Print Assumptions C16_roundtrip_ordered_row.
