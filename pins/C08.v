(* Statement pins for C08: compiled on every check run against the built .vo files. *)
From SV Require Import Base.Prelude Base.Bytes Model.FrameBase Model.FrameTypes Model.FrameResp
  Model.FrameCustom Model.FrameEnc Proofs.FrameBase_proofs.
Open Scope N_scope.
From SV Require Import Props.C08.

Check C08_roundtrip :
  forall compress decompress,
  (forall b, decompress (compress b) = Some b) ->
  forall ft v2 cmp f rest,
  wf_frame compress ft v2 cmp f ->
  fst (decode decompress ft v2 cmp (encode_frame compress ft f ++ rest)) = ODone f.
Check C08_truncation :
  forall compress decompress ft v2 cmp f q,
  wf_frame compress ft v2 cmp f ->
  sprefix q (encode_frame compress ft f) ->
  is_rejected (fst (decode decompress ft v2 cmp q)) = true.
Check C08_truncation_body :
  forall compress decompress ft v2 cmp f q rest,
  wf_frame compress ft v2 cmp f ->
  bit (h_flags (d_header f)) 1 = false ->
  sprefix q (enc_body ft f) ->
  let h := d_header f in
  let h' := mkHeader (h_version h) (h_flags h) (h_stream h) (h_opcode h) (lenN q) in
  is_rejected (fst (decode decompress ft v2 cmp (enc_header h' ++ q ++ rest))) = true.
Check C08_alloc :
  forall decompress R,
  1 <= R -> (forall b d, decompress b = Some d -> lenN d <= R * lenN b) ->
  forall ft v2 cmp stream,
  c_alloc (snd (decode decompress ft v2 cmp stream)) <= alloc_bound (R * lenN stream).
Check C08_alloc_plain :
  forall decompress ft v2 stream,
  c_alloc (snd (decode decompress ft v2 false stream)) <= alloc_bound (lenN stream).
Check C08_depth :
  forall decompress ft v2 cmp stream,
  c_depth (snd (decode decompress ft v2 cmp stream)) <= DEPTH_LIMIT.
Check C08_fuel_enough :
  forall decompress ft v2 cmp stream st,
  fst (decode decompress ft v2 cmp stream) <> OErr st EOutOfFuel.
Print Assumptions C08_roundtrip.
Print Assumptions C08_truncation.
Print Assumptions C08_truncation_body.
Print Assumptions C08_alloc.
Print Assumptions C08_alloc_plain.
Print Assumptions C08_depth.
Print Assumptions C08_fuel_enough.
