"""C08 — decoding any bytes from the network returns a value or an error, never a crash.

Proof stage: Props/C08.vo (round trip, truncation, fuel, allocation and depth bounds of the Gallina
model of the response decoders).  Tie stage: harness/src/bin/c08.rs runs the REAL decoders in child
processes (2 MiB-stack thread, catch_unwind, `ulimit -v`, per-input timeout) on frames produced by
the extracted encoder, their truncations, mutations, compressed variants, random bytes and the
reproducers of the repaired crash inputs; ocaml/c08/driver compares outcome class / canonical
content / allocation measurements with the extracted model.  Census: allocation and recursion
sites, opcode / error-code / type-id tables of the decode files against checks/c08_census.json.
"""
import json
import os
import re
import sys

from orchestrate.common import run_check, ROOT, REPO   # REPO honours VERIF_REPO (mutated trees)

# the runner executes `driver gen` itself: hand it the driver of THIS tree (not a path compiled into it)
os.environ["VERIF_C08_DRIVER"] = os.path.join(ROOT, "ocaml", "c08", "driver")
CENSUS_FILE = os.path.join(ROOT, "checks", "c08_census.json")
DECODE_FILES = [
    "scylla-cql/src/frame/mod.rs",
    "scylla-cql/src/frame/types.rs",
    "scylla-cql-core/src/frame/types.rs",
    "scylla-cql/src/frame/response/mod.rs",
    "scylla-cql/src/frame/response/result.rs",
    "scylla-cql/src/frame/response/event.rs",
    "scylla-cql/src/frame/response/supported.rs",
    "scylla-cql/src/frame/response/authenticate.rs",
    "scylla-cql/src/frame/response/custom_type_parser.rs",
    "scylla-cql/src/utils/parse.rs",
    "scylla-cql-core/src/frame/response/error.rs",
    "scylla-cql-core/src/deserialize/result.rs",
    "scylla-cql-core/src/deserialize/row.rs",
    "scylla-cql-core/src/deserialize/frame_slice.rs",
    "scylla-cql-core/src/deserialize/value.rs",
    "scylla-cql-core/src/frame/response/result.rs",
    "scylla/src/routing/locator/tablets.rs",
]
ALLOC_RE = re.compile(r"with_capacity(?:_and_hasher)?\s*\(|\.(?:try_)?reserve(?:_exact)?\s*\(|vec\s*!\s*\[|\.resize(?:_with)?\s*\("
                      r"|::zeroed\s*\(|\.repeat\s*\(|from_iter\s*\(")


def strip_rust(src):
    """Remove comments and the contents of string/char literals (keeps line structure)."""
    out = []
    i, n = 0, len(src)
    while i < n:
        c = src[i]
        if src.startswith("//", i):
            j = src.find("\n", i)
            i = n if j < 0 else j
        elif src.startswith("/*", i):
            j = src.find("*/", i + 2)
            seg = src[i:(n if j < 0 else j + 2)]
            out.append("\n" * seg.count("\n"))
            i = n if j < 0 else j + 2
        elif c == '"':
            j = i + 1
            while j < n and src[j] != '"':
                j += 2 if src[j] == "\\" else 1
            out.append('""' + "\n" * src[i:j].count("\n"))
            i = j + 1
        elif c == "'" and i + 2 < n and (src[i + 2] == "'" or (src[i + 1] == "\\" and src.find("'", i + 2) in (i + 3, i + 4))):
            j = src.find("'", i + 2)
            out.append("' '")
            i = j + 1
        else:
            out.append(c)
            i += 1
    return "".join(out)


def cut_tests(src):
    """Drop `#[cfg(test)]` / `#[cfg(scylla_verif)]` mod ... { ... } blocks and `#[test] fn` items (brace matched):
    tests and verification hooks are not part of the decoders."""
    res = src
    while True:
        m = re.search(r"#\[(cfg\(test\)|test|cfg\(scylla_verif\))\]\s*(?:#\[[^\]]*\]\s*)*(?:pub(?:\([^)]*\))?\s+)?(mod|fn)\s+\w+[^{;]*\{", res)
        if not m:
            return res
        depth, j = 1, m.end()
        while j < len(res) and depth:
            depth += {"{": 1, "}": -1}.get(res[j], 0)
            j += 1
        res = res[:m.start()] + "\n" * res[m.start():j].count("\n") + res[j:]


def functions(src):
    """name -> body text for every `fn name` with a brace-matched body."""
    fns = {}
    for m in re.finditer(r"\bfn\s+(\w+)", src):
        k = src.find("{", m.end())
        semi = src.find(";", m.end())
        if k < 0 or (0 <= semi < k):
            continue
        depth, j = 1, k + 1
        while j < len(src) and depth:
            depth += {"{": 1, "}": -1}.get(src[j], 0)
            j += 1
        fns.setdefault(m.group(1), "")
        fns[m.group(1)] += src[k:j]
    return fns


def recursive_functions(src):
    """Functions on a cycle of the intra-file call graph (self or mutual recursion)."""
    fns = functions(src)
    names = set(fns)
    calls = {f: {g for g in names if re.search(r"\b%s\s*(?:::<[^>]*>)?\s*\(" % re.escape(g), body)} for f, body in fns.items()}
    rec = set()
    for f in names:
        seen, stack = set(), list(calls[f])
        while stack:
            g = stack.pop()
            if g == f:
                rec.add(f)
                break
            if g not in seen:
                seen.add(g)
                stack.extend(calls[g])
    return sorted(rec)


def tables(src_by_file):
    t = {}
    rm = src_by_file["scylla-cql/src/frame/response/mod.rs"]
    t["opcodes"] = sorted(set(re.findall(r"(0x[0-9A-Fa-f]+)\s*=>\s*Ok\(Self::(\w+)\)", rm)))
    er = src_by_file["scylla-cql-core/src/frame/response/error.rs"]
    t["error_codes"] = sorted(set(re.findall(r"(0x[0-9A-Fa-f]{4})\s*=>\s*DbError::(\w+)", er)))
    rs = src_by_file["scylla-cql/src/frame/response/result.rs"]
    t["type_ids"] = sorted(set((a, b or "composite") for a, b in re.findall(r"(0x00[0-9A-Fa-f]{2})\s*=>\s*(?:Native\((\w+)\))?", rs)))
    t["result_kinds"] = sorted(set(re.findall(r"(0x000[0-9])\s*=>\s*((?!Native)\w+)", rs)))
    t["limits"] = sorted(set(re.findall(r"const\s+(MAX_\w+)\s*:\s*usize\s*=\s*([^;]+);", rs)
                             + re.findall(r"const\s+(MAX_\w+)\s*:\s*usize\s*=\s*([^;]+);", src_by_file["scylla-cql/src/frame/mod.rs"])
                             + re.findall(r"const\s+(MAX_\w+)\s*:\s*usize\s*=\s*([^;]+);",
                                          src_by_file["scylla-cql/src/frame/response/custom_type_parser.rs"])))
    return {k: [list(x) for x in v] for k, v in t.items()}


def census():
    cur = {"alloc_sites": {}, "recursive": {}, "tables": {}}
    src_by_file = {}
    for f in DECODE_FILES:
        raw = open(os.path.join(REPO, f), errors="replace").read()
        src = cut_tests(strip_rust(raw))
        src_by_file[f] = src
        sites = [re.sub(r"\s+", " ", ln.strip()) for ln in src.splitlines() if ALLOC_RE.search(ln)]
        cur["alloc_sites"][f] = sites
        cur["recursive"][f] = recursive_functions(src)
    cur["tables"] = tables(src_by_file)
    return cur


def census_diff():
    cur = census()
    if not os.path.exists(CENSUS_FILE):
        return ["census pin file missing: " + CENSUS_FILE]
    pin = json.load(open(CENSUS_FILE))
    out = []
    for sect in ("alloc_sites", "recursive", "tables"):
        keys = set(cur[sect]) | set(pin.get(sect, {}))
        for k in sorted(keys):
            a, b = cur[sect].get(k), pin.get(sect, {}).get(k)
            if a != b:
                new = [x for x in (a or []) if x not in (b or [])]
                gone = [x for x in (b or []) if x not in (a or [])]
                out.append(f"{sect}/{k}: new={new} gone={gone}")
    return out


# what a run has to contain to count as the run the evidence describes: ABSOLUTE floors (scaled down
# only for runs below 100 000 lines); fixed lists: K 124/100 = 1.24x, V 276/100 = 2.76x, S 1402 fixed (1.40x) + about 170 seeded compressed variants (1.55-1.58x); the seeded kinds at least 7x (see docs/C08.md)
KIND_FLOORS = {"K": 100, "W": 800, "T": 5000, "U": 8000, "M": 20000, "C": 2000, "R": 5000, "P": 2000, "S": 1000,
               "Q": 2000, "F": 2000, "V": 100, "Z": 450, "G": 200}
# kind Z (wave-4 follow-up; fixed list): the family must reach the ratios at which the claimed-size guards of
# frame::decompress matter: real Snappy above 21:1 (its maximum is 21.33), real LZ4 above 200:1
Z_SNAPPY_MAX_RATIO_X100 = 2100
Z_LZ4_MAX_RATIO_X100 = 20000
Z_SNAPPY_ABOVE_21 = 100
Z_LARGEST_BODY = 4 << 20
NOTRUN_CAP = 20


def post(lines, verdicts):
    """Census tie + coverage floors + cap on inputs that could not be run for environmental reasons."""
    out = [("diff", "census " + d[:300], "diff census-mismatch (the cost annotations / tables of the model were written from the pinned list)")
           for d in census_diff()]
    if len(lines) < 5000:          # a replay
        return out
    kinds, ok_frames, typed_ok, typed_err, tablets_ok, small_ok, tuple_ok, tuple_err = {}, 0, 0, 0, 0, 0, 0, 0
    q2_ok = q2_err = p_ok = p_err = comp_other = hwm_seen = 0
    z_s_max = z_l_max = z_s_above = z_big = 0
    for ln in lines:
        k = ln.split(" ", 1)[0]
        if k == "Z":
            zm = re.search(r" bl=(\d+) cl=\d+ r=(\d+)", ln)
            if zm:
                snappy = ln.split(" ", 3)[2][-1:] == "s"
                r100 = int(zm.group(2))
                z_big = max(z_big, int(zm.group(1)))
                if snappy:
                    z_s_max = max(z_s_max, r100)
                    z_s_above += r100 > 2100
                else:
                    z_l_max = max(z_l_max, r100)
        kinds[k] = kinds.get(k, 0) + 1
        impl = ln.split("|", 1)[1] if "|" in ln else ""
        ok_frames += " ok F(" in impl or " ok Rows(" in impl
        typed_ok += " tv=ok" in impl
        typed_err += " tv=err@" in impl
        tablets_ok += " tb=ok:" in impl
        f3 = ln.split(" ", 3)
        comp_other += k in ("M", "U", "F", "S", "V") and len(f3) > 2 and f3[2][-1:] in ("l", "s")
        hwm_seen += bool(re.search(r" h=\d+", impl))
        q2_ok += " q2=ok:" in impl
        q2_err += " q2=err:" in impl
        p_ok += k == "P" and " ok Rows(" in impl
        p_err += k == "P" and impl.lstrip().startswith("err ")
        tuple_ok += bool(re.search(r" tv=\S*,t[1-5]:ok", impl))
        tuple_err += bool(re.search(r" tv=\S*,t[1-5]:err@", impl))
        small_ok += " s=ok" in impl
    scale = min(1.0, len(lines) / 100000.0)
    for k, floor in KIND_FLOORS.items():
        need = floor if k in ("K", "S", "V", "Z", "G") else int(floor * scale)
        if kinds.get(k, 0) < need:
            out.append(("diff", f"coverage kind {k}", f"diff coverage-floor kind {k}: {kinds.get(k, 0)} cases < {need}"))
    for name, got, need in (("Z: max achieved Snappy ratio x100", z_s_max, Z_SNAPPY_MAX_RATIO_X100),
                            ("Z: max achieved LZ4 ratio x100", z_l_max, Z_LZ4_MAX_RATIO_X100),
                            ("Z: Snappy cases with ratio above 21", z_s_above, Z_SNAPPY_ABOVE_21),
                            ("Z: largest uncompressed frame", z_big, Z_LARGEST_BODY),
                            ("frames decoded successfully", ok_frames, int(10000 * scale)),
                            ("typed rows ok", typed_ok, int(500 * scale)), ("typed rows failing", typed_err, int(300 * scale)),
                            ("tablet payloads accepted", tablets_ok, int(200 * scale)),
                            ("second frame read ok", q2_ok, int(1000 * scale)), ("second frame read refused", q2_err, int(500 * scale)),
                            ("rows behind cached metadata accepted", p_ok, int(500 * scale)), ("rows behind cached metadata refused", p_err, int(500 * scale)),
                            ("damaged bodies behind a valid compression layer (kinds M U F S V)", comp_other, int(2000 * scale)),
                            ("stack high-water marks measured", hwm_seen, int(0.95 * len(lines))),
                            ("typed tuple targets ok", tuple_ok, int(200 * scale)), ("typed tuple targets failing", tuple_err, int(50 * scale)),
                            ("second run on the small stack", small_ok, int(0.95 * len(lines)))):
        if got < need:
            out.append(("diff", "coverage " + name, f"diff coverage-floor {name}: {got} < {need}"))
    notrun = [(ln, v) for ln, v in zip(lines, verdicts) if v and v.startswith("ok notrun")]
    if len(notrun) > NOTRUN_CAP:
        out.append(("diff", notrun[0][0][:200], f"diff not-run {len(notrun)} inputs could not be run ({notrun[0][1]}): above the cap of {NOTRUN_CAP}"))
    return out


def extra_coverage(lines, verdicts):
    kinds = {}
    outcomes = {}
    maxreq = 0
    max_hwm = 0
    zr = {"Z_snappy_max_ratio_x100": 0, "Z_lz4_max_ratio_x100": 0, "Z_snappy_cases_ratio_above_21": 0, "Z_largest_uncompressed_frame": 0,
          "G_guard_refused": 0, "G_guard_passed": 0, "guard_compared_cases": 0}
    sub = {"compressed_M_U_F_S_V": 0, "q2_ok": 0, "q2_err": 0, "P_accepted": 0, "P_refused": 0, "typed_rows_ok": 0, "typed_rows_failing": 0,
           "tablets_accepted": 0, "frames_accepted": 0}
    tuples = {}
    for ln in lines:
        k0 = ln.split(" ", 1)[0]
        kinds[k0] = kinds.get(k0, 0) + 1
        raw = ln.split("|", 1)[1] if "|" in ln else ""
        f3 = ln.split(" ", 3)
        zr["guard_compared_cases"] += " g=" in raw
        if k0 == "G":
            zr["G_guard_refused"] += " g=1" in raw
            zr["G_guard_passed"] += " g=0" in raw
        zm = re.search(r" bl=(\d+) cl=\d+ r=(\d+)", raw) if k0 == "Z" else None
        if zm:
            r100 = int(zm.group(2))
            zr["Z_largest_uncompressed_frame"] = max(zr["Z_largest_uncompressed_frame"], int(zm.group(1)))
            if f3[2][-1:] == "s":
                zr["Z_snappy_max_ratio_x100"] = max(zr["Z_snappy_max_ratio_x100"], r100)
                zr["Z_snappy_cases_ratio_above_21"] += r100 > 2100
            else:
                zr["Z_lz4_max_ratio_x100"] = max(zr["Z_lz4_max_ratio_x100"], r100)
        sub["compressed_M_U_F_S_V"] += k0 in ("M", "U", "F", "S", "V") and len(f3) > 2 and f3[2][-1:] in ("l", "s")
        mh = re.search(r" h=(\d+)", raw)
        if mh:
            max_hwm = max(max_hwm, int(mh.group(1)))
        sub["q2_ok"] += " q2=ok:" in raw
        sub["q2_err"] += " q2=err:" in raw
        sub["P_accepted"] += k0 == "P" and " ok Rows(" in raw
        sub["P_refused"] += k0 == "P" and raw.lstrip().startswith("err ")
        sub["typed_rows_ok"] += " tv=ok" in raw
        sub["typed_rows_failing"] += " tv=err@" in raw
        sub["tablets_accepted"] += " tb=ok:" in raw
        sub["frames_accepted"] += " ok F(" in raw or " ok Rows(" in raw
        m = re.search(r" tv=\S*,(t[1-5]):(ok|err)", raw)
        if m:
            key = m.group(1) + "_" + ("ok" if m.group(2) == "ok" else "failing")
            tuples[key] = tuples.get(key, 0) + 1
        impl = ln.split("|", 1)[1].split() if "|" in ln else []
        impl = [x for x in impl if not x.startswith(("dc=", "g=", "zeq=", "bh=", "bl=", "cl=", "r=", "cf="))]
        key = " ".join(impl[:3]) if impl and impl[0] == "err" else (impl[0] if impl else "?")
        outcomes[key] = outcomes.get(key, 0) + 1
        for x in impl:
            if x.startswith("m="):
                maxreq = max(maxreq, int(x[2:]))
    c = census()
    notrun = sum(1 for v in verdicts if v and v.startswith("ok notrun"))
    classes = {}
    for v in verdicts:
        m = re.search(r"class=([\w-]+)", v or "")
        if m:
            classes[m.group(1)] = classes.get(m.group(1), 0) + 1
    return {
        "cases_per_kind": dict(sorted(kinds.items())),
        "sub_counts": sub,
        "compressible_family_Z_G": zr,
        "tuple_targets": dict(sorted(tuples.items())),
        "not_run_env": notrun,
        "runner_env": {"VERIF_C08_DRIVER": os.environ.get("VERIF_C08_DRIVER"),
                       "VERIF_C08_ULIMIT_KB": os.environ.get("VERIF_C08_ULIMIT_KB", "default 8388608"),
                       "VERIF_C08_SMALL_STACK_KB": os.environ.get("VERIF_C08_SMALL_STACK_KB", "default 512")},
        "known_class_hits": classes,
        "impl_outcome_histogram": dict(sorted(outcomes.items(), key=lambda kv: -kv[1])[:60]),
        "largest_single_allocation_request_observed": maxreq,
        "largest_stack_high_water_mark_observed": max_hwm,
        "census": {"alloc_sites": sum(len(v) for v in c["alloc_sites"].values()),
                   "recursive_functions": sum(len(v) for v in c["recursive"].values()),
                   "mismatches": census_diff()},
    }


SPEC = {
    "pid": "C08",
    "coq_targets": ["Props/C08.vo", "Extract/ExC08.vo"],
    "bin": "c08",
    "sizes": {"quick": 400000, "thorough": 4000000},
    "min_cases": {"quick": 300000, "thorough": 3000000},
    "search_n": 400000,
    "runner_timeout": 3000,
    "rule": ("K = reproducers of the repaired crash/hang/over-allocation inputs (col_count/pk_count = i32::MAX, 4 GiB body length + EOF, u16 counts without data, nested UDT/tuple headers, lz4/snappy size claims, "
             "10^5-deep list metadata, custom-type strings that hung / overflowed the stack / re-parsed exponentially, "
             "lz4 4 GiB claim, u16 counts without data); W = well-formed frames of every response kind from the extracted "
             "encoder (seeded, incl. types nested 10..10^5); T = strict prefixes of W (9 random cut points per frame; exhaustive only for 9-byte frames); "
             "U = body cut with a consistent header length; M = field mutations of W (4/2-byte boundary values at random "
             "offsets, +-1, bit flips, header fields, insert/delete, random runs); C = LZ4/Snappy-compressed variants and "
             "their mutations / wrong codec; R = random bytes, plain and behind a valid header; P = a PREPARED frame followed by a "
             "Rows frame decoded with the first one's result metadata as cached_metadata (skip-metadata path), cuts and mutations; "
             "S = custom-type strings through every branch of the string parser and 40 character-level damages of each; "
             "Q = two consecutive frames (whole / cut / first one mutated) delivered by a custom AsyncRead in chunks "
             "(1 byte at a time, 8+1+1+3, 9+1+rest, all at once, random 1..5, random 1..64; the schedule is reported as sch=), the first decoded, then a second read_response_frame on the same reader; "
             "both reads compared with the extracted model of the chunked reader (read_frame_chunked / reader_after on the chunks of that schedule), which must also agree with the all-at-once read_frame (by C08_chunking the schedule cannot change a verdict); "
             "V = 138 fixed Rows frames (276 with their compressed variants) with one typed cell whose element count is inflated (list / set / map / nested list: 2^16, 2^24, i32::MAX with 0, 1, 8 elements behind, the count cut; an honest 2^10 for contrast; vectors with 65535 declared dimensions), both decoder generations; "
             "F = mutations derived from the extracted encoder: one length / count / id / flag field of the AST re-encoded with a boundary value or off by one. "
             "Every V case and one in eight of M, U, F, S also with the damaged body behind a valid LZ4 / Snappy layer (same kind letter, mode l / s). "
             "Every case is decoded a second time on a 512 KiB stack whose high-water mark is measured by fill pattern (h=) and compared with the prediction from the model's recursion depth (16 KiB + 1.5 KiB per level, C08_stack). "
             "On every accepted frame also: "
             "typed rows (rows_iter::<Row>() over CqlValue, position of the first failure; and the first of five typed tuple targets "
             "whose type_check accepts the columns) and the tablet routing payload "
             "(RawTablet::from_custom_payload via hook H6). non-trivial = every case; "
             "distinct = distinct case lines"),
    "nontrivial": lambda ln: True,
    "trusted_base": [
        "encode_frame / wf_frame (Model/FrameEnc.v) are the v4 wire format transcribed from native_protocol_v4.spec + ScyllaDB extensions",
        "LZ4 / Snappy codecs are library code: an explicit premise (decompress (compress b) = Some b) of C08_roundtrip, an oracle in the tie",
        "harness canonical rendering + error classification by innermost error variant name; counting global allocator; child-process watchdog",
        "census scanner checks/c08.py (allocation / recursion sites, opcode / error-code / type-id tables vs checks/c08_census.json)",
    ],
    "assumptions": [
        "custom-type strings with non-ASCII characters are not modelled (char::is_alphanumeric / is_whitespace tables): the model declines, the tie then only checks that the implementation neither crashes nor over-allocates",
        "absence of panics in the Rust code for ALL inputs is not a theorem; it is supported by the tie",
        "'does not terminate' is judged in CPU time of the child (10 s quick / 20 s thorough on one input, alone in a fresh child); a wall-clock stall with less CPU time is counted not-run (env-stall)",
        "the stack prediction's two constants (16 KiB base, 1.5 KiB per level of type nesting) are measured on the debug-profile harness, not derived from the code; C08_stack is an arithmetical corollary of C08_depth about the prediction",
        "codec maximum expansion (Section hypotheses of C08_guard_passes_snappy / _lz4: plain <= 32 x compressed for Snappy, <= 255 x block for LZ4, preamble = plain length) is a fact about library code (snap, lz4_flex): validated by the tie on the real encoders' output of kind Z (constant / short-period fills, 1 KiB .. 4 MiB; max achieved ratios 21.31 / 254.58), not proved",
        "C08_alloc is proved of the model's ghost counter; the driver APPLIES that bound (largest request) and twice it (total; no theorem) to the allocator's measurements",
    ],
    "post": post,
    "extra_coverage": extra_coverage,
}


def main(argv):
    if argv and argv[0] == "--pin-census":
        json.dump(census(), open(CENSUS_FILE, "w"), indent=1, sort_keys=True)
        print("pinned", CENSUS_FILE)
        return 0
    return run_check(SPEC, argv)
