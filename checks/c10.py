import re
from orchestrate.common import run_check


def _extra(lines, verdicts):
    faults, classes, tmax, inflight, conns, skipped, kills = {}, {}, 0, {}, 0, 0, 0
    for ln in lines:
        try:
            case, obs = ln.split("|", 1)
            if obs.strip().startswith("skip"):
                skipped += 1
                continue
            f = case.split()
            fk = re.sub(r"(?<=garb).*|(?<=ver).*", "", f[5])
            if fk.startswith("burst"):
                kills = kills + obs.count("R@") + obs.count("F@")
            faults[fk] = faults.get(fk, 0) + 1
            b = "1" if f[3] == "1" else "2-4" if int(f[3]) <= 4 else "5-20" if int(f[3]) <= 20 else "21-50"
            inflight[b] = inflight.get(b, 0) + 1
            kv = dict(t.split("=", 1) for t in obs.split() if "=" in t)
            for r in kv.get("res", "").split(","):
                k = r.split(":")[0] + (":" + r.split(":")[1] if r.startswith("err") else "")
                classes[k] = classes.get(k, 0) + 1
            tmax = max(tmax, int(kv.get("tmax", "0")))
            conns += kv.get("conns", "").count(";") + 1
        except Exception:
            pass
    return {"fault_kinds": faults, "requests_in_flight": inflight, "client_outcome_classes": classes,
            "max_completion_ms": tmax, "connection_traces_replayed_through_model": conns,
            "cases_skipped_because_setup_failed_5_times": skipped,
            "cases_not_run_total_incl_runner_starved": sum(1 for v in verdicts if (v or "").startswith("ok skipped")),
            "sample_case_truncated": (lines[0][:380] + " ...") if lines else "",
            "burst_connections_killed_while_requests_were_being_submitted": kills}


def _post(lines, verdicts):
    """Floors on what the run really exercised (a run that observed less than the evidence claims is a
    broken correspondence), and the cap on cases that could not be set up (environment)."""
    out = []
    if not lines:
        return out
    n = len(lines)
    # not-run: set-up failed five times in a row (no free address/port, ...), or the driver found a broken
    # correspondence of a shape starvation explains (pool log order / spurious keepalive timeout) while the
    # runner's own runtime was starved (stall >= 200 ms): counted, small cap
    sk = [ln for ln, v in zip(lines, verdicts) if (v or "").startswith("ok skipped")]
    if len(sk) * 50 > n:
        out.append(("diff", sk[0][:300], f"diff {len(sk)} of {n} cases were not run (set-up failed / runner starved; cap 2 %)"))
    notrun = set(id(ln) for ln in sk)
    kinds, kills, broken_reqs, mid_frame_cuts, retried = {}, 0, 0, 0, 0
    twice, aux_cases, refills = 0, 0, 0
    for ln in lines:
        try:
            case, obs = ln.split("|", 1)
            f = case.split()
            fk = re.sub(r"(?<=garb).*|(?<=ver).*", "", f[5])
            if id(ln) in notrun or obs.strip().startswith("skip"):
                continue
            kv = dict(t.split("=", 1) for t in obs.split() if "=" in t)
            if fk.startswith("2x"):
                fk = fk[2:]
                # the second fault really fired: at least two connection ends (F@/R@/X@, any node) in the case
                if sum(kv.get("conns", "").count(x) for x in ("F@", "R@", "X@")) >= 2:
                    twice += 1
            kinds[fk] = kinds.get(fk, 0) + 1
            if fk.startswith("burst"):
                kills += kv.get("conns", "").count("R@") + kv.get("conns", "").count("F@")
            broken_reqs += kv.get("res", "").count("err:broken.")
            if kv.get("aux", "-") != "-":
                aux_cases += 1
            # a replacement pool connection observed at the mock after one broke (same node)
            brk = set()
            for tok in kv.get("pool", "-").split(","):
                if tok[:1] == "b":
                    brk.add(tok[1:].split(".")[0])
                elif tok[:1] == "a" and tok[1:].split(".")[0] in brk:
                    refills += 1
                    break
            if fk in ("fin", "rst") and 0 < int(f[6]) < 60 and ("F@" in kv.get("conns", "") or "R@" in kv.get("conns", "")):
                mid_frame_cuts += 1
            if f[9] == "1" and kv.get("res", "").count("ok:") and "err" not in kv.get("res", "") and fk in ("fin", "rst", "unsol", "stall"):
                retried += 1
        except Exception:
            pass
    if n >= 500:   # a tier run, not a replay
        need = {"fin": 60, "rst": 60, "garb": 20, "ver": 5, "unsol": 5, "stall": 5, "burstrst": 40,
                "split": 2, "dup": 2, "short": 2, "neg": 1, "corr": 15}
        for k, m in need.items():
            if kinds.get(k, 0) < m:
                out.append(("diff", lines[0][:300], f"diff only {kinds.get(k, 0)} cases of fault kind {k} (floor {m})"))
        if twice < 6:
            out.append(("diff", lines[0][:300], f"diff only {twice} 2x cases in which two connections really broke (floor 6)"))
        if aux_cases < 8:
            out.append(("diff", lines[0][:300], f"diff only {aux_cases} cases with BATCH/PREPARE/paged/USE requests in flight (floor 8)"))
        if refills < 150:
            out.append(("diff", lines[0][:300], f"diff only {refills} cases where a replacement pool connection was observed after a break (floor 150)"))
        if kills < 200:
            out.append(("diff", lines[0][:300], f"diff only {kills} connections were really killed (R@/F@) in burst cases (floor 200)"))
        if broken_reqs < 500:
            out.append(("diff", lines[0][:300], f"diff only {broken_reqs} requests failed with a broken-connection error (floor 500)"))
        if mid_frame_cuts < 80:
            out.append(("diff", lines[0][:300], f"diff only {mid_frame_cuts} fin/rst cases with a cut at a byte offset 1..59 (frames are 49-109 bytes) were really performed (floor 80)"))
    return out


SPEC = {
    "pid": "C10",
    "coq_targets": ["Props/C10.vo", "Extract/ExC10.vo"],
    "bin": "c10",
    "sizes": {"quick": 600, "thorough": 12000},
    "min_cases": {"quick": 590, "thorough": 11700},
    "search_n": 3000,
    "search_rounds": 2,
    "runner_timeout": 7200,
    "rule": ("one real Session per case against a fresh mocknode cluster (1-2 nodes, 0/2 shards); n=1..50 requests in flight, "
             "the j-th arriving request triggers the fault: fin/rst = cut of the response stream at byte offset off (every offset "
             "0..frame length+1 of a 3-request script, then random), ver<xx> = bad version byte, unsol = frame for a stream nobody "
             "waits on, garb<hex> = raw bytes (unknown opcode, short header, header announcing more body than follows, random), "
             "stall = silent connection with keepalive 400ms/800ms; later requests stay unanswered or are answered late; "
             "split/neg/flagop/flagcomp/dup/short = split delivery, ignored negative streams, READY/compression-flag frame on a live stream, duplicate reply, short length field; "
             "corr = one of 7 of the 9 header bytes (version, flags, opcode, 4 length bytes; not the stream id) of a reply XORed (each x 3 masks); 2x<kind> = the scenario twice, second fault on the re-established connection; aux = BATCH / PREPARE / paged iterator / USE requests in flight as well (completion only); "
             "burstrst/burstfin = n client tasks issue j requests each, in 6..12 rounds the mock kills the pool connection(s) of node 0 "
             "while requests are being submitted (the submit/teardown race of finding F15; a fifth of the cases); "
             "non-trivial = fault != none; distinct = distinct case lines"),
    "nontrivial": lambda ln: " none " not in ln.split("|")[0],
    "extra_coverage": _extra,
    "post": _post,
    "trusted_base": [
        "mocknode (harness/src/mocknode): own CQL v4 frame codec, records every byte it wrote and every frame it read per connection",
        "runner harness/src/bin/c10.rs: maps mocknode's trace to the connection-model alphabet; completion bound 21.2 s (keepalive interval + timeout + 20 s margin), typical completion < 1.3 s; reports the largest scheduling stall of its own runtime per case",
        "driver ocaml/c10/driver.ml: conversion of the case line into the extracted types, search over the delivered prefix after a TCP reset, the OCaml-only clauses of the predicate (bound, follow-up, probes, aux, panic), error-class table, 200 ms log-order tolerance of pool events, starvation not-run (stall >= 200 ms turns a pool-log-order diff, or a diff that disappears when the err:broken.KeepaliveTimeout results (and, for idempotent requests, err:pool results when the client itself closed a connection the model leaves open) are left out, into a counted not-run; no other diff, never a viol)",
    ],
    "assumptions": [
        "stream-id allocation is an oracle in Model/ConnFail.v (any free id); the bitmap allocator is C02's subject",
        "TCP: bytes written before an orderly FIN are delivered; after RST any prefix of the written frames may have been delivered (driver tries every prefix)",
        "wall-clock promptness is measured by the tie against a generous bound, not proved",
        "the pool machine is tied through the connection ids observed at the mock for one-connection pools (shards = 0): the recorded a/g/b events, with PProcess inserted by pool_labels before the next replacement (never observed itself), must be a run; a non-run is a diff",
        "C10_root_cause / C10_root_cause_run (per broken connection the only failure classes are its root cause and ChannelError) are tied by a class-set check, not by a model run: a non-idempotent request the mock never saw (it is in no trace) must fail with a class in the union of the root causes of all connections that broke in the case (all delivered-prefix candidates), broken.ChannelError or pool; which connection it was queued on is not observed",
        "accept_obs (proved sound) is evaluated before ok except (a) in corr/short/garb cases where the mock mis-framed the stream and the body is justified by the model's frame-aligned reader, (b) in a case with an excused hang (mis-framing kind, connection alive to the end of the trace, model run ends open, frame-aligned (empty read buffer) with the request pending): there accept_obs is off for the whole case",
        "a viol found by a burst case is the outcome of a race (about 2 % per burst case against the pre-fix router): a single replay usually does not reproduce it; VERIF_DEV=1 C10_REPLAY_REPEAT=<k> re-executes the burst cases of a replay k times",
    ],
}


def main(argv):
    return run_check(SPEC, argv)
