import os
import re

from orchestrate.common import run_check, REPO

# ---------------------------------------------------------------- census (structure pins)
# The variant lists the Coq inductives of Model/Retry.v were written from.  A new / renamed /
# removed variant means the decision tables may have a branch the model does not have.
CENSUS = {
    ("scylla-cql-core/src/frame/types.rs", "Consistency"): [
        "Any", "One", "Two", "Three", "Quorum", "All", "LocalQuorum", "EachQuorum", "LocalOne",
        "Serial", "LocalSerial"],
    ("scylla-cql-core/src/frame/response/error.rs", "WriteType"): [
        "Simple", "Batch", "UnloggedBatch", "Counter", "BatchLog", "Cas", "View", "Cdc", "Other"],
    ("scylla-cql-core/src/frame/response/error.rs", "DbError"): [
        "SyntaxError", "Invalid", "AlreadyExists", "FunctionFailure", "AuthenticationError",
        "Unauthorized", "ConfigError", "Unavailable", "Overloaded", "IsBootstrapping",
        "TruncateError", "ReadTimeout", "WriteTimeout", "ReadFailure", "WriteFailure", "Unprepared",
        "ServerError", "ProtocolError", "RateLimitReached", "Other"],
    ("scylla/src/errors.rs", "RequestAttemptError"): [
        "SerializationError", "CqlRequestSerialization", "UnableToAllocStreamId",
        "BrokenConnectionError", "BodyExtensionsParseError", "CqlResultParseError",
        "CqlErrorParseError", "DbError", "UnexpectedResponse", "RepreparedIdChanged",
        "RepreparedIdMissingInBatch", "NonfinishedPagingState"],
    ("scylla/src/policies/retry/retry_policy.rs", "RetryDecision"): [
        "RetrySameTarget", "RetryNextTarget", "DontRetry", "IgnoreWriteError"],
}

# Control-flow skeleton of run_request_speculative_fiber (scylla/src/client/execution.rs) that
# Model/Fiber.v was written from: the labelled loops, every jump, every assignment to the two
# loop variables, the construction of RequestInfo and the arms interpreting the decision.
FIBER_FILE = "scylla/src/client/execution.rs"
FIBER_TOKENS = re.compile(
    r"'targets_in_plan\s*:\s*for\s+\w+\s+in\s+\w+|'same_target_retries\s*:\s*loop|"
    r"continue\s+'\w+|break\s+'\w+|return\s+Some\s*\(\s*(?:Ok|Err)|"
    r"RetryDecision::\w+(?:\s*\(\s*\w+\s*\))?\s*=>|"
    r"(?:let\s+mut\s+)?current_consistency(?:\s*:\s*Consistency)?\s*=[^;=][^;]*;|"
    r"(?:let\s+mut\s+)?last_error(?:\s*:\s*Option<RequestError>)?\s*=\s*[^;=%\s][^;]*;|"
    r"last_error\s*\.\s*map\s*\([^)]*\)|target\s*\.\s*get_connection\s*\(\s*\)|"
    r"run_request_once\s*\([^)]*\)|\.\s*decide_should_retry\s*\([^)]*\)|"
    r"error\s*:\s*&request_error|is_idempotent\s*:\s*self\.is_idempotent|"
    r"consistency\s*:\s*current_consistency|Ok\s*\(\s*connection\s*\)\s*=>|Err\s*\(\s*e\s*\)\s*=>|"
    r"Ok\s*\(\s*response\s*\)\s*=>")
FIBER_SKELETON = [
    "let mut last_error: Option<RequestError> = None;",
    "let mut current_consistency: Consistency = self.consistency;",
    "'targets_in_plan: for target in request_plan",
    "'same_target_retries: loop",
    "target.get_connection()",
    "Ok(connection) =>",
    "Err(e) =>",
    "last_error = Some(e.into());",
    "continue 'targets_in_plan",
    "run_request_once(connection, current_consistency)",
    "Ok(response) =>",
    "return Some(Ok",
    "Err(e) =>",
    "error: &request_error",
    "is_idempotent: self.is_idempotent",
    "consistency: current_consistency",
    ".decide_should_retry(request_info)",
    "last_error = Some(request_error.into());",
    "RetryDecision::RetrySameTarget(new_cl) =>",
    "current_consistency = new_cl.unwrap_or(current_consistency);",
    "continue 'same_target_retries",
    "RetryDecision::RetryNextTarget(new_cl) =>",
    "current_consistency = new_cl.unwrap_or(current_consistency);",
    "continue 'targets_in_plan",
    "RetryDecision::DontRetry =>",
    "break 'targets_in_plan",
    "RetryDecision::IgnoreWriteError =>",
    "return Some(Ok",
    "last_error.map(Result::Err)",
]


def _strip(src):
    """remove comments and string literals (keeps structure characters of code only)"""
    out, i, n = [], 0, len(src)
    while i < n:
        if src.startswith("//", i):
            j = src.find("\n", i)
            i = n if j < 0 else j
        elif src.startswith("/*", i):
            j = src.find("*/", i + 2)
            i = n if j < 0 else j + 2
        elif src[i] == '"':
            i += 1
            while i < n and src[i] != '"':
                i += 2 if src[i] == "\\" else 1
            i += 1
            out.append('""')
        elif src[i] == "'" and i + 2 < n and (src[i + 2] == "'" or (src[i + 1] == "\\" and src.find("'", i + 2) in (i + 3, i + 4))):
            j = src.find("'", i + 2)          # char literal (labels like 'a: have no closing quote nearby)
            i = j + 1
            out.append("' '")
        else:
            out.append(src[i])
            i += 1
    return "".join(out)


def _match_brace(s, i):
    depth = 0
    while i < len(s):
        if s[i] == "{":
            depth += 1
        elif s[i] == "}":
            depth -= 1
            if depth == 0:
                return i
        i += 1
    return len(s)


def enum_variants(path, name):
    s = _strip(open(os.path.join(REPO, path), errors="replace").read())
    m = re.search(r"\benum\s+" + name + r"\s*\{", s)
    if not m:
        return None
    body = s[m.end() - 1:_match_brace(s, m.end() - 1) + 1]
    # drop attributes #[...]
    res, i = [], 0
    while i < len(body):
        if body.startswith("#[", i):
            d, i = 0, i + 1
            while i < len(body):
                if body[i] == "[":
                    d += 1
                elif body[i] == "]":
                    d -= 1
                    if d == 0:
                        break
                i += 1
            i += 1
        else:
            res.append(body[i])
            i += 1
    body = "".join(res)
    names, depth, expect = [], 0, False
    for tok in re.finditer(r"[{}()\[\],]|[A-Za-z_]\w*", body):
        t = tok.group(0)
        if t in "{([":
            depth += 1
            if depth == 1:
                expect = True
        elif t in "})]":
            depth -= 1
        elif t == ",":
            if depth == 1:
                expect = True
        elif depth == 1 and expect:
            names.append(t)
            expect = False
    return names


def fiber_skeleton():
    s = _strip(open(os.path.join(REPO, FIBER_FILE), errors="replace").read())
    m = re.search(r"\basync\s+fn\s+run_request_speculative_fiber\b", s)
    if not m:
        return None
    b = s.find("{", m.end())
    body = s[b:_match_brace(s, b) + 1]
    return [re.sub(r"\s+", " ", re.sub(r"\s*([().,:;])\s*", r"\1", t)).strip() for t in FIBER_TOKENS.findall(body)]


def _norm(t):
    return re.sub(r"\s+", " ", re.sub(r"\s*([().,:;])\s*", r"\1", t)).strip()


def census():
    """-> list of mismatch descriptions (empty = the source still has the pinned structure)"""
    bad = []
    for (path, name), want in CENSUS.items():
        got = enum_variants(path, name)
        if got != want:
            bad.append(f"enum {name} in {path}: expected {want}, found {got}")
    got = fiber_skeleton()
    want = [_norm(t) for t in FIBER_SKELETON]
    if got != want:
        extra = [t for t in (got or []) if t not in want]
        missing = [t for t in want if t not in (got or [])]
        bad.append(f"control-flow skeleton of run_request_speculative_fiber changed "
                   f"(not in pin: {extra}; pinned but absent: {missing}; found {len(got or [])} tokens, pinned {len(want)})")
    return bad


def _e2e(lines, kind):
    return [ln for ln in lines if ln.startswith(kind + " ")]


def _skipped(ln):
    return "| skip-env" in ln


def _records(lines, kind):
    return [t for ln in _e2e(lines, kind) for t in ln.split("|", 1)[1].split() if t.startswith("R;")]


def _fld(t, k):
    m = re.search(r";%s=([^;]*)" % k, t)
    return m.group(1) if m else ""


def full_run(lines):
    """floors apply to generated runs only (a replay re-executes a handful of cases)"""
    return len(lines) >= 1000


def e2e_post(lines, kind, floors):
    """Scenarios whose session could not be built (no loopback ports / machine stalled during setup)
    observe nothing.  A few are tolerated and reported; more than max(3, 2 %) means the end-to-end tie
    was not exercised: the check fails.  [floors]: (description, predicate on a record, minimum) --
    what the evidence claims the e2e tie exercises must really have been exercised."""
    if not full_run(lines):
        return []
    e = _e2e(lines, kind)
    allsk = [ln for ln in e if _skipped(ln)]
    # "the driver opened a connection to a healthy node while requests ran" is not an environment failure:
    # it is counted (and capped) on its own, it does not share the cap of the scenarios that could not start
    churn = [ln for ln in allsk if "pool-changed-during-the-scenario" in ln]
    sk = [ln for ln in allsk if ln not in churn]
    if not e:
        return [("diff", kind, "diff e2e tie not exercised: the runner produced no %s scenario" % kind)]
    if len(sk) > max(3, len(e) // 50):
        return [("diff", sk[0], "diff e2e tie not exercised: %d of %d scenarios could not start (%s)"
                 % (len(sk), len(e), sk[0].split("|", 1)[1].strip()))]
    out = []
    if len(churn) > max(3, len(e) // 50):
        out.append(("diff", churn[0], "diff e2e: in %d of %d scenarios the driver's pools changed during the measured phase "
                                      "(cap %d): pool churn on healthy nodes" % (len(churn), len(e), max(3, len(e) // 50))))
    if len(e) - len(allsk) < 200:  # 260 are generated; each of the two not-run classes is capped at max(3, 2 %)
        out.append(("diff", kind, "diff e2e floor: only %d %s scenarios ran (floor 200)" % (len(e) - len(allsk), kind)))
    # the caps above tolerate a few scenarios that did not run; the shapes are scenarios like the others
    shapes = {ln.split()[1] for ln in e if not _skipped(ln) and len(ln.split()[1]) == 1}
    if len(shapes) < 11:
        out.append(("diff", kind, "diff e2e floor: only %d of the 14 fixed-shape scenarios ran (floor 11)" % len(shapes)))
    recs = _records(lines, kind)
    for what, pred, floor in floors:
        n = sum(1 for t in recs if pred(t))
        if n < floor:
            out.append(("diff", kind, "diff e2e floor: %d logical requests %s (floor %d)" % (n, what, floor)))
    return out


def _same_node_sharded(e):
    """consecutive frames of one request on one node, in scenarios whose nodes have shards"""
    n = 0
    for ln in e:
        if not re.search(r"\| env:\d+:rp\d+:sh[1-9]", ln):
            continue
        for t in ln.split("|", 1)[1].split():
            if not t.startswith("R;") or _fld(t, "fr") == "-":
                continue
            fr = [f.split("/")[0] for f in _fld(t, "fr").split(",")]
            n += sum(1 for a, b in zip(fr, fr[1:]) if a == b)
    return n


def _nframes(t):
    return 0 if _fld(t, "fr") == "-" else len(_fld(t, "fr").split(","))


E6_FLOORS = [
    ("not idempotent with a speculative policy through a pager", lambda t: _fld(t, "idem") == "0" and _fld(t, "spec") != "-" and _fld(t, "api") in ("qi", "ei"), 40),
    ("not idempotent with a speculative policy", lambda t: _fld(t, "idem") == "0" and _fld(t, "spec") != "-", 150),
    ("idempotent with a speculative policy", lambda t: _fld(t, "idem") == "1" and _fld(t, "spec") != "-", 150),
    ("with more than one frame", lambda t: _nframes(t) > 1, 300),
    ("with a cut connection", lambda t: "/drop" in t, 15),
    ("at a serial consistency", lambda t: _fld(t, "cl") in ("Serial", "LocalSerial"), 40),
    ("that failed", lambda t: _fld(t, "res").startswith("X"), 150),
    ("ended by the client-side request timeout", lambda t: _fld(t, "res") == "timeout", 10),
    ("ended by the client-side request timeout after more than one frame (a frame sent close to the timeout)",
     lambda t: _fld(t, "res") == "timeout" and _nframes(t) > 1, 6),
]


def e2e_coverage(lines, kind):
    e = _e2e(lines, kind)
    recs = _records(lines, kind)
    fld = _fld

    nfr = [0 if fld(t, "fr") == "-" else len(fld(t, "fr").split(",")) for t in recs]
    apis = {}
    for t in recs:
        apis[fld(t, "api")] = apis.get(fld(t, "api"), 0) + 1
    return {
        "e2e_scenarios": len(e),
        "e2e_scenarios_not_started_env": sum(1 for ln in e if _skipped(ln) and "pool-changed-during-the-scenario" not in ln),
        "e2e_scenarios_not_judged_pool_changed": sum(1 for ln in e if "| skip-env pool-changed-during-the-scenario" in ln),
        "e2e_logical_requests_judged": len(recs),
        "e2e_request_frames_judged": sum(nfr),
        "e2e_requests_with_more_than_one_frame": sum(1 for n in nfr if n > 1),
        "e2e_requests_per_api": apis,
        "e2e_requests_not_idempotent_with_speculative_policy": sum(
            1 for t in recs if fld(t, "idem") == "0" and fld(t, "spec") != "-"),
        "e2e_requests_idempotent_with_speculative_policy": sum(
            1 for t in recs if fld(t, "idem") == "1" and fld(t, "spec") != "-"),
        "e2e_requests_with_a_cut_connection": sum(1 for t in recs if "/drop" in t),
        "e2e_requests_with_max_retry_count_0": sum(1 for t in recs if fld(t, "spec").startswith("0:")),
        "e2e_requests_ended_by_client_timeout": sum(1 for t in recs if fld(t, "res") == "timeout"),
        "e2e_timed_out_requests_with_more_than_one_frame": sum(1 for t in recs if fld(t, "res") == "timeout" and _nframes(t) > 1),
        "e2e_scenarios_on_sharded_nodes": sum(1 for ln in e if re.search(r"\| env:\d+:rp\d+:sh[1-9]", ln)),
        "e2e_same_node_retries_on_sharded_nodes": _same_node_sharded(e),
        "e2e_in_attempt_reprepares_merged": sum(int(m.group(1)) for ln in e for m in [re.search(r"\| env:\d+:rp(\d+)", ln)] if m),
    }


KIND_FLOORS = {"X1": 30000, "X2": 60000, "X3": 800000, "F": 300000, "R": 150000}


def post(lines, verdicts):
    out = [("diff", "census " + b[:60], "diff census: " + b) for b in census()] + e2e_post(lines, "E6", E6_FLOORS)
    if full_run(lines):
        kinds = {}
        for ln in lines:
            k = ln.split(" ", 1)[0]
            kinds[k] = kinds.get(k, 0) + 1
        for k, floor in KIND_FLOORS.items():
            if kinds.get(k, 0) < floor:
                out.append(("diff", k, "diff floor: %d %s cases (floor %d)" % (kinds.get(k, 0), k, floor)))
        rp = sum(int(m.group(1)) for ln in lines if ln.startswith("E6 ") for m in [re.search(r"\| env:\d+:rp(\d+)", ln)] if m)
        if rp < 5:
            out.append(("diff", "E6", "diff e2e floor: %d in-attempt re-prepares (UNPREPARED + re-execute) observed (floor 5)" % rp))
        e6 = _e2e(lines, "E6")
        sh = sum(1 for ln in e6 if re.search(r"\| env:\d+:rp\d+:sh[1-9]", ln))
        if sh < 40:
            out.append(("diff", "E6", "diff e2e floor: %d scenarios on sharded nodes (floor 40)" % sh))
        if _same_node_sharded(e6) < 10:
            out.append(("diff", "E6", "diff e2e floor: %d same-node retries on sharded nodes (floor 10)" % _same_node_sharded(e6)))
    return out


def extra_coverage(lines, verdicts):
    lens, pols, tlens, results = {}, {}, {}, {}
    for ln in lines:
        case, _, obs = ln.partition("|")
        f = case.split()
        if not f:
            continue
        if f[0] == "E6":
            continue
        if f[0] == "F":
            o = obs.split()
            k = o.index("=>") if "=>" in o else len(o)
            tlens[k] = tlens.get(k, 0) + 1
            res = o[k + 1].split(":")[0] if k + 1 < len(o) else "?"
            results[res] = results.get(res, 0) + 1
        else:
            lens[len(f) - 2] = lens.get(len(f) - 2, 0) + 1
        if len(f) > 1:
            pols[f[1]] = pols.get(f[1], 0) + 1
    return {"census": {"enums_pinned": [n for (_, n) in CENSUS], "fiber_skeleton_tokens": len(FIBER_SKELETON),
                       "mismatches": census()},
            "history_length_histogram": {str(k): v for k, v in sorted(lens.items())},
            "real_loop_trace_length_histogram": {str(k): v for k, v in sorted(tlens.items())},
            "real_loop_results": results,
            "cases_per_policy": pols,
            **e2e_coverage(lines, "E6")}


SPEC = {
    "pid": "C06",
    "coq_targets": ["Props/C06.vo", "Extract/ExC06.vo"],
    "bin": "c06",
    "sizes": {"quick": 300000, "thorough": 6000000},
    "min_cases": {"quick": 1200000, "thorough": 6000000},
    "search_n": 2000000,
    "rule": ("X1 = exhaustive: every RequestAttemptError / DbError variant x field values "
             "{i32::MIN,-1,0,1,2,3,4,i32::MAX} x 9 write types x 11 consistencies x idempotent x 3 policies on a "
             "fresh session; X2 / X3 = every pair / triple of 37 branch representatives fed to ONE session "
             "(X3: 4 consistencies quick, 11 thorough); R = seeded random histories of length 1..8 "
             "(consistency constant / following the carried consistency / random per step; random i32 fields); "
             "each RetryDecision incl. the carried consistency is compared exactly with the model; "
             "F = the REAL execution loop (run_request_no_side_effects -> run_request_speculative_fiber, through the "
             "verif_execution hook: scripted targets sharing one idle connection, recording retry policy): every "
             "outcome stream of length <= 3 (quick) / 4 (thorough) over {conn-fail, success, 8 errors} x plan length "
             "0..3 x 4 consistencies x idempotent x 3 policies, plus every stream of length 5 over the 7 letters that make a policy go on x plan 3 x "
             "2 policies x idempotent x 2 consistencies (134 456 cases), plus seeded random streams (plan <= 5, length <= plan+4, "
             "half biased to retrying errors); events (target, consistency, error class, decision) and the result are "
             "compared exactly with the model's fiber; "
             "E6 = end to end: one seeded scenario (260 quick / 2500 thorough / 600 in search rounds; the first 14 are "
             "fixed shapes: statement not idempotent / idempotent x profile with a speculative policy / without / with max_retry_count 0, plus a "
             "non-idempotent request with a 100 ms client timeout whose Unavailable answer comes 65 ms in (the re-sent frame is unanswered at the timeout), first "
             "answer of every page delayed 300 ms and a success resp. Unavailable, through each of the 7 session APIs) = "
             "a mock cluster of 2-4 nodes (40 % with 2 or 3 shards per node and one connection per shard) + one real Session + 3-6 (quick) / 4-9 (thorough) logical requests through query_unpaged / "
             "execute_unpaged / batch / query_single_page / execute_single_page / query_iter / execute_iter (1-3 pages), "
             "idempotence flag, retry policy {Default, DowngradingConsistency, Fallthrough}, speculative policy {none, "
             "Simple(max 0-3, 30 ms)} and consistency (incl. SERIAL / LOCAL_SERIAL) taken from the statement, from an own "
             "execution profile or from the session's default profile; the mock answers the k-th frame of a page with the "
             "k-th scripted outcome (ERROR frames of the C06 error domain, unparsable ERROR body, UNPREPARED to an EXECUTE, cut "
             "connection, delay, success); 1 request in 14 carries a 100 ms client-side request timeout against a 300 ms answer (a timed-out "
             "request is judged by check_timeout; 1 in 3 of them has an Unavailable answered 85 ms in, so that the next frame is sent ~15 ms before "
             "the timeout; a frame OTHER than the first arriving more than the margin after the return is a viol); per logical "
             "request and page the frames the mock received (node, consistency, arrival / answer instants, answer) and the "
             "caller's result and coordinator must be accepted by the extracted checker e2e_check on a certificate the "
             "driver proposes (plan + outcome stream per fiber); "
             "non-trivial = every case except F cases with an empty plan or an empty stream and E6 scenarios that could "
             "not start; distinct = distinct case lines"),
    "nontrivial": lambda ln: not (ln.startswith("F ") and (len(ln.split("|")[0].split()) <= 5 or ln.split()[4] == "0"))
    and not (ln.startswith("E6 ") and _skipped(ln)),
    "trusted_base": [
        "hook scylla::policies::retry::verif_retry::request_info (constructor of the non_exhaustive RequestInfo)",
        "hook scylla::client::verif_execution (scripted AttemptTarget + run_request_once closure around the real "
        "run_request_no_side_effects; one idle Connection to a silent loopback listener; the future is polled once)",
        "the harness' recording RetryPolicy wrapper (delegates to the real session, logs error class / idempotence / consistency / decision)",
        "safe_errorb / named_unsafe_errorb are the error sets of the property text (pinned by C06_safe_set / C06_named_unsafe_set)",
        "census scanner in checks/c06.py (enum variant lists, control-flow skeleton of run_request_speculative_fiber)",
        "e2e: vh::mocknode (scripted CQL mock cluster; one trace with one clock; an answer is logged before it is written) "
        "and harness/src/e2e_attempts.rs (scenario generator, per-marker scripting handler, result / coordinator capture)",
        "e2e: the OCaml driver only PROPOSES certificates (split into fibers, plan and outcome stream per fiber); acceptance "
        "is decided by the extracted e2e_check or, for a request that ended with the client-side timeout (about 50-70 records per "
        "quick run), check_timeout, proved sound against fiber (C06_e2e_run, C06_e2e_gate, C06_e2e_fibers, C06_e2e_timeout); the one-fiber checker is also complete (C06_e2e_run_iff)",
    ],
    "assumptions": [
        "the outcome stream (connection acquisition results, attempt results) is an oracle: theorems quantify over every stream",
        "speculative execution runs several fibers, each with its own retry session (C13); C06_bound is per fiber; "
        "the hook tie (F) drives the single-fiber path; the e2e tie (E6) also runs idempotent requests with a speculative "
        "policy and judges every fiber separately (which fiber's result must be returned is C13's subject)",
        "e2e: a target skipped because its pool had no connection is invisible to the mock; the certificate may skip "
        "only nodes whose connection the mock has cut before (scripted drop)",
        "e2e: 1 request in 14 carries a 100 ms client-side request timeout (all other requests: none); 40 % of the scenarios "
        "run on nodes with 2-3 shards (one connection per shard); *_iter requests on sharded nodes fetch one page; "
        "UnableToAllocStreamId and the Percentile policy are not produced end to end",
        "e2e: scenarios that cannot start (mock / session / prepare failure, pools not settled on every (node, shard) within 20 s) or whose pools changed during the measured phase are counted "
        "not-run (skip-env) and fail the check above max(3, 2 %)",
        "new_session is pure, so creating the session lazily at the first error equals creating it up front",
    ],
    "post": post,
    "extra_coverage": extra_coverage,
}


def main(argv):
    return run_check(SPEC, argv)
