"""C01 — CQL value encoding conforms to the protocol and round-trips.

Proof stage: Props/C01.vo (50 pinned theorems + 15 pinned Examples about Model/Cql.v, Model/CqlTyped.v, Model/Vint.v).
Tie stage: harness/src/bin/c01.rs runs the real scylla-cql-core codec, ocaml/c01/driver evaluates
the extracted model; census of the Rust enums / tables the model was written from.
"""
import json
import os
import re

from orchestrate.common import run_check, ROOT, REPO

CORE = os.path.join(REPO, "scylla-cql-core", "src")

# ---- the lists the model (coq/Model/Cql.v) was written from -----------------------------------
CQLVALUE = ["Ascii", "Boolean", "Blob", "Counter", "Decimal", "Date", "Double", "Duration", "Empty", "Float",
            "Int", "BigInt", "Text", "Timestamp", "Inet", "List", "Map", "Set", "UserDefinedType", "SmallInt",
            "TinyInt", "Time", "Timeuuid", "Tuple", "Uuid", "Varint", "Vector"]
NATIVETYPE = ["Ascii", "Boolean", "Blob", "Counter", "Date", "Decimal", "Double", "Duration", "Float", "Int",
              "BigInt", "Text", "Timestamp", "Inet", "SmallInt", "TinyInt", "Time", "Timeuuid", "Uuid", "Varint"]
COLUMNTYPE = ["Native", "Collection", "Vector", "UserDefinedType", "Tuple"]
COLLECTIONTYPE = ["List", "Map", "Set"]
VEC_SIZE = {"Boolean": 1, "Double": 8, "Float": 4, "Int": 4, "BigInt": 8, "Timestamp": 8, "Timeuuid": 16, "Uuid": 16}
NOT_EMPTYABLE = ["Native(NativeType::Counter)", "Native(NativeType::Duration)", "Collection", "UserDefinedType"]
EMPTY_RULE_EXEMPT = ["Ascii", "Blob", "Text"]
# impl heads of the typed carriers the tie was written against: checks/c01_heads.json (sorted lists,
# continuation lines joined, macro invocations by their first argument)
HEADS_FILE = os.path.join(ROOT, "checks", "c01_heads.json")


def _impl_heads(path, trait):
    src = re.sub(r"//[^\n]*", "", open(path).read())
    out = []
    for m in re.finditer(r"^impl\b[^{;]*?\b" + trait + r"\b[^{;]*?\{", src, re.M | re.S):
        h = " ".join(m.group(0)[:-1].split())
        if re.search(r"\b" + trait + r"(<[^>]*>)?\s+for\b", h):
            out.append(h)
    for m in re.finditer(r"^(impl_\w+!)\(\s*([^,]+?),", src, re.M):
        out.append(m.group(1) + " " + " ".join(m.group(2).split()))
    for m in re.finditer(r"^(impl_tuples!|impl_tuple_multiple!)\(", src, re.M):
        out.append(m.group(1))
    return sorted(out)


def _enum_variants(src, name):
    m = re.search(r"pub enum " + name + r"\b[^{]*\{(.*?)\n\}", src, re.S)
    if not m:
        return None
    body = re.sub(r"/\*.*?\*/", "", m.group(1), flags=re.S)
    out = []
    depth = 0
    for line in body.splitlines():
        line = line.split("//")[0].strip()
        if depth == 0:
            mm = re.match(r"([A-Z][A-Za-z0-9]*)\b", line)
            if mm and not line.startswith("#"):
                out.append(mm.group(1))
        depth += line.count("{") + line.count("(") - line.count("}") - line.count(")")
    return out


def _coq_constructors(src, name):
    m = re.search(r"Inductive " + name + r" :=(.*?)\.\n", src, re.S)
    body = re.sub(r"\(\*.*?\*\)", "", m.group(1), flags=re.S)
    return re.findall(r"\|\s*([A-Za-z_0-9]+)", body)


def census():
    """Structural ties: a new constructor / table row in the Rust source cannot appear without the
    model being revisited.  Returns a list of mismatch descriptions (empty = in step)."""
    bad = []
    value_rs = open(os.path.join(CORE, "value.rs")).read()
    result_rs = open(os.path.join(CORE, "frame/response/result.rs")).read()
    ser_rs = open(os.path.join(CORE, "serialize/value.rs")).read()
    de_rs = open(os.path.join(CORE, "deserialize/value.rs")).read()
    model = open(os.path.join(ROOT, "coq/Model/Cql.v")).read()

    for name, src, want in (("CqlValue", value_rs, CQLVALUE), ("NativeType", result_rs, NATIVETYPE),
                            ("ColumnType", result_rs, COLUMNTYPE), ("CollectionType", result_rs, COLLECTIONTYPE)):
        got = _enum_variants(src, name)
        if got != want:
            bad.append(f"enum {name}: source has {got}, model was written from {want}")
    # the model's own constructor lists against the same lists
    cv = [c[1:] for c in _coq_constructors(model, "cval")]
    if [c.lower() for c in cv] != [("udt" if c == "UserDefinedType" else c).lower() for c in CQLVALUE]:
        bad.append(f"Coq cval constructors {cv} do not mirror CqlValue")
    nt = [c[1:] for c in _coq_constructors(model, "ntype")]
    if nt != NATIVETYPE:
        bad.append(f"Coq ntype constructors {nt} do not mirror NativeType")
    # type_size_for_vector table
    m = re.search(r"impl NativeType \{.*?pub fn type_size_for_vector.*?match self \{(.*?)\n        \}", result_rs, re.S)
    table = dict((k, None if v == "None" else int(v[5:-1]))
                 for k, v in re.findall(r"NativeType::(\w+) => (None|Some\(\d+\))", m.group(1))) if m else {}
    want = {n: VEC_SIZE.get(n) for n in NATIVETYPE}
    if table != want:
        bad.append(f"type_size_for_vector table changed: {table}")
    coq_tab = dict(re.findall(r"\| N(\w+) => Some (\d+)", re.search(r"Definition native_vec_size.*?end\.", model, re.S).group(0)))
    if {k: int(v) for k, v in coq_tab.items()} != VEC_SIZE:
        bad.append(f"Coq native_vec_size {coq_tab} differs from the pinned table")
    # supports_special_empty_value
    m = re.search(r"pub fn supports_special_empty_value.*?match self \{(.*?)=> false", result_rs, re.S)
    arms = re.findall(r"ColumnType::([A-Za-z:()]+?)(?: \{ \.\. \})?\s*(?:\||$)", m.group(1).strip(), re.M) if m else []
    if sorted(arms) != sorted(NOT_EMPTYABLE):
        bad.append(f"supports_special_empty_value arms changed: {arms}")
    # the empty-cell rule of CqlValue::deserialize
    m = re.search(r"if frame_slice\.as_slice\(\)\.is_empty\(\) \{\s*match typ \{\s*(.*?)=>", de_rs, re.S)
    ex = re.findall(r"Native\((\w+)\)", m.group(1)) if m else []
    if ex != EMPTY_RULE_EXEMPT:
        bad.append(f"empty-cell rule exemptions changed: {ex}")
    # carriers: the named list of impl heads
    want_heads = json.load(open(HEADS_FILE))
    for key, path, trait in (("serialize", "serialize/value.rs", "SerializeValue"),
                             ("deserialize", "deserialize/value.rs", "DeserializeValue")):
        got = _impl_heads(os.path.join(CORE, path), trait)
        if got != want_heads[key]:
            added = [h for h in got if h not in want_heads[key]]
            gone = [h for h in want_heads[key] if h not in got]
            bad.append(f"{trait} impl heads changed: added {added} removed {gone}")
    return bad


# per-kind floors (fraction of the tier size) and directed-case floors: a runner that silently stops
# emitting a kind, or a generator that stops reaching a class of inputs, is a broken correspondence
KIND_FLOOR = {"R": 0.40, "T": 0.30, "D": 0.035, "E": 0.02, "N": 0.03, "V": 0.012, "Q": 0.006}
MAPPED = "00000000000000000000ffff"


def floors(lines, verdicts):
    bad = []
    if len(lines) < 1000:          # replay / corpus-only runs
        return bad
    n = len(lines)
    kinds = {}
    for ln in lines:
        k = ln.split(" ", 1)[0]
        kinds[k] = kinds.get(k, 0) + 1
    for k, frac in KIND_FLOOR.items():
        if kinds.get(k, 0) < frac * n:
            bad.append(f"only {kinds.get(k, 0)} cases of kind {k} (< {frac:.3f} of {n})")
    def count(pred):
        return sum(1 for ln in lines if pred(ln))
    checks = [
        ("IPv4-mapped inet through the dynamic path", 20, lambda l: l.startswith("R ") and "inet:" + MAPPED in l),
        ("IPv4-mapped inet through typed carriers", 10, lambda l: l.startswith("T ") and "inet:" + MAPPED in l),
        ("typed carriers exercised", 0, None),
        ("vector element with a >= 3-byte vint length", 1, lambda l: l.startswith("R V(blob;3)") and len(l) > 60000),
        ("collection with >= 256 elements", 2, lambda l: l.count(";") >= 256 and l[:2] in ("R ", "T ")),
        ("short tuples", 50, lambda l: l.startswith("R ") and "tuple(" in l),
        ("typed null / unset vector elements", 20, lambda l: l.startswith("V ") and ("null" in l.split("|")[0] or "unset" in l.split("|")[0])),
        ("typed null list elements", 20, lambda l: l.startswith("Q ") and "null" in l.split("|")[0]),
        ("decode errors on corrupted bytes", 200, lambda l: l.startswith("D ") and "| err:" in l),
        ("9-byte vints", 6, lambda l: l.startswith("N ") and l.split("|")[1].strip().startswith("ff")),
    ]
    for name, floor, pred in checks:
        if pred is not None and count(pred) < floor:
            bad.append(f"floor not reached: {name}: {count(pred)} < {floor}")
    # the typed model (Model/CqlTyped.v) must really have been compared on most T cases and on the E cases
    nT = kinds.get("T", 0)
    tm = sum(1 for ln, v in zip(lines, verdicts) if ln.startswith("T ") and v and (v == "ok tm" or v.startswith("ok tm ")))
    if tm < 0.6 * nT:
        bad.append(f"typed model compared on only {tm} of {nT} T cases")
    e_cmp = sum(1 for ln, v in zip(lines, verdicts) if ln.startswith("E ") and v == "ok")
    if e_cmp < 0.8 * kinds.get("E", 0):
        bad.append(f"typed decoders compared on only {e_cmp} of {kinds.get('E', 0)} E cases")
    e_nullelem = count(lambda l: l.startswith("E ") and re.search(r"\| ok:[a-z]+\(.*null", l) is not None)
    if e_nullelem < 150:
        bad.append(f"typed decoders: only {e_nullelem} E cases decode a collection with a null element (< 150)")
    q_set = count(lambda l: re.match(r"^Q \S+ \S+ 1 ", l) is not None)
    q_list = count(lambda l: re.match(r"^Q \S+ \S+ 0 ", l) is not None)
    if q_set < 200 or q_list < 200:
        bad.append(f"Q cases bound to a set / list: {q_set} / {q_list} (< 200)")
    e_null = count(lambda l: l.startswith("E ") and " ffffffff |" in l)
    e_err = count(lambda l: l.startswith("E ") and "| err:" in l and "err:TypeCheck" not in l)
    if e_null < 100 or e_err < 300:
        bad.append(f"typed decoders: {e_null} null-cell cases (< 100) or {e_err} decode errors (< 300)")
    carriers = {ln.split(" ")[1] for ln in lines if ln.startswith("T ")}
    if len(carriers) < 140:
        bad.append(f"only {len(carriers)} typed carriers exercised (< 140)")
    arities = {c.count(",") + 1 for c in carriers if c.startswith("(") and not c.endswith(",)")} | ({1} if any(c.endswith(",)") for c in carriers) else set())
    if not set(range(1, 17)) <= arities:
        bad.append(f"tuple arities exercised: {sorted(arities)} (want 1..16)")
    for needed in ("RefStr", "CowStr", "BoxStr", "ArcStr", "RefSlice", "VarintB", "DecimalB", "IpAddr", "Option<IpAddr>",
                   "secrecy_10::SecretString", "secrecy_10::SecretSlice<i32>"):
        if needed not in carriers:
            bad.append(f"carrier {needed} not exercised")
    return bad


def post(lines, verdicts):
    out = [("diff", "census", "diff census: " + b) for b in census()]
    out += [("diff", "coverage-floor", "diff floor: " + b) for b in floors(lines, verdicts)]
    return out


def _depth(s):
    d = m = 0
    for ch in s:
        if ch == "(":
            d += 1
            m = max(m, d)
        elif ch == ")":
            d -= 1
    return m


def extra_coverage(lines, verdicts):
    cov = {"type_depth_histogram": {}, "carriers": 0, "ser_ok": 0, "ser_err": 0, "deser_err": 0,
           "outside_quantifier_accepted_not_read_back": sum(1 for v in verdicts if v and v.startswith("ok obs=")),
           "typed_model_compared_T": sum(1 for ln, v in zip(lines, verdicts) if ln.startswith("T ") and v and (v == "ok tm" or v.startswith("ok tm "))),
           "typed_decoder_E_null_elements": sum(1 for ln in lines if ln.startswith("E ") and re.search(r"\| ok:[a-z]+\(.*null", ln)),
           "Q_bound_to_set": sum(1 for ln in lines if re.match(r"^Q \S+ \S+ 1 ", ln)),
           "typed_decoder_E_compared": sum(1 for ln, v in zip(lines, verdicts) if ln.startswith("E ") and v == "ok"),
           "ipv4_mapped_inet_cases": sum(1 for ln in lines if "inet:" + MAPPED in ln),
           "known_class_hits": {}, "census": "in step" if not census() else "MISMATCH"}
    carriers = set()
    for ln, v in zip(lines, verdicts):
        f = ln.split(" ")
        if f[0] in ("R", "T"):
            t = f[1] if f[0] == "R" else f[2]
            d = str(_depth(t))
            cov["type_depth_histogram"][d] = cov["type_depth_histogram"].get(d, 0) + 1
            if f[0] == "T":
                carriers.add(f[1])
            out = ln.split("|", 1)[1].split() if "|" in ln else []
            if out and out[0].startswith("ok:"):
                cov["ser_ok"] += 1
                if len(out) > 1 and out[1].startswith("err:"):
                    cov["deser_err"] += 1
            elif out:
                cov["ser_err"] += 1
        if v:
            m = re.search(r"class=([\w-]+)", v)
            if m:
                cov["known_class_hits"][m.group(1)] = cov["known_class_hits"].get(m.group(1), 0) + 1
    cov["carriers"] = len(carriers)
    return cov


SPEC = {
    "pid": "C01",
    "coq_targets": ["Props/C01.vo", "Extract/ExC01.vo"],
    "bin": "c01",
    "sizes": {"quick": 150000, "thorough": 3000000},
    "search_n": 400000,
    "min_cases": {"quick": 140000, "thorough": 2800000},
    "rule": ("fixed part: every vint length class boundary (2^k, 2^k +- 1, both signs), every native type x {empty, null, unset}, "
             "directed inet addresses (IPv4-mapped / -compatible, ::, ::1, all ones, v4 extremes) through the dynamic path and the "
             "typed carriers, long payloads (3-byte vint element lengths) and wide collections; then seeded random cases, type nesting "
             "depth <= 4 (quick) / 6 (thorough): R = (column type, cell) through SerializedValues::add_value(&CqlValue) and "
             "Option<CqlValue>::deserialize (40% values of the type incl. boundary numerics, NaN payloads, non-normalised varints, "
             "short tuples/UDTs, nulls at every position, empty cells; 8% with type/arity/name mismatches); T = the same through one "
             "of 143 typed Rust carriers, compared with the model of the dynamic path AND with the typed model (verdict ok tm); V/Q = "
             "Vec<MaybeUnset<Option<MaybeEmpty<T>>>> bound to vector / list or set (Q: 4th field 0 = list, 1 = set); E = a typed carrier's own "
             "decoder on intact / corrupted / random bytes, null cells, zero-length cells and (directed) collections with null ELEMENTS "
             "against typed_read, carrier values printed on both sides with nulls inside collections (no result is accepted unseen); D = the dynamic decoder on truncated / corrupted / "
             "random bytes; N = vint codec.  Corpus cases (F13 witnesses, F2/F14 witnesses) are appended.  non-trivial = every case "
             "except R/T lines whose cell is a bare null/unset; distinct = distinct case lines"),
    "nontrivial": lambda ln: not re.match(r"^(R \S+|T \S+ \S+) (null|unset) \|", ln),
    "post": post,
    "extra_coverage": extra_coverage,
    "trusted_base": [
        "enc_spec (Model/Cql.v section 7) and spec_uvint / spec_zigzag (Model/Vint.v) are the wire format transcribed by "
        "hand from native_protocol_v4.spec sections 3 and 6, native_protocol_v5.spec ([vint], duration) and the "
        "Cassandra 5 / ScyllaDB vector format; the set of types that admit the legacy empty value is ScyllaDB's",
        "hooks scylla_cql_core::frame::types::verif_vint (pass-through to the crate-private vint codec) and "
        "scylla_cql_core::value::verif_extern (re-export of chrono/time/num-bigint/bigdecimal/secrecy for the harness)",
        "typed carriers: 20 leaf families, wrappers, collections and tuples are modelled (Model/CqlTyped.v) and proved to write / read "
        "what the dynamic value they embed into writes / reads, plain carriers reading back the very value written (C01_typed_write/_read/_roundtrip/_roundtrip_exact; with nulls anywhere inside: C01_typed_roundtrip_cells), and that model is tied on the T "
        "and E cases; bigdecimal, chrono and time carriers are tied by differential execution against the dynamic model only; "
        "the case line carries the carrier value as its embedded cell after a round trip through the carrier "
        "(from_cell . to_cell in the runner) - trusted harness code; HashSet/HashMap carriers are compared up to element order, "
        "BTree / Hash decode results up to order and duplicates",
        "checks/c01.py census (enum variants, type_size_for_vector, supports_special_empty_value, empty-cell rule, the named lists of SerializeValue / DeserializeValue impl heads in checks/c01_heads.json)",
    ],
    "assumptions": [
        "usize is 64 bits (u64 -> usize of a vector element length never fails); type_size_for_vector products do not overflow usize",
        "cells >= 2^31 bytes / collections >= 2^31 elements are covered by the model (SizeOverflow / TooManyElements) and by "
        "C01_ser_total, not by the tie",
        "known finding classes (open): vector-null-element (F2), empty-tuple (F14); the round-trip and conformance theorems "
        "carry the corresponding ~KnownClass premises and *_refuted witnesses",
    ],
}


def main(argv):
    return run_check(SPEC, argv)
