from orchestrate.common import run_check

import re


def _impl(ln):
    p = ln.split("|", 1)
    return p[1].split() if len(p) > 1 else []


def _skipped(ln, v=None):
    o = _impl(ln)
    return (not o) or o[0].startswith("skip:") or o[0] == "unsettled" or (v is not None and v.startswith("ok skipped"))


def _cluster_key(ln):
    f = ln.split("|")[0].split()
    return " ".join(f[1:5]) if f and f[0] == "K" and len(f) == 8 else None


def _cluster_class(key):
    """configuration class of a cluster for the per-class bound on not-run scenarios"""
    f = key.split()
    nodes = f[0].split(",")
    cfg = f[3].split("/")
    return "%s/nosap=%s/stopped=%d/down=%d/filtered=%d" % (
        cfg[0][0], cfg[1], any(x.split(".")[4] == "a" for x in nodes),
        any(x.split(".")[4] == "b" for x in nodes), any(x.split(".")[5] == "1" for x in nodes))


def _migration(hist):
    """the history re-announces a tablet (same range, same hosts) with a changed shard"""
    seen = {}
    for o in hist.split(";"):
        if not o.startswith("L"):
            continue
        a, b, reps = o[1:].split(":")
        hosts = tuple(sorted(r.split("=")[0] for r in reps.split("+"))) if reps != "_" else ()
        k = (a, b, hosts)
        if k in seen and seen[k] != reps:
            return True
        seen[k] = reps
    return False


def _nts_gap(f):
    """a non-LWT request without datacenter preference on an NTS keyspace that does not list a datacenter of the
    cluster, while some node is down or stopped (the slow path of choose_filtered must walk past the unlisted
    datacenter; seeded change C12-3)"""
    nodes = [x.split(".") for x in f[1].split(",")]
    st = f[5].split("/")
    cfg = f[4].split("/")
    kss = f[3].split(";")
    ks = int(st[0].split(".")[0], 16)
    if ks >= len(kss) or not kss[ks].startswith("N") or kss[ks].endswith("/1") or st[2] == "1" or st[3] == "1":
        return False
    listed = {e.split("=")[0] for e in kss[ks][1:].rsplit("/", 1)[0].split("+") if e}
    dcs = {x[0] for x in nodes}
    pref_any = cfg[2][0] == "a" or (cfg[2][0] == "i" and cfg[6][0] == "a")
    return len(dcs) >= 3 and bool(dcs - listed) and any(x[4] != "u" for x in nodes) and pref_any and cfg[3] == "1"


def _kinds(lines, verdicts):
    c = {}
    for ln, v in zip(lines, verdicts):
        m = re.search(r"kind=([\w-]+)", v or "")
        if m:
            c[m.group(1)] = c.get(m.group(1), 0) + 1
            if m.group(1) == "refill":
                if ";b" in ln:
                    c["refill-after-connection-loss"] = c.get("refill-after-connection-loss", 0) + 1
                if " trimmed=0" not in v:
                    c["refill-with-trimmed-excess"] = c.get("refill-with-trimmed-excess", 0) + 1
                if " reshards=0" not in v:
                    c["refill-after-reshard"] = c.get("refill-after-reshard", 0) + 1
                if " reqdrop=0" not in v:
                    c["refill-dropping-requested-surplus"] = c.get("refill-dropping-requested-surplus", 0) + 1
            if " own=1 part=1" in v:
                c["owner-shard-in-partial-pool"] = c.get("owner-shard-in-partial-pool", 0) + 1
            if m.group(1) == "tablet-replica" and _migration(ln.split("|")[0].split()[6]):
                c["tablet-replica-after-shard-migration"] = c.get("tablet-replica-after-shard-migration", 0) + 1
            f = ln.split("|")[0].split()
            if m.group(1).endswith("-replica") and len(f) == 8 and (f[5].split("/")[2] == "1" or f[5].split("/")[3] == "1"):
                c["lwt-replica"] = c.get("lwt-replica", 0) + 1
            if m.group(1) == "ring-replica" and len(f) == 8 and _nts_gap(f):
                c["nts-unlisted-dc-with-unreachable-replica"] = c.get("nts-unlisted-dc-with-unreachable-replica", 0) + 1
    return c


# fractions of the judged lines that a full-size run must reach (a run that does not exercise what the
# evidence claims is reported as broken correspondence)
_FLOORS = {"ring-replica": 0.15, "tablet-replica": 0.03, "pool-probe": 0.04, "ring-no-usable-replica": 0.03,
           "tablet-unknown-token": 0.03, "tablet-no-usable-replica": 0.003, "not-token-aware": 0.02,
           "lwt-replica": 0.02, "owner-shard-in-partial-pool": 0.002, "tablet-replica-after-shard-migration": 0.002,
           "refill": 0.007, "refill-after-connection-loss": 0.001, "refill-with-trimmed-excess": 0.0001,
           "nts-unlisted-dc-with-unreachable-replica": 0.01, "refill-after-reshard": 0.0003, "refill-dropping-requested-surplus": 0.00008}


def _post(lines, verdicts):
    """Environment trouble (mock cluster / session did not start, pools not established, tablet feedback not
    observed, harness timeout, connections changing under a request) is a counted NOT-RUN, never a violation:
    tolerated up to max(5, 2 %) of the lines, at most max(3, 3 %) of the clusters may fail to be set up, and per
    configuration class (pool kind x shard-aware port x stopped / down / filtered nodes; classes of fewer than 8
    clusters pooled into "other") at most max(1, 25 %) of the clusters may contain a not-run line, so that a defect
    which keeps one kind of scenario from settling cannot hide."""
    out = []
    sk = [ln for ln, v in zip(lines, verdicts) if _skipped(ln, v)]
    if len(sk) > max(5, len(lines) * 2 // 100):
        out.append(("diff", sk[0], "diff e2e tie not exercised: %d of %d requests not run (%s)"
                    % (len(sk), len(lines), " ".join(_impl(sk[0])[:1]))))
    per = {}
    for ln, v in zip(lines, verdicts):
        k = _cluster_key(ln)
        if k is None:
            continue
        cl = per.setdefault(_cluster_class(k), {})
        cl[k] = cl.get(k, False) or _skipped(ln, v)
    # classes of fewer than 8 clusters are pooled into one class "other" (same bound)
    pooled = {}
    for cls, clusters in per.items():
        pooled.setdefault(cls if len(clusters) >= 8 else "other", {}).update(clusters)
    for cls, clusters in sorted(pooled.items()):
        bad = [k for k, s in clusters.items() if s]
        if len(bad) > max(1, len(clusters) // 4):
            ex = next(ln for ln, v in zip(lines, verdicts) if _cluster_key(ln) == bad[0] and _skipped(ln, v))
            out.append(("diff", ex, "diff e2e tie not exercised for configuration class %s: %d of %d clusters had requests not run"
                        % (cls, len(bad), len(clusters))))
    # a cluster that could not be set up leaves ONE line: bound the clusters, not only the lines
    allc = {k for cl in per.values() for k in cl}
    notstarted = [ln for ln, v in zip(lines, verdicts) if ln.startswith("K ") and _skipped(ln, v) and _impl(ln) and _impl(ln)[0].startswith("skip:")
                  and ln.split("|")[0].split()[-1] == "n" and ln.split("|")[0].split()[6] == "-"]
    if len(notstarted) > max(3, len(allc) * 3 // 100):
        out.append(("diff", notstarted[0], "diff e2e tie not exercised: %d of %d clusters could not be set up" % (len(notstarted), len(allc))))
    judged = len(lines) - len(sk)
    if len(lines) >= 5000:                      # a full-size run (not a replay)
        kinds = _kinds(lines, verdicts)
        for k, frac in _FLOORS.items():
            if kinds.get(k, 0) < frac * judged:
                out.append(("diff", lines[0], "diff coverage floor: only %d judged requests of kind %s (floor %d of %d)"
                            % (kinds.get(k, 0), k, int(frac * judged), judged)))
    return out


def _cov(lines, verdicts):
    c = {"requests": len(lines), "skipped": 0, "clusters": 0, "first_frame_seen": 0, "nothing_sent": 0,
         "with_tablet_history": 0, "tablet_keyspace": 0, "clusters_with_down_node": 0, "clusters_with_filtered_node": 0,
         "lwt_or_serial": 0, "cdc_partitioner": 0, "unknown_keyspace": 0, "per_host_pool": 0,
         "shard_aware_port_disallowed": 0, "token_awareness_off": 0, "unsharded_node_in_cluster": 0,
         "policy_pref": {}, "nodes": {}, "key_columns": {}, "exercised": {}}
    seen = set()
    for ln, v in zip(lines, verdicts):
        if _skipped(ln, v):
            c["skipped"] += 1
            continue
        f = ln.split("|")[0].split()
        o = _impl(ln)
        if len(f) != 8:
            continue
        pass
        key = " ".join(f[1:5])
        nodes = f[1].split(",")
        if key not in seen:
            seen.add(key)
            c["clusters"] += 1
            c["clusters_with_down_node"] += any(x.split(".")[4] != "u" for x in nodes)
            c["clusters_with_filtered_node"] += any(x.split(".")[5] == "1" for x in nodes)
            c["nodes"][str(len(nodes))] = c["nodes"].get(str(len(nodes)), 0) + 1
        cfg = f[4].split("/")
        st = f[5].split("/")
        c["first_frame_seen"] += ":" in o[0]
        c["nothing_sent"] += o[0] == "none"
        c["with_tablet_history"] += f[6] != "-"
        ks = st[0].split(".")[0]
        kss = f[3].split(";")
        c["unknown_keyspace"] += int(ks, 16) >= len(kss)
        if int(ks, 16) < len(kss):
            c["tablet_keyspace"] += kss[int(ks, 16)].endswith("/1")
        c["lwt_or_serial"] += st[2] == "1" or st[3] == "1"
        c["cdc_partitioner"] += st[1] == "c"
        c["per_host_pool"] += cfg[0].startswith("H")
        c["shard_aware_port_disallowed"] += cfg[1] == "1"
        c["token_awareness_off"] += cfg[3] == "0"
        c["unsharded_node_in_cluster"] += any(x.split(".")[2] == "0" for x in nodes)
        c["policy_pref"][cfg[2][0]] = c["policy_pref"].get(cfg[2][0], 0) + 1
        npk = sum(1 for m in st[4].split(",") if not m.endswith("-"))
        c["key_columns"][str(npk)] = c["key_columns"].get(str(npk), 0) + 1
    c["exercised"] = _kinds(lines, verdicts)
    c["pool_probes"] = sum(1 for ln in lines if ln.startswith("P "))
    c["refiller_histories"] = sum(1 for ln in lines if ln.startswith("R "))
    c["clusters_with_tokenless_node"] = len({_cluster_key(ln) for ln in lines if _cluster_key(ln) and
                                            any(str(i + 1) not in {e.rsplit(":", 1)[1] for e in ln.split()[2].split(",")}
                                                for i in range(len(ln.split()[1].split(","))))} )
    c["requests_with_host_twice_in_a_tablet"] = sum(1 for ln in lines if ln.startswith("K ") and len(ln.split()) > 6 and any(
        len([r.split("=")[0] for r in o.split(":")[2].split("+")]) != len({r.split("=")[0] for r in o.split(":")[2].split("+")})
        for o in ln.split()[6].split(";") if o.startswith("L") and o.count(":") == 2))
    return {"e2e": c}


SPEC = {
    "pid": "C12",
    "coq_targets": ["Props/C12.vo", "Extract/ExC12.vo"],
    "bin": "c12",
    # --n = number of mock clusters; quick: 100 requests per cluster (+ ~34 probe lines, ~3.4 refiller lines), thorough: 240
    "sizes": {"quick": 300, "thorough": 3000},
    "min_cases": {"quick": 30000, "thorough": 700000},
    "search_n": 600,
    "search_rounds": 1,
    "runner_timeout": 9000,
    "rule": ("one case = one execution (execute_unpaged / execute_single_page / first page of execute_iter) of a prepared statement with a bound partition key by a real Session against a "
             "mocknode cluster: 1-6 nodes x 1-3 datacenters x 1-3 racks, 1-4 vnodes, shard counts 1-8 / unsharded / mixed, "
             "msb 0/1/4/12, nodes down before the session or stopped after the pools filled, nodes rejected by a HostFilter; "
             "2-4 keyspaces (SimpleStrategy RF 0..n+1, NTS incl. RF 0 and absent datacenters, Local, unknown class, a third of them "
             "tablet based); pool PerShard(1-2) / PerHost(1-4), shard-aware port allowed or not; DefaultPolicy with inherit / none / "
             "datacenter / datacenter+rack preference (incl. absent ones), token awareness on/off, failover on/off, shuffling on/off, "
             "session-level preference; 1-3 statements per cluster with 1-3 key columns (int, bigint, text, blob) among 0-2 other "
             "markers (values or null) in permuted order, confirmed LWT, Serial consistency, CDC partitioner, a keyspace the driver does not know; "
             "tablets delivered through tablets-routing-v1 payloads of real responses (ring partitions, tablets aimed at the keys' "
             "tokens, overlapping ones, unknown hosts, shards out of range / not fitting u16, refused payloads, refresh_metadata in "
             "between) also for tables of keyspaces that are not tablet based; quick 100 / thorough 240 requests per cluster. "
             "The pools are ESTABLISHED, not assumed: after the connection counts on the mock equal the configured pool size and "
             "Node::is_connected agrees, every live connection must have served a probe request aimed at its node and shard "
             "(so the driver has certainly published it); before and after every request the set of live connections must be "
             "that established set, else the request is not judged; "
             "the observation is the (node, server-side shard) at which the first EXECUTE frame of the request arrived. "
             "R lines = the refiller tie: at the end of a cluster's life, per node, the history of pool connections completing "
             "their handshake (server-side shard, shard-aware port or not) and being cut by the mock (kill rounds between "
             "statements: one / some / all connections of a node, preceded by raw TCP connections that shift the mock's plain-port "
             "round-robin so that replacements land on covered shards and become excess connections, or by a change of the node's "
             "shard count (resharding: the replacement connections report the new count, the driver rebuilds the pool; with several "
             "replacements under way towards a node that now has 1-2 shards the surplus of a requested connection is dropped); "
             "one cluster in twenty is shaped so that its first round always drops the surplus of requested connections "
             "(8 -> 2 shards, all but one connection cut) and one in twenty so that it always fills and trims the excess list "
             "(4 shards, plain port, one connection cut after a round-robin shift of one); the history also records the pool "
             "connections the CLIENT closed, which must be, as a multiset of (shard, shard count), the ones the model lets go; "
             "one cluster in twenty has 3-4 datacenters in a fixed ring order, a single NetworkTopologyStrategy keyspace that lists "
             "only the first and the last of them, the first datacenter's node down, no preferred datacenter and no LWT statement "
             "(every token then has one unreachable and one reachable replica, with unlisted datacenters between them); "
             "then the pools are re-established by probing), and the pool "
             "that was finally established; the extracted refiller model run over that history must end with that pool. "
             "Tablet histories interleave payloads of the cluster's tables, include split / merge sequences and tablets listing a "
             "host twice; one in eight of the clusters with >= 3 nodes (~8 % of all) has a node without tokens. "
             "P lines = the pool tie: while establishing the pools every (node, shard), shard = nr_shards and shard 70000 is "
             "probed through a pinning policy and the server-side shard of the serving connection is recorded. "
             "non-trivial = a first frame was seen / a probe; distinct = distinct case lines; requests not run for environmental "
             "reasons (scenario could not be set up after one retry, pools not established, connections changed under the request, "
             "harness timeout after one retry, abandoned probe) are counted and bounded: max(5, 2%) of the lines, max(3, 3%) of the "
             "clusters not set up, and max(1, 25%) of the clusters of a configuration class (classes < 8 clusters pooled); "
             "per-kind coverage floors are enforced on full-size runs"),
    "nontrivial": lambda ln: (ln.startswith("P ") or ln.startswith("R ") or ":" in (_impl(ln) or ["-"])[0]) and not _skipped(ln),
    "extra_coverage": _cov,
    "post": _post,
    "trusted_base": [
        "vh::mocknode (scripted CQL v4 mock cluster, own codec): the server-side shard of every connection "
        "(source_port % nr_shards on the shard-aware port, round-robin on the plain port), the trace of received frames, "
        "the synthesised system tables, the tablets-routing-v1 payload encoder",
        "the pool contents handed to the acceptor are the mock's live non-control connections, each of which has served a probe "
        "aimed at its (node, shard) through a pinning LoadBalancingPolicy and none of which appeared or vanished around the request",
        "spec_replicas (C04), spec_shard_of (C11), spec_token (C03) and the tablet history semantics (C15) are the "
        "specifications of the composed slices; route_prop is the property text transcribed over them",
    ],
    "assumptions": [
        "liveness is a snapshot: no node changes state between the snapshot and the request (the runner waits for stability)",
        "latency awareness, custom load balancing policies, speculative execution and retries are outside (never enabled; "
        "FallthroughRetryPolicy), so one logical request = one EXECUTE frame",
        "random choices of the driver (replica choice, shuffles, rotation, random shard, random connection of a slot) are "
        "oracles: every theorem quantifies over them and the tie uses the acceptor route_ok, proved sound (accepted => property) "
        "and complete for the model (every oracle's outcome is accepted)",
        "cluster_ok / sorted_weak / tablets_coherent are hypotheses of the model theorems that C12_shard, C04_ring and "
        "C12_tablets_reachable show of every state the modelled code can reach; keys_ok (an NTS map has one entry per datacenter), "
        "cho_ok and shuf_ok (drawn indices in range, shuffles are permutations) are assumed; the driver re-checks its cluster "
        "description with cluster_wfb, which for the description as the driver builds it (pool_of, assoc_pool) is exactly "
        "cluster_ok (C12_cluster_wfb_assoc_ok, C12_cluster_wfb_complete, C12_pool_wfb_iff, C12_pool_of_sharded_has)",
        "the refiller tie replays the connection events the mock saw; inside a burst of consecutive handshakes the order in which "
        "the driver handled connections of the same shard is read off the closes (the one held longer was handled earlier); it compares the final "
        "shards per slot and the multiset of (shard, shard count) of the connections the client closed with the model's released "
        "connections; it cannot tell a surplus connection dropped at once from one kept in the excess list and trimmed later; the "
        "excess limit (10 x shard count) is not reached by it",
        "prop_obs_ok is handed the specification's token (C03 spec_token) only when it equals the token of the request "
        "(otherwise the verdict is `diff token-differs-from-specification`); with that token it is route_prop for the "
        "observation (C12_prop_obs_complete, C12_prop_obs_sound)",
    ],
}


def main(argv):
    return run_check(SPEC, argv)
