from orchestrate.common import run_check

import re


def _impl(ln):
    p = ln.split("|", 1)
    return p[1].split() if len(p) > 1 else []


def _skipped(ln, v=None):
    o = _impl(ln)
    return (not o) or o[0].startswith("skip:") or o[0] == "unsettled" or (v is not None and v.startswith("ok skipped"))


def _post(lines, verdicts):
    """Requests whose scenario could not be set up (mock cluster / session did not start, pools did not
    settle, tablet feedback not observed) observe nothing.  A few are tolerated and counted; more than
    max(5, 3 %) means the tie was not exercised and the check must fail."""
    sk = [ln for ln, v in zip(lines, verdicts) if _skipped(ln, v)]
    if len(sk) > max(5, len(lines) * 3 // 100):
        return [("diff", sk[0], "diff e2e tie not exercised: %d of %d requests skipped (%s)"
                 % (len(sk), len(lines), " ".join(_impl(sk[0])[:1])))]
    return []


def _cov(lines, verdicts):
    c = {"requests": len(lines), "skipped": 0, "clusters": 0, "first_frame_seen": 0, "nothing_sent": 0,
         "with_tablet_history": 0, "tablet_keyspace": 0, "clusters_with_down_node": 0, "clusters_with_filtered_node": 0,
         "lwt_or_serial": 0, "cdc_partitioner": 0, "unknown_keyspace": 0, "per_host_pool": 0,
         "shard_aware_port_disallowed": 0, "token_awareness_off": 0, "unsharded_node_in_cluster": 0,
         "policy_pref": {}, "nodes": {}, "key_columns": {}, "exercised": {}}
    seen = set()
    for ln, v in zip(lines, verdicts):
        if _skipped(ln, v):
            c["skipped"] += 1
            continue
        f = ln.split("|")[0].split()
        o = _impl(ln)
        if len(f) != 8:
            continue
        m = re.search(r"kind=([\w-]+)", v or "")
        if m:
            c["exercised"][m.group(1)] = c["exercised"].get(m.group(1), 0) + 1
        key = " ".join(f[1:5])
        nodes = f[1].split(",")
        if key not in seen:
            seen.add(key)
            c["clusters"] += 1
            c["clusters_with_down_node"] += any(x.split(".")[4] != "u" for x in nodes)
            c["clusters_with_filtered_node"] += any(x.split(".")[5] == "1" for x in nodes)
            c["nodes"][str(len(nodes))] = c["nodes"].get(str(len(nodes)), 0) + 1
        cfg = f[4].split("/")
        st = f[5].split("/")
        c["first_frame_seen"] += ":" in o[0]
        c["nothing_sent"] += o[0] == "none"
        c["with_tablet_history"] += f[6] != "-"
        ks = st[0].split(".")[0]
        kss = f[3].split(";")
        c["unknown_keyspace"] += int(ks, 16) >= len(kss)
        if int(ks, 16) < len(kss):
            c["tablet_keyspace"] += kss[int(ks, 16)].endswith("/1")
        c["lwt_or_serial"] += st[2] == "1" or st[3] == "1"
        c["cdc_partitioner"] += st[1] == "c"
        c["per_host_pool"] += cfg[0].startswith("H")
        c["shard_aware_port_disallowed"] += cfg[1] == "1"
        c["token_awareness_off"] += cfg[3] == "0"
        c["unsharded_node_in_cluster"] += any(x.split(".")[2] == "0" for x in nodes)
        c["policy_pref"][cfg[2][0]] = c["policy_pref"].get(cfg[2][0], 0) + 1
        npk = sum(1 for m in st[4].split(",") if not m.endswith("-"))
        c["key_columns"][str(npk)] = c["key_columns"].get(str(npk), 0) + 1
    return {"e2e": c}


SPEC = {
    "pid": "C12",
    "coq_targets": ["Props/C12.vo", "Extract/ExC12.vo"],
    "bin": "c12",
    # --n = number of mock clusters; quick: 100 requests per cluster, thorough: 240
    "sizes": {"quick": 500, "thorough": 4000},
    "search_n": 600,
    "search_rounds": 1,
    "runner_timeout": 3000,
    "rule": ("one case = one execution (execute_unpaged / execute_single_page / first page of execute_iter) of a prepared statement with a bound partition key by a real Session against a "
             "mocknode cluster: 1-6 nodes x 1-3 datacenters x 1-3 racks, 1-4 vnodes, shard counts 1-8 / unsharded / mixed, "
             "msb 0/1/4/12, nodes down before the session or stopped after the pools filled, nodes rejected by a HostFilter; "
             "2-4 keyspaces (SimpleStrategy RF 0..n+1, NTS incl. RF 0 and absent datacenters, Local, unknown class, a third of them "
             "tablet based); pool PerShard(1-2) / PerHost(1-4), shard-aware port allowed or not; DefaultPolicy with inherit / none / "
             "datacenter / datacenter+rack preference (incl. absent ones), token awareness on/off, failover on/off, shuffling on/off, "
             "session-level preference; 1-3 statements per cluster with 1-3 key columns (int, bigint, text, blob) among 0-2 other "
             "markers (values or null) in permuted order, confirmed LWT, Serial consistency, CDC partitioner, a keyspace the driver does not know; "
             "tablets delivered through tablets-routing-v1 payloads of real responses (ring partitions, tablets aimed at the keys' "
             "tokens, overlapping ones, unknown hosts, shards out of range / not fitting u16, refused payloads, refresh_metadata in "
             "between) also for tables of keyspaces that are not tablet based; quick 100 / thorough 240 requests per cluster. "
             "Before every request the runner waits until the pools are full and stable (connection counts on the mock = the "
             "configured pool size, Node::is_connected agrees) and records the server-side shards of every node's connections; "
             "the observation is the (node, server-side shard) at which the first EXECUTE frame of the request arrived. "
             "non-trivial = a first frame was seen; distinct = distinct case lines; requests of scenarios that could not be "
             "set up are counted as skipped and fail the check above max(5, 3%)"),
    "nontrivial": lambda ln: (":" in (_impl(ln) or ["-"])[0]) and not _skipped(ln),
    "extra_coverage": _cov,
    "post": _post,
    "trusted_base": [
        "vh::mocknode (scripted CQL v4 mock cluster, own codec): the server-side shard of every connection "
        "(source_port % nr_shards on the shard-aware port, round-robin on the plain port), the trace of received frames, "
        "the synthesised system tables, the tablets-routing-v1 payload encoder",
        "the runner's snapshot of the pools (the mock's live non-control connections per node, taken when their number equals "
        "the configured pool size and Node::is_connected agrees) stands for the driver's private pool contents",
        "spec_replicas (C04), spec_shard_of (C11), spec_token (C03) and the tablet history semantics (C15) are the "
        "specifications of the composed slices; route_prop is the property text transcribed over them",
    ],
    "assumptions": [
        "liveness is a snapshot: no node changes state between the snapshot and the request (the runner waits for stability)",
        "latency awareness, custom load balancing policies, speculative execution and retries are outside (never enabled; "
        "FallthroughRetryPolicy), so one logical request = one EXECUTE frame",
        "random choices of the driver (replica choice, shuffles, rotation, random shard, random connection of a slot) are "
        "oracles: every theorem quantifies over them and the tie uses the acceptor route_ok, proved sound (accepted => property) "
        "and complete for the model (every oracle's outcome is accepted)",
        "tablets_coherent / cluster_ok / sorted_weak / keys_ok are hypotheses of the model theorems; C12_tablets_reachable, "
        "C12_shard, C04_ring show they hold of every state the modelled code can reach; the driver re-checks pool "
        "well-formedness of its input with pool_wfb (C12_pool_wfb_sound)",
    ],
}


def main(argv):
    return run_check(SPEC, argv)
