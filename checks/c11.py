from orchestrate.common import run_check

SPEC = {
    "pid": "C11",
    "coq_targets": ["Props/C11.vo", "Extract/ExC11.vo"],
    "bin": "c11",
    "sizes": {"quick": 300000, "thorough": 12000000},
    "search_n": 2000000,
    "min_cases": {"quick": 300000, "thorough": 11000000},
    "rule": ("exhaustive part: I/D for n<=12 (thorough 40) x every shard x 4 boundary ranges; S for every n<=64 x every msb 0..63 x "
             "fixed boundary tokens + first/last token of every shard (msb 0) / directed near-boundary tokens; directed ShardInfo "
             "boundary (shard = nr-1, nr, nr+1; nr = 0). Seeded random part: S=shard_of(n,msb,token) with 3/8 of the tokens within "
             "+-2 of a shard boundary of the case's own sharder (both sides), I=port iterator, D=drawn port, P=shard_of_source_port, "
             "R=ShardInfo parsing. Non-trivial = every case except R cases with all three entries missing; distinct = distinct case lines"),
    "nontrivial": lambda ln: not ln.startswith("R N N N"),
    "trusted_base": [
        "spec_shard_of / spec_ports are the ScyllaDB definitions transcribed from the property text",
        "hook scylla::routing::verif_sharding (pass-through to *_from_range and ShardInfo::try_from)",
    ],
    "assumptions": [
        "msb_ignore <= 63 (the quantifier of C11; >= 64 overflows the Rust shift and is not generated)",
        "random pivot/index of the port functions is an oracle: observed outputs are checked with acceptors proved sound (accept_iter, accept_draw) and, for the iterator, complete (accept_iter_complete)",
    ],
}

def _post(lines, verdicts):
    """per-kind floors: every case kind must really have been exercised"""
    out = []
    if len(lines) >= 100000:
        kinds = {}
        for ln in lines:
            kinds[ln[:1]] = kinds.get(ln[:1], 0) + 1
        for k in "SIDPR":
            if kinds.get(k, 0) < len(lines) // 100:
                out.append(("diff", f"{k} (floor)", f"diff coverage-floor kind {k}: {kinds.get(k, 0)} cases < 1% of {len(lines)}"))
    return out


SPEC["post"] = _post


def main(argv):
    return run_check(SPEC, argv)
