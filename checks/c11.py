from orchestrate.common import run_check

import re


def _stat(ln, key):
    m = re.search(r"[=,]%s:(\d+)" % key, ln)
    return int(m.group(1)) if m else 0


def _sa(ln):
    m = re.search(r" sa=(\S+)", ln)
    return 0 if not m or m.group(1) == "-" else len(m.group(1).split(","))


def _skipped(ln):
    return ln.startswith("E ") and "| not-run" in ln


def _e_fields(ln):
    f = ln.split()
    return {"n": int(f[2], 16), "nodes": int(f[3], 16), "per": int(f[4], 16), "lo": int(f[5], 16), "hi": int(f[6], 16),
            "planned": 0 if f[7] == "-" else len(f[7].split(","))}


# floors over the judged E scenarios of a full run, as (name, measure, floor per judged scenario); measured per scenario
# (120-scenario runs, seeds 1, 2, 7, 12345, 987654321987): 1.95-2.55 / 0.69-0.74 / 0.83-1.24 / 0.29-0.38 / 0.32-0.40 /
# 0.63-0.73; fourth audit, 46 seeds: the minimum of mv was 0.57 (seed 113), hence its floor 0.25; minima over 65 further seeds (E-only sweep 100..164): 1.67 / 0.53 / 0.55 / 0.18 / 0.27 / 0.60 (115 seeds in all), every floor has >= 2x margin
E_FLOORS = [
    ("connections accepted on the shard-aware port", lambda ln, f: _sa(ln), 0.80),
    ("scenarios with a starved shard (every port pre-bound, or none in the range)", lambda ln, f: 1 if _stat(ln, "starved") > 0 else 0, 0.25),
    ("(node, shard) pairs with a pre-bound and a free port that got a shard-aware connection", lambda ln, f: _stat(ln, "mv"), 0.25),
    ("scenarios whose range ends at 65535", lambda ln, f: 1 if f["hi"] == 65535 else 0, 0.08),
    ("scenarios whose range is shorter than nr_shards", lambda ln, f: 1 if f["hi"] - f["lo"] + 1 < f["n"] else 0, 0.10),
    ("scenarios with pre-bound ports", lambda ln, f: 1 if " pre=- " not in ln else 0, 0.28),
]


# kind N: boundary values of the directed part (all 81 (lo, hi) pairs), number of N cases of a quick run
N_BOUNDARY = [0, 1, 1022, 1023, 1024, 1025, 49152, 65534, 65535]
N_CASES_QUICK = 81 + 9 * 4 * 3 + 2000


def _vstat(v, key):
    m = re.search(r" %s=(\d+)" % key, v or "")
    return int(m.group(1)) if m else 0


# floors on what the driver's RUN of the extracted connect loop (open_many) says about the judged scenarios, per scenario:
# skp = shard-aware connections on shards with a held/busy port in their set (measured 0.85-1.25, minimum over 46 seeds 0.58),
# pwr = expected number of shards on which a loop that gives up at the first busy port opens fewer connections than the model
# (measured 0.43-0.68, minimum 0.29); both count only shards whose count interval is a point (not widened by busy=),
# both from the driver's verdict line ("ok e2e cnt=exact pred=.. skp=.. pwr=<per mille>")
V_FLOORS = [("skp", 1, 0.25), ("pwr", 1000, 0.12)]


def _post(lines, verdicts):
    """per-kind floors: every case kind must really have been exercised.
    E (end-to-end) scenarios: those not run (mock / session did not start, pool not full or a request not back within
    the harness cap, a free port of the range taken from outside) observe nothing: tolerated up to max(3, 5 %), a diff
    above; a full run must contain at least 100 scenarios and reach the E_FLOORS and V_FLOORS.
    cnt=off (the number of shard-aware connections of some shard is not the number the extracted loop model opens in the
    scenario's known environment) is tolerated in at most max(2, 2 %) of the judged scenarios (an unexplained environment
    effect; 0 of 4 800 measured, also at load average 100-128), a diff above: a loop that gives up at the first busy
    port, or goes on after a success, is off in about half of the scenarios with held ports."""
    out = []
    if len(lines) >= 100000:
        kinds = {}
        for ln in lines:
            kinds[ln[:1]] = kinds.get(ln[:1], 0) + 1
        for k in "SIDPR":
            if kinds.get(k, 0) < len(lines) // 100:
                out.append(("diff", f"{k} (floor)", f"diff coverage-floor kind {k}: {kinds.get(k, 0)} cases < 1% of {len(lines)}"))
        # kind N (ShardAwarePortRange::new): a FIXED number of cases per run (189 directed + 2 000 seeded, thorough 20 000),
        # generated from an own stream - a deterministic count, so the floor is the count itself; every (lo, hi) pair of the
        # boundary values must be among them and have been answered by the constructor
        if kinds.get("N", 0) < N_CASES_QUICK:
            out.append(("diff", "N (floor)", f"diff coverage-floor kind N: {kinds.get('N', 0)} constructor cases < {N_CASES_QUICK}"))
        seen = {ln.split("|")[0].strip() for ln in lines if ln.startswith("N ") and ln.split("|")[-1].strip() in ("ok", "rejected")}
        missing = [f"N {lo:x} {hi:x}" for lo in N_BOUNDARY for hi in N_BOUNDARY if f"N {lo:x} {hi:x}" not in seen]
        if missing:
            out.append(("diff", "N (floor)", f"diff coverage-floor kind N: {len(missing)} of 81 boundary pairs not answered, first {missing[0]}"))
        if kinds.get("E", 0) < 100:
            out.append(("diff", "E (floor)", f"diff coverage-floor kind E: {kinds.get('E', 0)} end-to-end scenarios < 100"))
    e = [ln for ln in lines if ln.startswith("E ")]
    if not e:
        return out
    # not run: by the runner (`| not-run ...`) or by the driver (`ok not-run outside-busy-ports`: more than 4 ports of the
    # range busy from outside)
    ev = [(ln, v or "") for ln, v in zip(lines, verdicts) if ln.startswith("E ")]
    sk = [(ln, v) for ln, v in ev if _skipped(ln) or v.startswith("ok not-run")]
    if len(sk) > max(3, len(e) // 20):
        out.append(("diff", sk[0][0][:300], "diff e2e tie not exercised: %d of %d scenarios were not run (%s)"
                    % (len(sk), len(e), sk[0][1] or sk[0][0].split("|", 1)[1].strip())))
    judged = [ln for ln, v in ev if "| sa=" in ln and not v.startswith("ok not-run")]
    vj = [v for ln, v in ev if "| sa=" in ln and not v.startswith("ok not-run")]
    # busy= widens the count interval of the affected shards (their connections do not count for skp / pwr): capped
    wide = [ln for ln in judged if " busy=- " not in ln]
    # (a single run: 0-3 %; runs started back to back reuse client addresses within the 60 s TIME_WAIT of the ~20 excess
    # connections the driver dropped in the previous runs: up to 13 % measured in a sweep of 40 runs, 3 s apart)
    if len(wide) > max(3, len(judged) // 4):
        out.append(("diff", wide[0][:300], "diff e2e: %d of %d judged scenarios report ports busy from outside (cap max(3, 25 %%))"
                    % (len(wide), len(judged))))
    off = [(ln, v) for ln, v in zip(lines, verdicts) if ln.startswith("E ") and v and v.startswith("ok e2e cnt=off")]
    if len(off) > max(2, len(judged) // 50):
        out.append(("diff", off[0][0][:300], "diff e2e connect-loop model: in %d of %d judged scenarios the number of shard-aware "
                    "connections differs from the extracted model's (%s)" % (len(off), len(judged), off[0][1])))
    if len(e) >= 100:
        for key, div, floor in V_FLOORS:
            tot = sum(_vstat(v, key) for v in vj) / div
            if tot < floor * len(judged) or not judged:
                out.append(("diff", e[0][:200], "diff e2e floor: driver statistic %s: %.1f in %d judged scenarios (floor %.2f per scenario)"
                            % (key, tot, len(judged), floor)))
        for name, measure, floor in E_FLOORS:
            tot = sum(measure(ln, _e_fields(ln)) for ln in judged)
            if tot < floor * len(judged) or not judged:
                out.append(("diff", e[0][:200], "diff e2e floor: %s: %d in %d judged scenarios (floor %.2f per scenario)"
                            % (name, tot, len(judged), floor)))
    return out


def _e2e_cov(lines, verdicts):
    e = [ln for ln in lines if ln.startswith("E ")]
    ev = [(ln, v or "") for ln, v in zip(lines, verdicts) if ln.startswith("E ")]
    judged = [ln for ln, v in ev if "| sa=" in ln and not v.startswith("ok not-run")]
    vj = [v for ln, v in ev if "| sa=" in ln and not v.startswith("ok not-run")]
    cov = {
        "e2e_scenarios_not_judged_because_more_than_4_ports_were_busy_from_outside": sum(1 for ln, v in ev if v.startswith("ok not-run outside-busy-ports")),
        "e2e_scenarios_whose_connection_counts_equal_the_extracted_loop_model": sum(1 for v in vj if v.startswith("ok e2e cnt=exact")),
        "e2e_scenarios_whose_connection_counts_differ_from_the_model_tolerated": sum(1 for v in vj if v.startswith("ok e2e cnt=off")),
        "e2e_shard_aware_connections_the_model_opens": sum(_vstat(v, "pred") for v in vj),
        "e2e_shard_aware_connections_on_shards_with_a_busy_port": sum(_vstat(v, "skp") for v in vj),
        "e2e_expected_shards_off_for_a_loop_that_gives_up_at_the_first_busy_port": round(sum(_vstat(v, "pwr") for v in vj) / 1000, 1),
        "e2e_scenarios_with_ports_busy_from_outside": sum(1 for ln in judged if " busy=- " not in ln),
        "e2e_scenarios": len(e),
        "e2e_scenarios_not_run": sum(1 for ln, v in ev if _skipped(ln) or v.startswith("ok not-run")),
        "e2e_connections_accepted": sum(_stat(ln, "op") for ln in judged),
        "e2e_shard_aware_connections_checked": sum(_sa(ln) for ln in judged),
        "e2e_shard_aware_connections_closed_by_the_client": sum(_stat(ln, "cc") for ln in judged),
        "e2e_starved_node_shard_pairs": sum(_stat(ln, "starved") for ln in judged),
        "e2e_pairs_with_bound_and_free_ports": sum(_stat(ln, "some") for ln in judged),
        "e2e_scenarios_with_two_nodes": sum(1 for ln in judged if _e_fields(ln)["nodes"] == 2),
        "e2e_scenarios_with_two_connections_per_shard": sum(1 for ln in judged if _e_fields(ln)["per"] == 2),
        "e2e_scenarios_without_any_shard_aware_connection": sum(1 for ln in judged if _sa(ln) == 0),
        "e2e_slowest_pool_fill_ms": max([_stat(ln, "ms") for ln in judged] or [0]),
    }
    for name, measure, _ in E_FLOORS:
        cov["e2e_" + re.sub(r"[^a-z0-9]+", "_", name.lower()).strip("_")] = sum(measure(ln, _e_fields(ln)) for ln in judged)
    return cov


SPEC = {
    "pid": "C11",
    "coq_targets": ["Props/C11.vo", "Extract/ExC11.vo"],
    "bin": "c11",
    "sizes": {"quick": 300000, "thorough": 12000000},
    "search_n": 2000000,
    # quick: 27 458 exhaustive + 2 189 N + 300 000 random + 120 E; a run that lost its end-to-end part is below the floor
    "min_cases": {"quick": 329700, "thorough": 11000000},
    "rule": ("exhaustive part: I/D for n<=12 (thorough 40) x every shard x 4 boundary ranges; S for every n<=64 x every msb 0..63 x "
             "fixed boundary tokens + first/last token of every shard (msb 0) / 4 directed near-boundary tokens (msb > 0; in the quick tier only "
             "for msb = 4 mod 8); directed ShardInfo "
             "boundary (shard = nr-1, nr, nr+1; nr = 0). N lo hi = the real ShardAwarePortRange::new(lo..=hi), ok / rejected: every (lo, hi) pair of "
             "0, 1, 1022, 1023, 1024, 1025, 49152, 65534, 65535; lo = hi, hi = lo-1, hi = lo+1 at and just above each of them; 2 000 (thorough "
             "20 000) pairs from an own seeded stream (any order / lo = hi / hi = lo-1 / lo in 1000..1050 / ordered), a fixed count per run; "
             "verdict: impl accepts <=> extracted port_range_new accepts (C11_range_new_iff), viol when an allowed range 1024 <= lo <= hi is "
             "refused or an empty / reserved one accepted; an I / D case whose allowed range the constructor refuses prints rejected and is a "
             "viol when spec_ports is non-empty. Seeded random part: S=shard_of(n,msb,token) with 3/8 of the tokens within "
             "+-2 of a shard boundary of the case's own sharder (both sides), I=port iterator, D=drawn port, P=shard_of_source_port, "
             "R=ShardInfo parsing. End-to-end part: E = one seeded scenario (120 quick / 1200 thorough) of a real Session against "
             "mocknode: 1-2 nodes x 2-6 shards, PoolSize::PerShard(1-2), shard_aware_local_port_range(lo..=hi) of 1..4*nr_shards-1 ports "
             "placed outside the kernel's ephemeral range by the scenario seed (a few ports per shard, ranges ending at 65535, ranges "
             "shorter than nr_shards, single ports), local ports pre-bound by the harness on the session's own client address (none / "
             "random half / whole shards / all but one port per shard / every port); the scenario waits until every shard of every "
             "node has its pool connections and the mock has accepted nothing for 120 ms, sends requests and reports every connection the mock "
             "accepted on the shard-aware port, the ports it holds and the ports it found busy from outside (probe by bind). The driver RUNS the "
             "extracted connect loop (open_many, some_pivot_gives) in the known environment and compares the number of shard-aware "
             "connections per shard (cnt=exact / cnt=off, off tolerated in max(2, 2%) of the scenarios; a scenario with more than 4 ports busy "
             "from outside is not judged, scenarios with any such port are capped at max(3, 25%)). "
             "Non-trivial = every case except R cases with all three entries missing and E scenarios that were not run; "
             "distinct = distinct case lines"),
    "nontrivial": lambda ln: not ln.startswith("R N N N") and not _skipped(ln),
    "extra_coverage": lambda lines, verdicts: _e2e_cov(lines, verdicts),
    "trusted_base": [
        "spec_shard_of / spec_ports are the ScyllaDB definitions transcribed from the property text",
        "hook scylla::routing::verif_sharding (pass-through to *_from_range and ShardInfo::try_from)",
        "vh::mocknode (scripted CQL mock cluster): per accepted connection the listener it came in on, the client's source port and "
        "the shard the node assigned (source port mod nr_shards on the shard-aware port, as ScyllaDB does) and reported in SUPPORTED",
        "E lines: the harness' pre-bound sockets (tokio TcpSocket bound without SO_REUSEADDR on the session's client address) make "
        "at least those local ports address-in-use (also busy: TIME_WAIT ports of earlier scenarios on the same client address, ports "
        "used by the session's own connections, foreign wildcard binds - the runner probes the range by bind at the start (busy=) and at "
        "the end (not-run when a free unused port is no longer bindable)); the coverage statistics (st=) are computed by the runner, "
        "starved is recomputed by the driver with the extracted starvedb, pred/skp/pwr are computed by the driver",
        "E lines, connection counts: the refiller's first round asks for per_shard connections per shard and node minus the node's first "
        "pool connection (plain port) - read from connection_pool.rs start_filling, modelled as runs_for_shard (Gallina, extracted, "
        "C11_connect_runs); the interval is the extracted shard_count_bounds (C11_connect_count_bounds); that a node's first pool "
        "connection is the first plain-port pool connection the mock accepted from it is read off the trace by the OCaml driver",
    ],
    "assumptions": [
        "msb_ignore <= 63 (the quantifier of C11; >= 64 overflows the Rust shift and is not generated)",
        "random pivot/index of the port functions is an oracle: observed outputs are checked with acceptors proved sound (accept_iter, accept_draw) and, for the iterator, complete (accept_iter_complete)",
        "connect loop: the result class of open_connection per source port (address unavailable / connected / other error) is an oracle "
        "that depends on the port only (the loop asks at most once per port, C11_connect_tried); the classification "
        "is_address_unavailable_for_use itself (AddrInUse | PermissionDenied | AddrNotAvailable) is not modelled and only AddrInUse is produced by the tie",
        "E lines judge connections the mock ACCEPTED: failed bind attempts never reach the network, so the order of the attempts and "
        "'at most once per port' are theorems about the model only; 'moves on after address-in-use' and 'returns at the first success' "
        "are tied through the NUMBER of shard-aware connections per shard, which for every pivot is min(runs, free ports) "
        "(C11_connect_many_count; driver: extracted open_many); 'falls back to the plain port after NoSourcePortForShard' as every starved "
        "shard being served by plain-port connections (diff, not viol: not sentences of C11). viol only for a port outside [lo,hi] or not "
        "congruent to the shard the MOCK assigned (= source port mod nr_shards by the mock's own computation: that conjunct cannot fail "
        "against mocknode); a connection from a port the harness holds is a diff (harness/OS fault)",
    ],
}


SPEC["post"] = _post


def main(argv):
    return run_check(SPEC, argv)
