from orchestrate.common import run_check

SPEC = {
    "pid": "C11",
    "coq_targets": ["Props/C11.vo", "Extract/ExC11.vo"],
    "bin": "c11",
    "sizes": {"quick": 300000, "thorough": 12000000},
    "search_n": 2000000,
    "rule": ("exhaustive small part (n<=12 quick / n<=40 thorough: every shard x 4 boundary ranges x iter/draw; "
             "boundary tokens x msb {0,1,12,63}) + seeded random cases: S=shard_of(n,msb,token), I=port iterator, "
             "D=drawn port, P=shard_of_source_port, R=ShardInfo parsing; non-trivial = every case except "
             "R cases with all three entries missing; distinct = distinct case lines"),
    "nontrivial": lambda ln: not ln.startswith("R N N N"),
    "trusted_base": [
        "spec_shard_of / spec_ports are the ScyllaDB definitions transcribed from the property text",
        "hook scylla::routing::verif_sharding (pass-through to *_from_range and ShardInfo::try_from)",
    ],
    "assumptions": [
        "msb_ignore <= 63 (the quantifier of C11; >= 64 overflows the Rust shift and is not generated)",
        "random pivot/index of the port functions is an oracle: observed outputs are checked with acceptors proved sound and complete",
    ],
}

def main(argv):
    return run_check(SPEC, argv)
