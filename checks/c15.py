from orchestrate.common import run_check

def _steps(lines):
    n = 0
    for ln in lines:
        i = ln.find("|")
        if i >= 0:
            n += len(ln[i + 1:].split())
    return n

def _extra(lines, verdicts):
    ops = sum(max(0, len(ln.split("|")[0].split()) - 4) for ln in lines if not ln.startswith(("Pb ", "Pe ")))
    return {
        "history_steps_compared": _steps([ln for ln in lines if not ln.startswith(("Pb ", "Pe "))]),
        "history_ops": ops,
        "histories": sum(1 for ln in lines if not ln.startswith(("Pb ", "Pe "))),
        "payload_decode_cases": sum(1 for ln in lines if ln.startswith("Pb ")),
        "encoder_cases": sum(1 for ln in lines if ln.startswith("Pe ")),
        "learn_rejected_steps": sum(ln.count(" rWrongTokenRange~") + ln.count(" rShardNum~") for ln in lines),
        "maintenance_steps": sum(ln.count(" m~") for ln in lines),
        "byte_payload_ops_in_histories": sum(ln.split("|")[0].count(" B/") for ln in lines),
        "payload_decode_outcomes": {t: sum(1 for ln in lines if ln.startswith("Pb ") and ln.split("|", 1)[1].strip().startswith(t))
                                    for t in ("a:", "rDeserialization:ByteLengthMismatch", "rDeserialization:ExpectedNonNull",
                                              "rDeserialization:LengthDeser", "rDeserialization:RawCqlBytesRead",
                                              "rWrongTokenRange", "rShardNum", "none")},
        "refresh_ops_through_cluster_state": sum(ln.split("|")[0].count(" R/") for ln in lines),
    }

# per-kind floors (quick, thorough): the evidence must not claim a generator part that did not run
KIND_FLOORS = {"Hs": (7, 7), "Hx": (17080, 188145), "Hm": (17080, 188145), "Ha": (4913, 83521),
               "Hr": (2000, 10000), "Hi": (2000, 10000), "Hl": (2000, 10000), "Hd": (2000, 10000),
               "Ht": (20736, 248832), "Pb": (90000, 450000), "Pe": (12000, 60000)}

def _post(lines, verdicts):
    import os, sys
    tier = os.environ.get("VERIF_TIER", "quick")
    if "--tier" in sys.argv:
        tier = sys.argv[sys.argv.index("--tier") + 1]
    if "--replay" in sys.argv:
        return []
    idx = 1 if tier == "thorough" else 0
    kinds = {}
    for ln in lines:
        k = ln.split(" ", 1)[0]
        kinds[k] = kinds.get(k, 0) + 1
    out = []
    for k, fl in KIND_FLOORS.items():
        if kinds.get(k, 0) < fl[idx]:
            out.append(("diff", f"(generator part {k})", f"diff coverage-floor kind={k} got={kinds.get(k, 0)} expected>={fl[idx]}"))
    # the tie must really have exercised what the evidence claims
    steps = _steps([ln for ln in lines if not ln.startswith(("Pb ", "Pe "))])
    r_ops = sum(ln.split("|")[0].count(" R/") for ln in lines)
    maint = sum(ln.count(" m~") for ln in lines)
    rej = sum(ln.count(" rWrongTokenRange~") + ln.count(" rShardNum~") for ln in lines)
    unk = sum(1 for ln in lines if "~1[" in ln)
    b_ops = sum(ln.split("|")[0].count(" B/") for ln in lines)
    pb = {}
    for ln in lines:
        if ln.startswith("Pb "):
            t = ln.split("|", 1)[1].strip()[:2]
            pb[t] = pb.get(t, 0) + 1
    for tag, need in (("a:", (10000, 50000)), ("rD", (10000, 50000)), ("rW", (5000, 25000)), ("rS", (2000, 10000)), ("no", (50, 250))):
        if pb.get(tag, 0) < need[idx]:
            out.append(("diff", f"(coverage Pb {tag})", f"diff coverage-floor Pb-outcome={tag} got={pb.get(tag, 0)} expected>={need[idx]}"))
    pe = {}
    for ln in lines:
        if ln.startswith("Pe "):
            t = ln.rsplit(" ", 1)[1][:2]
            pe[t] = pe.get(t, 0) + 1
    for tag, need in (("a:", (2500, 12500)), ("rW", (5000, 25000)), ("rS", (1500, 7500))):
        if pe.get(tag, 0) < need[idx]:
            out.append(("diff", f"(coverage Pe {tag})", f"diff coverage-floor Pe-outcome={tag} got={pe.get(tag, 0)} expected>={need[idx]}"))
    leaf = {}
    for ln in lines:
        if ln.startswith("Pb ") and "| rDeserialization:" in ln:
            k = ln.split("| rDeserialization:", 1)[1].strip()
            leaf[k] = leaf.get(k, 0) + 1
    for k, need in (("ByteLengthMismatch", (2000, 10000)), ("ExpectedNonNull", (3000, 15000)), ("LengthDeser", (400, 2000)),
                    ("RawCqlBytesRead", (6000, 30000))):
        if leaf.get(k, 0) < need[idx]:
            out.append(("diff", f"(coverage Pb leaf {k})", f"diff coverage-floor Pb-deserialization-leaf={k} got={leaf.get(k, 0)} expected>={need[idx]}"))
    for k in leaf:
        if k not in ("ByteLengthMismatch", "ExpectedNonNull", "LengthDeser", "RawCqlBytesRead"):
            out.append(("diff", f"(Pb leaf {k})", f"diff unexpected-deserialization-leaf {k} x{leaf[k]}"))
    for name, got, need in (("steps", steps, (400000, 3000000)[idx]), ("refresh-through-ClusterState", r_ops, (20000, 100000)[idx]),
                            ("maintenance-steps", maint, (50000, 400000)[idx]), ("refused-payloads", rej, (5000, 50000)[idx]),
                            ("histories-with-unknown-replicas", unk, (2000, 10000)[idx]),
                            ("byte-payload-ops-in-histories", b_ops, (30000, 150000)[idx])):
        if got < need:
            out.append(("diff", f"(coverage {name})", f"diff coverage-floor {name} got={got} expected>={need}"))
    return out

SPEC = {
    "pid": "C15",
    "coq_targets": ["Props/C15.vo", "Extract/ExC15.vo"],   # depend on Model/Cql.vo (tie and proofs) and, for the round-trip theorems, on Proofs/Cql_proofs.vo (C01)
    "bin": "c15",
    # --n = number of seeded random histories; the exhaustive parts are always generated
    "sizes": {"quick": 12000, "thorough": 60000},
    "search_n": 20000,
    "rule": ("one case = one whole history run on a fresh TabletsInfo through hook H6 with the complete observation "
             "(flags, tablet list with replicas and unresolved replicas, tablet_for_token / replicas_for_token / "
             "dc_replicas_for_token of every watched token) after EVERY step, compared exactly with the extracted model. "
             "Learn steps run the REAL RawTablet::from_custom_payload + ClusterState::update_tablets. Parts: Hs 7 scenario histories + the lines of corpus/C15 (incl. the two defects found by this check, F7/F8); Hx breadth-first over EVERY tablet "
             "range set reachable in an 8-point (quick: 610 sets) / 10-point (thorough: 4181 sets) token universe (i64::MIN, MIN+1, "
             "-1, 0, 1, 5, MAX-1, MAX: single-token, touching, MAX-ending tablets) x every one of the 28 / 45 inserts, followed by a "
             "maintenance step and a re-insert; Hm every reachable set, then a maintenance step, then every insert; Ha all histories of length 3 (quick) / 4 (thorough) over a 17-letter alphabet with "
             "refused payloads and schema/topology maintenance; Hr/Hi/Hl/Hd seeded random histories (length 8..160) over the small "
             "universe and over full i64 with ScyllaDB-style equal splits, neighbours of used bounds, unknown replicas, removed / "
             "recreated nodes (Hd: also with datacenter change), schema changes, several tables; refreshes go through "
             "ClusterState::perform_tablets_maintenance (R ops) or straight to TabletsInfo::perform_maintenance (M ops, a share with "
             "arguments the real caller would not produce: inconsistent / overlapping removed+recreated+current, duplicate keys); "
             "Ht all histories of length 4 (quick) / 5 (thorough) over 12 letters on three tables (one not in any schema) with schemas "
             "that keep / drop / de-tablet / forget tables; a fifth of the random payload events are byte strings (B ops: valid "
             "encodings with 0-2 corruptions); Pb RawTablet::from_custom_payload alone on 8 generated/corrupted byte strings per random "
             "history (truncation, trailing bytes, bit flips, rewritten length/count fields incl. -1/-2/0/MAX/MIN, short uuid/shard, "
             "missing fields, null list, trash, absent key), decoded content, error class and the LEAF KIND of a deserialisation error compared exactly; Pe the specification's encoder enc_payload (C15_payload_roundtrip) against the bytes of the crate's own CQL serialiser and of the harness' encoder for 2 generated (a, b, replicas) per random history, plus the decoder's outcome on them against payload_check. non-trivial = every Pb / Pe line and histories with at least 2 steps; distinct = distinct case lines"),
    "nontrivial": lambda ln: ln.startswith("Pb ") or ln.startswith("Pe ") or len(ln.split("|")[0].split()) >= 6,
    "trusted_base": [
        "spec_step / spec_entry / spec_lookup / restrict_dc (coq/Model/Tablets.v PART 2) are the property text transcribed",
        "hooks (pass-through, #[cfg(scylla_verif)]): scylla::routing::locator::verif_tablets (driver struct around TabletsInfo, "
        "observations of flags / tablet lists / tablet_for_token / replicas_for_token / dc_replicas_for_token, raw_tablet_from_payload_full = "
        "RawTablet::from_custom_payload with the decoded content visible and the DeserializationError handed out, TabletsInfo::perform_maintenance), "
        "scylla::cluster::verif_update_tablets (the real RawTablet::from_custom_payload + the real ClusterState::update_tablets on a "
        "ClusterState value built around the driver's TabletsInfo), scylla::cluster::verif_tablets_maintenance (the real "
        "ClusterState::perform_tablets_maintenance), scylla::cluster::verif_node::node_without_pool",
        "the read primitives (read_int, read_cql_bytes, read_count, exact_len) of coq/Model/Cql.v used by coq/Model/TabletsPayload.v",
        "bsearch / partition_point_bs (C15_bsearch only, not used by the tie) is a hand transcription of core::slice::binary_search_by "
        "from the NIGHTLY rust-src; the build uses stable 1.95, whose sources are not installed",
        "slice::partition_point is modelled by its contract (index of the partition of a partitioned slice); partitionedness is proved (C15_partitioned)",
        "HashMap/HashSet arguments are association lists, first match wins (the harness builds the maps first-entry-wins, also from lists with duplicate hosts); keyspace lists have unique names; Arc identity = (host, generation, dc) triple",
        "enc_payload is tied to the crate's CQL serialiser (CqlValue tuple against tuple<bigint,bigint,list<tuple<uuid,int>>>, as the repository's unit tests build tablet payloads), not to a ScyllaDB server",
    ],
    "assumptions": [
        "payload bounds are i64 values (Forall op_i64 hist): they are decoded from 8 bytes",
        "byte payloads: the typed deserialisers of tuple<bigint,bigint,list<tuple<uuid,int>>> are modelled in coq/Model/TabletsPayload.v on top of the read primitives of coq/Model/Cql.v; the error class (Deserialization / WrongTokenRange / ShardNum) and, for Deserialization, the innermost kind of the nested error (ExpectedNonNull / ByteLengthMismatch / RawCqlBytesRead / LengthDeser, extracted by the harness' de_leaf) are compared exactly",
    ],
    "min_cases": {"quick": 180000, "thorough": 1300000},
    "runner_timeout": 9000,   # the single-threaded thorough runner needs ~160 s CPU; generous for a heavily loaded machine
    "post": _post,
    "extra_coverage": _extra,
}

def main(argv):
    return run_check(SPEC, argv)
