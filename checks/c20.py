from orchestrate.common import run_check, REPO, ROOT

import re


def _stat(ln, key):
    m = re.search(r"[ ,]%s=(\d+)" % key, ln)
    return int(m.group(1)) if m else 0



# ---- census: the control-flow skeleton of PoolRefiller the pool model was written from ----------------
# (structure only, no semantics: a new select! arm, a new place where connections enter `conns`, are
# published, opened, or get their keyspace set cannot appear without this check failing as a broken
# correspondence; the model's labels are listed next to the tokens they stand for)
CENSUS_FILE = "scylla/src/network/connection_pool.rs"
CENSUS_ARMS = [  # select! arms of PoolRefiller::run, in order          -> model label(s)
    ("_", "tokio::time::sleep_until"),                      # start_filling        -> OpenStart*
    ("evt", "self.ready_connections.select_next_some"),     # handle_ready_connection -> OpenReady / SetKsDone / ClearExcess
    ("evt", "self.connection_errors.select_next_some"),     # remove_connection    -> ConnError
    ("req", "use_keyspace_request_receiver.recv"),          # use_keyspace         -> UseKeyspace (+ UseSend/UseDone/UseTimeout of the spawned task)
    ("_", "self.refill_now_notify.notified"),               # reschedules the refill only
]
CENSUS_COUNTS = {  # occurrences in the non-test part of the file
    r"\.update_shared_conns\(": 4,
    r"self\.start_opening_connection\(": 5,
    r"self\.start_setting_keyspace_for_connection\(": 1,
    r"self\.current_keyspace = ": 1,
    r"shard_conns\.push\(": 1,
    r"self\.conns\.clear\(\)": 1,
    r"\.swap_remove\(": 2,
    r"self\.excess_connections\.push\(": 1,
    r"self\.excess_connections\.clear\(\)": 3,
    r"self\.ready_connections\s*\.push\(": 2,
    r"self\.use_keyspace\(": 1,
    r"self\.remove_connection\(": 1,
    r"self\.handle_ready_connection\(": 1,
    r"self\.start_filling\(\)": 1,
    r"self\.maybe_reshard\(": 1,
}


# the code the product model (section 6: worker x pools, C20_session) was written from.  Per file: patterns with
# the number of occurrences in the non-test part, and token sequences that must appear in this ORDER.
CENSUS_MORE = {
    "scylla/src/cluster/worker.rs": {
        "counts": {
            r"self\.node_config\.used_keyspace = ": 1,          # YUse: used_keyspace is set ...
            r"Self::handle_use_keyspace_request\(": 1,           # ... then the fan-out task is created from a snapshot
            r"self\.use_keyspace_channel\.recv\(\)": 1,          # the worker's use_keyspace arm
            r"\.map\(\|node\| node\.use_keyspace\(": 1,           # fan-out to every known node (YDeliver)
            r"use_keyspace_result\(use_keyspace_results\.into_iter\(\)\)": 1,   # YReturn: aggregation
            r"self\.apply_metadata_update\(update\)\.await": 1,  # YApply: awaited inside the arm
            r"\.wait_until_all_pools_are_initialized\(\)": 2,   # Cluster::new and apply_metadata_update
        },
        "order": ["self.use_keyspace_channel.recv()", "self.node_config.used_keyspace = ", "self.cluster_state.load_full()",
                  "Self::handle_use_keyspace_request(", "tokio::spawn(use_keyspace_future)"],
    },
    "scylla/src/cluster/node.rs": {
        "counts": {
            r"pool\.use_keyspace\(keyspace_name\)\.await\?": 1,  # Node::use_keyspace hands the pool's answer through
            r"NodeConnectionPool::new\(": 1,
        },
        "order": ["NodeConnectionPool::new(", "Some((host_id, connectivity_events_sender)),", "keyspace_name,"],
    },
    "scylla/src/cluster/state.rs": {
        "counts": {r"node_config\.used_keyspace\.clone\(\)": 1},   # new nodes' pools are constructed with used_keyspace
        "order": ["Arc::new(Node::new(", "node_config.used_keyspace.clone(),"],
    },
    "scylla/src/client/session.rs": {
        "counts": {r"self\.cluster\.use_keyspace\(verified_ks_name\)\.await": 1},
        "order": ["VerifiedKeyspaceName::new(keyspace_name, case_sensitive)?;", "self.cluster.use_keyspace(verified_ks_name).await"],
    },
}


def _read_nontest(rel):
    import os
    src = open(os.path.join(REPO, rel)).read()
    cut = src.find("#[cfg(test)]\nmod tests")
    return src[:cut] if cut >= 0 else src


def _census():
    bad = []
    try:
        src = _read_nontest(CENSUS_FILE)
    except OSError as ex:
        return ["cannot read %s: %s" % (CENSUS_FILE, ex)]
    try:
        run = src[src.index("pub(crate) async fn run("):src.index("fn is_filling(&self)")]
        arms = [(a, re.sub(r"\(.*", "", b.strip())) for a, b in
                re.findall(r"^\s*(\w+) = ([^\n]*?)(?:, if [^\n]*)? => \{", run, re.M)]
        if arms != CENSUS_ARMS:
            bad.append("select! arms of PoolRefiller::run are %r, the model was written for %r" % (arms, CENSUS_ARMS))
    except ValueError:
        bad.append("PoolRefiller::run / is_filling not found")
    for pat, n in CENSUS_COUNTS.items():
        k = len(re.findall(pat, src))
        if k != n:
            bad.append("%s: %d occurrences of /%s/ (model written for %d)" % (CENSUS_FILE, k, pat, n))
    for rel, spec in CENSUS_MORE.items():
        try:
            src = _read_nontest(rel)
        except OSError as ex:
            bad.append("cannot read %s: %s" % (rel, ex))
            continue
        for pat, n in spec["counts"].items():
            k = len(re.findall(pat, src))
            if k != n:
                bad.append("%s: %d occurrences of /%s/ (model written for %d)" % (rel, k, pat, n))
        pos = 0
        for tok in spec["order"]:
            i = src.find(tok, pos)
            if i < 0:
                bad.append("%s: token %r not found after the preceding ones (order %r)" % (rel, tok, spec["order"]))
                break
            pos = i + len(tok)
    return bad


def _skipped(ln):
    return ln.startswith("E ") and "| not-run" in ln


def _post(lines, verdicts):
    """Floors on what the e2e tie really observed (a run that observed too little is a broken
    correspondence = diff, never ok):
    * scenarios that were not run (no session / mock, harness cap exceeded) observe nothing: tolerated and
      reported up to max(3, 2 %), a diff above that;
    * (runs with >= 100 scenarios only) of the started scenarios at least 60 % must contain request frames judged strictly (requests started
      while a keyspace was established by an undisturbed successful call), at least 30 % such frames on
      connections the mock registered AFTER that call returned, and overall there must be prepared-statement frames
      BATCH, paged and overtaking frames, node restarts and reshards;
    * the census must match the values the model was written from: PoolRefiller's select! arms and site counts in
      connection_pool.rs, and counts + token order in worker.rs, node.rs, state.rs, session.rs (CENSUS_MORE).
    Measured margins (third audit): idle, 38 seeds: strict 95-100 %, late 92-99 %; one core shared with 150 busy loops: 89 % / 63 %;
    the same under strace with the former 400 ms connect/USE timeout: 67 % / 37 % (the timeout is now 2 s)."""
    out = [("diff", "census", "diff census: " + b) for b in _census()]
    e = [ln for ln in lines if ln.startswith("E ")]
    small = len(e) < 100            # a replay or a hand-made run: the statistical floors do not apply
    if not e:
        if len(lines) >= 1000:      # a full run without any end-to-end scenario did not exercise the e2e tie
            out.append(("diff", "e2e", "diff e2e floor: the run contains no end-to-end scenario"))
        return out
    sk = [ln for ln in e if _skipped(ln)]
    if len(sk) > max(3, len(e) // 50):
        out.append(("diff", sk[0], "diff e2e tie not exercised: %d of %d scenarios were not run (%s)"
                    % (len(sk), len(e), sk[0].split("|", 1)[1].strip())))
    st = [ln for ln in e if "| none " in ln]
    if st and not small:
        def frac(key):
            return sum(1 for ln in st if _stat(ln, key) > 0) / len(st)
        for key, floor in (("strict", 0.6), ("late", 0.3)):
            if frac(key) < floor:
                out.append(("diff", st[0][:200], "diff e2e floor: only %.0f%% of %d started scenarios have %s > 0 (floor %.0f%%)"
                            % (100 * frac(key), len(st), key, 100 * floor)))
        for key in ("pre", "bat", "pag", "early", "ok", "rst", "rsh"):
            if sum(_stat(ln, key) for ln in st) == 0:
                out.append(("diff", st[0][:200], "diff e2e floor: no scenario has %s > 0" % key))
    return out


def _e2e_cov(lines):
    e = [ln for ln in lines if ln.startswith("E ")]
    return {
        "e2e_scenarios": len(e),
        "e2e_scenarios_not_run": sum(1 for ln in e if _skipped(ln)),
        "e2e_connections_opened": sum(_stat(ln, "op") for ln in e),
        "e2e_successful_use_calls": sum(_stat(ln, "ok") for ln in e),
        "e2e_request_frames_checked": sum(_stat(ln, "fr") for ln in e),
        "e2e_strict_frames": sum(_stat(ln, "strict") for ln in e),
        "e2e_strict_frames_on_connections_opened_after_the_call": sum(_stat(ln, "late") for ln in e),
        "e2e_scenarios_with_strict_frames": sum(1 for ln in e if _stat(ln, "strict") > 0),
        "e2e_prepared_statement_frames": sum(_stat(ln, "pre") for ln in e),
        "e2e_batch_frames": sum(_stat(ln, "bat") for ln in e),
        "e2e_paged_query_frames": sum(_stat(ln, "pag") for ln in e),
        "e2e_node_restarts": sum(_stat(ln, "rst") for ln in e),
        "e2e_reshards": sum(_stat(ln, "rsh") for ln in e),
        "e2e_scenarios_ending_with_more_than_3_nodes": sum(1 for ln in e if _stat(ln, "nd") > 3),
        "e2e_delayed_setkeyspace_answers": sum(_stat(ln, "dly") for ln in e),
        "e2e_frames_that_overtook_a_delayed_answer": sum(_stat(ln, "early") for ln in e),
        "e2e_handler_vs_mocknode_keyspace_disagreements": sum(_stat(ln, "xck") for ln in e),
        "e2e_requests_abandoned_after_3s": sum(_stat(ln, "slow") for ln in e),
    }


SPEC = {
    "pid": "C20",
    "coq_targets": ["Props/C20.vo", "Extract/ExC20.vo"],
    "bin": "c20",
    "sizes": {"quick": 30000, "thorough": 2000000},
    # 34 233 / 2 004 233 pure cases + the e2e scenarios: a run that lost its e2e part is below the floor
    "min_cases": {"quick": 34300, "thorough": 2005000},
    # the search stage re-runs the thorough e2e part as well: one round, not three (loopback ports)
    "search_n": 300000,
    "rule": ("pure part: every string of length 0..3 over the 12 characters a Z 7 _ \" ' ; blank - . e-acute newline "
             "x both case flags, every length 0..60 of a valid and of a two-byte character, every ASCII character alone "
             "and inside a valid name, every outcome list of length <= 3, then seeded random cases: N = name validation "
             "(VerifiedKeyspaceName::new), V = check of a USE response, A = aggregation of per-connection results; "
             "e2e part: E = one seeded scenario (150 quick / 1200 thorough; DESIGN planned 6000, which exhausted the loopback "
             "ports of the machine) of a real Session against mocknode: 1-3(+2 added) nodes, "
             "0-3 shards, pool PerShard(1-2) or PerHost(2-3) (up to 8 connections per node after a reshard to 4 shards), 5-11 (quick) / 5-16 (thorough) generated steps (+ an optional first burst and 5 closing steps) out of use_keyspace (valid / unknown / invalid names; answers normal, "
             "delayed, refused, unanswered, cutting the connection; racing requests and connection kills; two calls at once), "
             "request bursts, kill all connections of a node, close one connection, add a node, sleep; always ending with a "
             "clean use + kill + requests; non-trivial = N/V/A cases and E scenarios with at least one request frame checked "
             "strictly after an undisturbed successful use; also USE issued as an ordinary statement, every third request as "
             "EXECUTE of a prepared statement, every sixth as BATCH, every sixth as paged QUERY; node stop+start and change of "
             "nr_shards (pool rebuilt) standalone and racing with use_keyspace, node addition racing with it; acknowledged "
             "keyspace = mocknode's record (last SetKeyspace answer completely written); scenarios not run (no session/mock, harness cap, mock wrote two SetKeyspace answers of one connection "
             "out of arrival order) are counted and fail the check above max(3, 2%); floors (only for runs with >= 100 scenarios): 60% of "
             "started scenarios with strict frames, 30% with strict frames on connections the mock registered after the call, and at "
             "least one prepared, BATCH, paged, overtaking frame, successful call, restart, reshard in the run; "
             "distinct = distinct case lines"),
    "nontrivial": lambda ln: (not ln.startswith("E ")) or _stat(ln, "strict") > 0,
    "extra_coverage": lambda lines, verdicts: _e2e_cov(lines),
    "post": _post,
    "search_rounds": 1,
    "runner_timeout": 3000,
    "trusted_base": [
        "vh::mocknode (scripted CQL mock cluster): per connection the keyspace of the last SetKeyspace answer completely written (ReqCtx.keyspace); the runner's handler records request-frame arrivals and client-side call/return/start events in one mutex-ordered sequence and keeps its own acknowledgement record as a cross-check",
        "census (checks/c20.py): select! arms of PoolRefiller::run and the counts of the sites where connections are opened / set up / pushed / published in connection_pool.rs, and counts + token order in worker.rs, node.rs, state.rs, session.rs (CENSUS_MORE), compared with the values the model was written from",
        "hook scylla::client::verif_keyspace (pass-through to VerifiedKeyspaceName::new, Connection::verify_use_keyspace_result, cluster::use_keyspace_result)",
        "valid_name / parse_use are the name grammar and statement shape transcribed from the property text; the verdict on the USE texts seen by the mock is the extracted texts_verdict (Model/Keyspace.v section 8: benign characters, identifiers = maximal alphabet runs), characterised by C20_text_viol_iff / C20_statement_never_viol",
    ],
    "assumptions": [
        "use_keyspace calls that overlap with a different name are outside the guarantee (documented API contract). Acceptor: after an undisturbed successful call the allowed set is that keyspace alone; after a group of overlapping calls that ALL returned Ok it is the set of the group's keyspaces; after a group with a failed call it is everything allowed before the group plus every keyspace named since, until the next call or group that succeeds",
        "e2e: the USE statements of one connection are answered in arrival order (the runner's handler delays a USE behind a still-delayed SetKeyspace answer of the same connection); a scenario in which the mock's own trace shows two completely written SetKeyspace answers of one connection in another order than their USEs arrived is reported as not-run (decided from the trace order, no clock)",
        "pool model granularity: one select! arm of PoolRefiller::run, one submission / one answer of a USE, one connection break = one atomic step; per-connection USE frames are answered in submission order (one TCP stream)",
        "strings are modelled as lists of Unicode scalar values (chars().count(); eq_ignore_ascii_case on UTF-8 bytes = comparison of scalar values with A-Z folded)",
    ],
}

def main(argv):
    return run_check(SPEC, argv)
