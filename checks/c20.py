from orchestrate.common import run_check

import re


def _stat(ln, key):
    m = re.search(r"[ ,]%s=(\d+)" % key, ln)
    return int(m.group(1)) if m else 0


def _skipped(ln):
    return ln.startswith("E ") and "| not-run" in ln


def _post(lines, verdicts):
    """Floors on what the e2e tie really observed (a run that observed too little is a broken
    correspondence = diff, never ok):
    * scenarios that were not run (no session / mock, harness cap exceeded) observe nothing: tolerated and
      reported up to max(3, 2 %), a diff above that;
    * of the started scenarios at least 80 % must contain request frames judged strictly (requests started
      while a keyspace was established by an undisturbed successful call), at least 50 % such frames on
      connections accepted AFTER that call returned, and overall there must be prepared-statement frames
      and frames that overtook a delayed SetKeyspace answer (the send->ack window is open)."""
    e = [ln for ln in lines if ln.startswith("E ")]
    if not e:
        return []
    out = []
    sk = [ln for ln in e if _skipped(ln)]
    if len(sk) > max(3, len(e) // 50):
        out.append(("diff", sk[0], "diff e2e tie not exercised: %d of %d scenarios were not run (%s)"
                    % (len(sk), len(e), sk[0].split("|", 1)[1].strip())))
    st = [ln for ln in e if "| none " in ln]
    if st:
        def frac(key):
            return sum(1 for ln in st if _stat(ln, key) > 0) / len(st)
        for key, floor in (("strict", 0.8), ("late", 0.5)):
            if frac(key) < floor:
                out.append(("diff", st[0][:200], "diff e2e floor: only %.0f%% of %d started scenarios have %s > 0 (floor %.0f%%)"
                            % (100 * frac(key), len(st), key, 100 * floor)))
        for key in ("pre", "early", "ok"):
            if len(st) >= 100 and sum(_stat(ln, key) for ln in st) == 0:
                out.append(("diff", st[0][:200], "diff e2e floor: no scenario has %s > 0" % key))
    return out


def _e2e_cov(lines):
    e = [ln for ln in lines if ln.startswith("E ")]
    return {
        "e2e_scenarios": len(e),
        "e2e_scenarios_not_run": sum(1 for ln in e if _skipped(ln)),
        "e2e_connections_opened": sum(_stat(ln, "op") for ln in e),
        "e2e_successful_use_calls": sum(_stat(ln, "ok") for ln in e),
        "e2e_request_frames_checked": sum(_stat(ln, "fr") for ln in e),
        "e2e_strict_frames": sum(_stat(ln, "strict") for ln in e),
        "e2e_strict_frames_on_connections_opened_after_the_call": sum(_stat(ln, "late") for ln in e),
        "e2e_scenarios_with_strict_frames": sum(1 for ln in e if _stat(ln, "strict") > 0),
        "e2e_prepared_statement_frames": sum(_stat(ln, "pre") for ln in e),
        "e2e_delayed_setkeyspace_answers": sum(_stat(ln, "dly") for ln in e),
        "e2e_frames_that_overtook_a_delayed_answer": sum(_stat(ln, "early") for ln in e),
        "e2e_handler_vs_mocknode_keyspace_disagreements": sum(_stat(ln, "xck") for ln in e),
        "e2e_requests_abandoned_after_3s": sum(_stat(ln, "slow") for ln in e),
    }


SPEC = {
    "pid": "C20",
    "coq_targets": ["Props/C20.vo", "Extract/ExC20.vo"],
    "bin": "c20",
    "sizes": {"quick": 30000, "thorough": 2000000},
    "min_cases": {"quick": 33000, "thorough": 1900000},
    # the search stage re-runs the thorough e2e part as well: one round, not three (loopback ports)
    "search_n": 300000,
    "rule": ("pure part: every string of length 0..3 over the 12 characters a Z 7 _ \" ' ; blank - . e-acute newline "
             "x both case flags, every length 0..60 of a valid and of a two-byte character, every ASCII character alone "
             "and inside a valid name, every outcome list of length <= 3, then seeded random cases: N = name validation "
             "(VerifiedKeyspaceName::new), V = check of a USE response, A = aggregation of per-connection results; "
             "e2e part: E = one seeded scenario (150 quick / 1200 thorough; DESIGN planned 6000, which exhausted the loopback "
             "ports of the machine) of a real Session against mocknode: 1-3(+2 added) nodes, "
             "0-3 shards, pool 1-3 connections, 5-16 steps out of use_keyspace (valid / unknown / invalid names; answers normal, "
             "delayed, refused, unanswered, cutting the connection; racing requests and connection kills; two calls at once), "
             "request bursts, kill all connections of a node, close one connection, add a node, sleep; always ending with a "
             "clean use + kill + requests; non-trivial = N/V/A cases and E scenarios with at least one request frame checked "
             "strictly after an undisturbed successful use; also USE issued as an ordinary statement, every third request as "
             "EXECUTE of a prepared statement; acknowledged keyspace = last SetKeyspace answer WRITTEN (delayed answers apply "
             "when their delay elapsed); scenarios not run (no session/mock, harness cap) are counted and fail the check above "
             "max(3, 2%); floors: 80% of started scenarios with strict frames, 50% with strict frames on connections opened "
             "after the call, some prepared frames and some frames overtaking a delayed answer; "
             "distinct = distinct case lines"),
    "nontrivial": lambda ln: (not ln.startswith("E ")) or _stat(ln, "strict") > 0,
    "extra_coverage": lambda lines, verdicts: _e2e_cov(lines),
    "post": _post,
    "search_rounds": 1,
    "runner_timeout": 3000,
    "trusted_base": [
        "vh::mocknode (scripted CQL mock cluster) + the runner's handler, which keeps per connection the keyspace of the last SetKeyspace answer written (a delayed answer counts from the end of its delay; mocknode's own record marks it when the USE frame is handled and is only cross-checked) and records request-frame arrivals and client-side call/return/start events in one mutex-ordered sequence",
        "hook scylla::client::verif_keyspace (pass-through to VerifiedKeyspaceName::new, Connection::verify_use_keyspace_result, cluster::use_keyspace_result)",
        "valid_name / parse_use are the name grammar and statement shape transcribed from the property text",
    ],
    "assumptions": [
        "use_keyspace calls that overlap with a different name are outside the guarantee (documented API contract); the acceptor then only requires one of the names in play",
        "pool model granularity: one select! arm of PoolRefiller::run, one submission / one answer of a USE, one connection break = one atomic step; per-connection USE frames are answered in submission order (one TCP stream)",
        "strings are modelled as lists of Unicode scalar values (chars().count(); eq_ignore_ascii_case on UTF-8 bytes = comparison of scalar values with A-Z folded)",
    ],
}

def main(argv):
    return run_check(SPEC, argv)
