from orchestrate.common import run_check

import re


def _stat(ln, key):
    m = re.search(r"[ ,]%s=(\d+)" % key, ln)
    return int(m.group(1)) if m else 0


def _skipped(ln):
    return ln.startswith("E ") and "| skip-env" in ln


def _post(lines, verdicts):
    """Scenarios that could not start (no loopback ports) observe nothing. A few are tolerated and
    reported; more than max(3, 2 %) means the e2e tie was not exercised and the check must fail."""
    e = [ln for ln in lines if ln.startswith("E ")]
    sk = [ln for ln in e if _skipped(ln)]
    if e and len(sk) > max(3, len(e) // 50):
        return [("diff", sk[0], "diff e2e tie not exercised: %d of %d scenarios could not start (%s)"
                 % (len(sk), len(e), sk[0].split("|", 1)[1].strip()))]
    return []


def _e2e_cov(lines):
    e = [ln for ln in lines if ln.startswith("E ")]
    return {
        "e2e_scenarios": len(e),
        "e2e_scenarios_not_started_env": sum(1 for ln in e if _skipped(ln)),
        "e2e_connections_opened": sum(_stat(ln, "op") for ln in e),
        "e2e_successful_use_calls": sum(_stat(ln, "ok") for ln in e),
        "e2e_request_frames_checked": sum(_stat(ln, "fr") for ln in e),
        "e2e_request_frames_after_successful_use": sum(_stat(ln, "strict") for ln in e),
        "e2e_scenarios_with_strict_frames": sum(1 for ln in e if _stat(ln, "strict") > 0),
        "e2e_requests_abandoned_after_3s": sum(_stat(ln, "slow") for ln in e),
    }


SPEC = {
    "pid": "C20",
    "coq_targets": ["Props/C20.vo", "Extract/ExC20.vo"],
    "bin": "c20",
    "sizes": {"quick": 30000, "thorough": 2000000},
    # the search stage re-runs the thorough e2e part as well: one round, not three (loopback ports)
    "search_n": 300000,
    "rule": ("pure part: every string of length 0..3 over the 12 characters a Z 7 _ \" ' ; blank - . e-acute newline "
             "x both case flags, every length 0..60 of a valid and of a two-byte character, every ASCII character alone "
             "and inside a valid name, every outcome list of length <= 3, then seeded random cases: N = name validation "
             "(VerifiedKeyspaceName::new), V = check of a USE response, A = aggregation of per-connection results; "
             "e2e part: E = one seeded scenario (150 quick / 1200 thorough; DESIGN planned 6000, which exhausted the loopback "
             "ports of the machine) of a real Session against mocknode: 1-3(+2 added) nodes, "
             "0-3 shards, pool 1-3 connections, 5-16 steps out of use_keyspace (valid / unknown / invalid names; answers normal, "
             "delayed, refused, unanswered, cutting the connection; racing requests and connection kills; two calls at once), "
             "request bursts, kill all connections of a node, close one connection, add a node, sleep; always ending with a "
             "clean use + kill + requests; non-trivial = N/V/A cases and E scenarios with at least one request frame checked "
             "strictly after a successful use; scenarios whose session could not be built for lack of loopback ports "
             "(EADDRINUSE after 3 retries) are reported as not-run, counted, and fail the check above max(3, 2%); "
             "distinct = distinct case lines"),
    "nontrivial": lambda ln: (not ln.startswith("E ")) or _stat(ln, "strict") > 0,
    "extra_coverage": lambda lines, verdicts: _e2e_cov(lines),
    "post": _post,
    "search_rounds": 1,
    "runner_timeout": 3000,
    "trusted_base": [
        "vh::mocknode (scripted CQL mock cluster): per connection the keyspace acknowledged so far; the runner's handler records request-frame arrivals and client-side call/return/start events in one mutex-ordered sequence",
        "hook scylla::client::verif_keyspace (pass-through to VerifiedKeyspaceName::new, Connection::verify_use_keyspace_result, cluster::use_keyspace_result)",
        "valid_name / parse_use are the name grammar and statement shape transcribed from the property text",
    ],
    "assumptions": [
        "use_keyspace calls that overlap with a different name are outside the guarantee (documented API contract); the acceptor then only requires one of the names in play",
        "pool model granularity: one select! arm of PoolRefiller::run, one submission / one answer of a USE, one connection break = one atomic step; per-connection USE frames are answered in submission order (one TCP stream)",
        "strings are modelled as lists of Unicode scalar values (chars().count(); eq_ignore_ascii_case on UTF-8 bytes = comparison of scalar values with A-Z folded)",
    ],
}

def main(argv):
    return run_check(SPEC, argv)
