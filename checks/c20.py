from orchestrate.common import run_check

SPEC = {
    "pid": "C20",
    "coq_targets": ["Props/C20.vo", "Extract/ExC20.vo"],
    "bin": "c20",
    "sizes": {"quick": 30000, "thorough": 2000000},
    "search_n": 300000,
    "rule": ("pure part: every string of length 0..3 over the 12 characters a Z 7 _ \" ' ; blank - . e-acute newline "
             "x both case flags, every length 0..60 of a valid and of a two-byte character, every ASCII character alone "
             "and inside a valid name, every outcome list of length <= 3, then seeded random cases: N = name validation "
             "(VerifiedKeyspaceName::new), V = check of a USE response, A = aggregation of per-connection results; "
             "non-trivial = every case; distinct = distinct case lines"),
    "nontrivial": lambda ln: True,
    "trusted_base": [
        "hook scylla::client::verif_keyspace (pass-through to VerifiedKeyspaceName::new, Connection::verify_use_keyspace_result, cluster::use_keyspace_result)",
        "valid_name / parse_use are the name grammar and statement shape transcribed from the property text",
    ],
    "assumptions": [
        "strings are modelled as lists of Unicode scalar values (chars().count(); eq_ignore_ascii_case on UTF-8 bytes = comparison of scalar values with A-Z folded)",
    ],
}

def main(argv):
    return run_check(SPEC, argv)
