from orchestrate.common import run_check

def _nontrivial(ln):
    # a case is non-trivial unless the DB-side list is empty or a native type
    f = ln.split()
    return len(f) > 3 and f[3] != "-" and not f[3].startswith("@")

def _extra(lines, verdicts):
    structs, accepted, rejected, rt = set(), 0, 0, 0
    for ln in lines:
        f = ln.split("|")
        head = f[0].split()
        if len(head) > 1:
            structs.add(head[1])
        out = f[1].split() if len(f) > 1 else []
        if out[:1] == ["ok"]:
            accepted += 1
        else:
            rejected += 1
        if "rt" in out and out[out.index("rt") + 1:out.index("rt") + 2] == ["ok"]:
            rt += 1
    return {"derived_structs_exercised": len(structs), "impl_accepted": accepted,
            "impl_rejected": rejected, "impl_round_trips_completed": rt}

SPEC = {
    "pid": "C16",
    "coq_targets": ["Props/C16.vo", "Extract/ExC16.vo"],
    "bin": "c16",
    "sizes": {"quick": 60000, "thorough": 2000000},
    "search_n": 300000,
    "rule": ("fixed family of 52 derived structs (28 UDT-value structs with SerializeValue+DeserializeValue, 12 row structs with "
             "SerializeRow+DeserializeRow, 12 SerializeRow structs with #[scylla(flatten)]), each registered with its descriptor text; "
             "per struct: every permutation of its <= 6 bound fields, every subset of fields missing in 4 orders, one extra field at "
             "every position, two extras at every pair of positions, every field duplicated at every position, every field with "
             "every other DB type, Rust identifiers of renamed fields as DB names, a non-UDT type; per DB list one serialize case "
             "(with round trip through the derived deserializer on the implementation's own bytes) and deserialize cases with "
             "random cells / every null pattern (<= 4 fields) / truncated value lists; then --n seeded random cases. "
             "non-trivial = DB list non-empty and a UDT / column list; distinct = distinct case lines"),
    "nontrivial": _nontrivial,
    "extra_coverage": _extra,
    "trusted_base": [
        "doc_* functions of coq/Model/Derive.v are the attribute documentation of scylla-macros/src/lib.rs transcribed by hand",
        "the descriptor text registered next to each struct of harness/src/bin/c16.rs (checked by the tie: a wrong descriptor disagrees)",
        "field value codec abstracted to cells: i32 / String / Option<i32> / Option<String> against int / text / bigint only",
    ],
    "assumptions": [
        "descriptors satisfy the macros' own compile-time validate (no duplicate field names among non-skipped fields)",
        "serialized values handed to the deserializers are well-framed ([bytes] cells); malformed framing is C08's subject",
        "text payloads are ASCII or contain byte 0xff (the model's UTF-8 validity test is exact only on those)",
    ],
}

def main(argv):
    return run_check(SPEC, argv)
