from orchestrate.common import run_check

def _nontrivial(ln):
    # a case is non-trivial unless the DB-side list is empty or a native type
    f = ln.split()
    return len(f) > 3 and f[3] != "-" and not f[3].startswith("@")

def _extra(lines, verdicts):
    structs, accepted, rejected, rt = set(), 0, 0, 0
    for ln in lines:
        f = ln.split("|")
        head = f[0].split()
        if len(head) > 1:
            structs.add(head[1])
        out = f[1].split() if len(f) > 1 else []
        if out[:1] == ["ok"]:
            accepted += 1
        else:
            rejected += 1
        if "rt" in out and out[out.index("rt") + 1:out.index("rt") + 2] == ["ok"]:
            rt += 1
    return {"derived_structs_exercised": len(structs), "impl_accepted": accepted,
            "impl_rejected": rejected, "impl_round_trips_completed": rt}

N_STRUCTS = 71          # registered structs (descriptor self-check, kind XD)
N_NESTED = 5            # structs with derived-struct field types (kind NV)

def _post(lines, verdicts):
    """Coverage floors: the run must really have exercised what the evidence claims.  Skipped for
    replays (a replay file carries only the failing cases)."""
    if len(lines) < 1000:
        return []
    problems = []
    kinds, per_struct, rts, accepted, xd = {}, {}, 0, 0, 0
    for ln in lines:
        f = ln.split("|")
        head = f[0].split()
        out = f[1].split() if len(f) > 1 else []
        if not head:
            continue
        kinds[head[0]] = kinds.get(head[0], 0) + 1
        if head[0] == "XD":
            xd += 1
            continue
        per_struct[head[1]] = per_struct.get(head[1], 0) + 1
        if out[:1] == ["ok"]:
            accepted += 1
        if "rt" in out and out[out.index("rt") + 1:out.index("rt") + 2] == ["ok"]:
            rts += 1
    n = len(lines)
    for k, share in (("SV", 0.10), ("DV", 0.15), ("SR", 0.08), ("DR", 0.05)):
        if kinds.get(k, 0) < share * n:
            problems.append(("diff", f"coverage: kind {k}", f"diff coverage-floor kind {k}: {kinds.get(k, 0)} of {n} cases"))
    if xd != N_STRUCTS:
        problems.append(("diff", "coverage: XD", f"diff coverage-floor descriptor self-check ran for {xd} structs, expected {N_STRUCTS}"))
    for k, floor in (("PR", 2000), ("NV", 2500)):
        if kinds.get(k, 0) < floor:
            problems.append(("diff", f"coverage: kind {k}", f"diff coverage-floor kind {k}: {kinds.get(k, 0)} cases, floor {floor}"))
    if len(per_struct) != N_STRUCTS + N_NESTED or min(per_struct.values()) < 200:
        low = sorted(per_struct.items(), key=lambda kv: kv[1])[:3]
        problems.append(("diff", "coverage: structs", f"diff coverage-floor {len(per_struct)} structs exercised (expected {N_STRUCTS + N_NESTED}), least: {low}"))
    if accepted < 0.25 * n:
        problems.append(("diff", "coverage: accepted", f"diff coverage-floor only {accepted} of {n} cases accepted by the implementation"))
    if rts < 0.05 * n:
        problems.append(("diff", "coverage: round trips", f"diff coverage-floor only {rts} completed round trips"))
    return problems

SPEC = {
    "pid": "C16",
    "coq_targets": ["Props/C16.vo", "Extract/ExC16.vo"],
    "bin": "c16",
    "sizes": {"quick": 60000, "thorough": 2000000},
    "search_n": 300000,
    "rule": ("fixed family of 71 registered derived structs (36 UDT-value structs, 18 row structs with "
             "SerializeRow(+DeserializeRow), 17 SerializeRow structs with #[scylla(flatten)]; among them structs with lifetime / type parameters and #[scylla(crate = ..)]), each registered with its descriptor text (re-derived from the attribute text of the runner's own source as a self-check, kind XD); "
             "per struct: every permutation of its <= 6 bound fields, every subset of fields missing in 4 orders, one extra field at "
             "every position, two extras at every pair of positions, every field duplicated at every position, every field with "
             "every other DB type, Rust identifiers of renamed fields as DB names, a non-UDT type; per DB list one serialize case "
             "(with round trip through the derived deserializer on the implementation's own bytes) and deserialize cases with "
             "random cells / every null pattern (all orders for <= 3 fields, declared and reversed order up to 4 fields quick / 6 thorough) / truncated value lists; then --n seeded random cases (extra names randomised: random identifiers, case variants of the struct's names, Rust identifiers of renamed / skipped fields). Kind PR: row cases re-run on ColumnSpecs decoded by the driver itself from a PREPARED response encoded by mocknode. Kind NV: 5 structs whose field types are derived structs (UDT in UDT, Option<Struct>, Vec<Struct>, UDT as a row column, ordered parent): every outer x inner field order x extras / absent allow_missing, judged by the round-trip law only (no model). "
             "non-trivial = DB list non-empty and a UDT / column list; distinct = distinct case lines"),
    "nontrivial": _nontrivial,
    "extra_coverage": _extra,
    "post": _post,
    "min_cases": {"quick": 120000, "thorough": 3000000},
    "trusted_base": [
        "doc_* functions of coq/Model/Derive.v are the attribute documentation of scylla-macros/src/lib.rs transcribed by hand",
        "the descriptor text registered next to each struct of harness/src/bin/c16.rs (checked by the tie: a wrong descriptor disagrees)",
        "field value codec abstracted to cells: i32 / String / Option<i32> / Option<String> against int / text / bigint only",
    ],
    "assumptions": [
        "descriptors satisfy the macros' own compile-time validate (no duplicate field names among non-skipped fields)",
        "serialized values handed to the deserializers are well-framed ([bytes] cells); malformed framing is C08's subject",
        "text payloads are ASCII or contain byte 0xff (the model's UTF-8 validity test is exact only on those)",
    ],
}

def main(argv):
    return run_check(SPEC, argv)
