import os, re
from orchestrate.common import run_check, REPO, ROOT

def _nontrivial(ln):
    # a case is non-trivial unless the DB-side list is empty or a native type
    f = ln.split()
    return len(f) > 3 and f[3] != "-" and not f[3].startswith("@")

def _extra(lines, verdicts):
    structs, accepted, rejected, rt = set(), 0, 0, 0
    for ln in lines:
        f = ln.split("|")
        head = f[0].split()
        if len(head) > 1:
            structs.add(head[1])
        out = f[1].split() if len(f) > 1 else []
        if out[:1] == ["ok"]:
            accepted += 1
        else:
            rejected += 1
        if "rt" in out and out[out.index("rt") + 1:out.index("rt") + 2] == ["ok"]:
            rt += 1
    return {"derived_structs_exercised": len(structs), "impl_accepted": accepted,
            "impl_rejected": rejected, "impl_round_trips_completed": rt}

STRUCT_IDS = sorted(['V01', 'V02', 'V03', 'V04', 'V05', 'V06', 'V07', 'V08', 'V09', 'V10', 'V11', 'V12', 'V13', 'V14', 'V15', 'V16', 'V17', 'V18', 'V19', 'V20', 'V21', 'V22', 'V23', 'V24', 'V25', 'V26', 'V27', 'V28', 'V29', 'V30', 'V31', 'V32', 'V33', 'R01', 'R02', 'R03', 'R04', 'R05', 'R06', 'R07', 'R08', 'R09', 'R10', 'R11', 'R12', 'R13', 'R14', 'R15', 'F01', 'F02', 'F03', 'F04', 'F05', 'F06', 'F07', 'F08', 'F09', 'F10', 'F11', 'F12', 'F13', 'F14', 'F15', 'F16', 'F17', 'G01', 'L01', 'GR1', 'LR1', 'K01', 'KR1'])
NESTED_IDS = sorted(['N01', 'N02', 'N03', 'N04', 'N05', 'N06', 'N07', 'NR1'])
N_STRUCTS = len(STRUCT_IDS)   # 71 registered structs (descriptor self-check, kind XD)
N_NESTED = len(NESTED_IDS)  # 8 structs with derived-struct field types (kind NV)

# census: the #[scylla(..)] attribute names and flavors the four derive macros understand, read from
# the macro sources of the tree under test.  A new attribute / flavor leaves the family incomplete.
MACRO_FILES = ["scylla-macros/src/serialize/value.rs", "scylla-macros/src/serialize/row.rs",
               "scylla-macros/src/deserialize/value.rs", "scylla-macros/src/deserialize/row.rs"]
PINNED_ATTRS = sorted(["crate", "flavor", "skip_name_checks", "forbid_excess_udt_fields", "rename", "skip",
                       "allow_missing", "default_when_null", "flatten"])
PINNED_FLAVORS = sorted(["match_by_name", "enforce_order"])

def _census():
    """attribute names = fields of the darling structs (after #[darling(rename = ..)]), flavors = the
    string literals of Flavor::from_string"""
    attrs = set()
    for rel in MACRO_FILES:
        src = open(os.path.join(REPO, rel)).read()
        for m in re.finditer(r"#\[darling\(attributes\(scylla\)\)\]\s*struct\s+\w+\s*\{(.*?)\n\}", src, re.S):
            body = re.sub(r"//[^\n]*", "", m.group(1))
            pending = None
            for ln in body.split("\n"):
                ln = ln.strip()
                r = re.match(r'#\[darling\(rename\s*=\s*"(\w+)"\)\]', ln)
                if r:
                    pending = r.group(1)
                    continue
                f = re.match(r"(?:pub\s+)?(\w+)\s*:", ln)
                if f and not ln.startswith("#"):
                    name = pending or f.group(1)
                    pending = None
                    if name not in ("ident", "ty"):          # darling's own magic fields
                        attrs.add(name)
    lib = open(os.path.join(REPO, "scylla-macros/src/lib.rs")).read()
    m = re.search(r"impl FromMeta for Flavor \{(.*?)\n\}", lib, re.S)
    flavors = set(re.findall(r'"(\w+)"\s*=>', m.group(1))) if m else set()
    return sorted(attrs), sorted(flavors)

def _post(lines, verdicts):
    """Coverage floors: the run must really have exercised what the evidence claims.  Skipped for
    replays (a replay file carries only the failing cases)."""
    if len(lines) < 1000:
        return []
    problems = []
    try:
        attrs, flavors = _census()
    except OSError as ex:
        attrs, flavors = ["<unreadable: %s>" % ex], []
    if attrs != PINNED_ATTRS or flavors != PINNED_FLAVORS:
        problems.append(("diff", "census: macro attributes",
                         f"diff census scylla-macros attributes {attrs} flavors {flavors} differ from the pinned {PINNED_ATTRS} {PINNED_FLAVORS}"))
    kinds, per_struct, rts, accepted, xd = {}, {}, 0, 0, 0
    xd_ids, pt_accepted, ascii_accepted = [], 0, 0
    for ln in lines:
        f = ln.split("|")
        head = f[0].split()
        out = f[1].split() if len(f) > 1 else []
        if not head:
            continue
        kinds[head[0]] = kinds.get(head[0], 0) + 1
        if head[0] == "XD":
            xd += 1
            xd_ids.append(head[1])
            continue
        if head[0] == "PT" and out[:1] == ["ok"]:
            pt_accepted += 1
        if out[:1] == ["ok"] and len(head) > 3 and re.search(r":a(,|$)", head[3]):
            ascii_accepted += 1
        per_struct[head[1]] = per_struct.get(head[1], 0) + 1
        if out[:1] == ["ok"]:
            accepted += 1
        if "rt" in out and out[out.index("rt") + 1:out.index("rt") + 2] == ["ok"]:
            rts += 1
    n = len(lines)
    for k, share in (("SV", 0.10), ("DV", 0.15), ("SR", 0.08), ("DR", 0.05)):
        if kinds.get(k, 0) < share * n:
            problems.append(("diff", f"coverage: kind {k}", f"diff coverage-floor kind {k}: {kinds.get(k, 0)} of {n} cases"))
    if sorted(xd_ids) != STRUCT_IDS:
        problems.append(("diff", "coverage: XD", f"diff coverage-floor descriptor self-check ran for {sorted(set(xd_ids) ^ set(STRUCT_IDS))} differently from the pinned struct list"))
    if sorted(per_struct) != sorted(STRUCT_IDS + NESTED_IDS):
        problems.append(("diff", "coverage: structs", f"diff coverage-floor struct ids differ from the pinned list: {sorted(set(per_struct) ^ set(STRUCT_IDS + NESTED_IDS))}"))
    if ascii_accepted < 5000:
        problems.append(("diff", "coverage: ascii", f"diff coverage-floor only {ascii_accepted} accepted cases with an ascii column"))
    if pt_accepted < 200:
        problems.append(("diff", "coverage: PT", f"diff coverage-floor only {pt_accepted} accepted PT cases (per-column table specs)"))
    for k, floor in (("PR", 1500), ("PT", 600), ("NV", 4000)):
        if kinds.get(k, 0) < floor:
            problems.append(("diff", f"coverage: kind {k}", f"diff coverage-floor kind {k}: {kinds.get(k, 0)} cases, floor {floor}"))
    if len(per_struct) != N_STRUCTS + N_NESTED or min(per_struct.values()) < 200:
        low = sorted(per_struct.items(), key=lambda kv: kv[1])[:3]
        problems.append(("diff", "coverage: structs", f"diff coverage-floor {len(per_struct)} structs exercised (expected {N_STRUCTS + N_NESTED}), least: {low}"))
    if accepted < 0.25 * n:
        problems.append(("diff", "coverage: accepted", f"diff coverage-floor only {accepted} of {n} cases accepted by the implementation"))
    if rts < 0.05 * n:
        problems.append(("diff", "coverage: round trips", f"diff coverage-floor only {rts} completed round trips"))
    return problems

SPEC = {
    "pid": "C16",
    "coq_targets": ["Props/C16.vo", "Extract/ExC16.vo"],
    "bin": "c16",
    "sizes": {"quick": 60000, "thorough": 2000000},
    "search_n": 300000,
    "rule": ("fixed family of 71 registered derived structs (36 UDT-value structs, 18 row structs with "
             "SerializeRow(+DeserializeRow), 17 SerializeRow structs with #[scylla(flatten)]; among them structs with lifetime / type parameters and #[scylla(crate = ..)]), each registered with its descriptor text (re-derived from the attribute text of the runner's own source as a self-check, kind XD); "
             "per struct: every permutation of its <= 6 bound fields, every subset of fields missing in 4 orders, one extra field at "
             "every position (quick: only for <= 1 missing field), two extras at every pair of positions (declared and reversed order), every field duplicated at every position (3 orders), every field with "
             "every other DB type (int, text, ascii, bigint; a String field is bound to an ascii column in 1 of 4 random lists unless retyped; floor: >= 5000 accepted cases with an ascii column), Rust identifiers of renamed fields as DB names, a non-UDT type; per DB list one serialize case "
             "(with round trip through the derived deserializer on the implementation's own bytes) and deserialize cases with "
             "random cells / every null pattern (all orders for <= 3 fields, declared and reversed order up to 4 fields quick / 6 thorough) / truncated value lists; then --n seeded random cases (extra names randomised: random identifiers, case variants of the struct's names, Rust identifiers of renamed / skipped fields). Kind PR / PT: row cases re-run on ColumnSpecs decoded by the driver itself from a PREPARED response encoded by mocknode (PT: last column in a second table, per-column table specs). Kind NV: 8 structs whose field types are derived structs (UDT in UDT, Option<Struct>, Vec<Struct> as list and as set, BTreeMap<i32, Struct>, (i32, Struct) tuple, UDT as a row column, ordered parent): every outer x inner field order x extras / absent allow_missing, judged by the round-trip law only (no model). "
             "non-trivial = DB list non-empty and a UDT / column list; distinct = distinct case lines"),
    "nontrivial": _nontrivial,
    "extra_coverage": _extra,
    "post": _post,
    "min_cases": {"quick": 120000, "thorough": 3000000},
    "trusted_base": [
        "doc_* functions of coq/Model/Derive.v are the attribute documentation of scylla-macros/src/lib.rs transcribed by hand; for enforce_order with names checked the strict type_check / serialization tables are proved equivalent to the inductive relation ord_bind of coq/Model/DeriveSpec.v",
        "the descriptor text registered next to each struct of harness/src/bin/c16.rs (re-derived from the struct's attribute text on every run, kind XD; a struct whose two texts differ gets no cases)",
        "the 8 structs with nested derived-struct fields (kind NV) have no model: round-trip law only, bytes and rejections unchecked",
        "field value codec abstracted to cells: i32 / String / Option<i32> / Option<String> against int / text / ascii / bigint only",
    ],
    "assumptions": [
        "descriptors satisfy the macros' own compile-time validate (no duplicate field names among non-skipped fields)",
        "serialized values handed to the deserializers are well-framed ([bytes] cells); malformed framing is C08's subject",
        "text payloads are ASCII or contain byte 0xff (neither ASCII nor valid UTF-8: the model's validity test is exact only on those, for text and for ascii columns alike)",
        "open finding F24 (class ordered-allow-missing-present-but-dropped): enforce_order + allow_missing accepts a UDT listing the field at another place and drops its value; on such inputs the class tag (KNOWN-FINDING) is given only when bytes and round-trip outcome equal the model of that behaviour, a rejection is ok (documented), any other accepted output is an untagged viol",
        "census: the attribute names / flavors of scylla-macros (read from the tree under test) equal the pinned list",
    ],
}

def main(argv):
    return run_check(SPEC, argv)
