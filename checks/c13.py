from orchestrate.common import run_check


def _extra(lines, verdicts):
    multi = 0
    obs = 0
    for ln in lines:
        if ln.startswith("X "):
            k = len(ln.split("|", 1)[1].split())
            obs += k
            if k > 1:
                multi += 1
    return {"observations_checked": obs, "cases_with_more_than_one_observed_tie_resolution": multi}


SPEC = {
    "pid": "C13",
    "coq_targets": ["Props/C13.vo", "Extract/ExC13.vo"],
    "bin": "c13",
    "sizes": {"quick": 40000, "thorough": 2000000},
    "search_n": 400000,
    "rule": ("I = the complete can_be_ignored table (every RequestError / RequestAttemptError / DbError variant); "
             "X max interval fibers = one call of the real speculative_execution::execute under a paused Tokio clock "
             "with synthetic executions (k-th runner invocation sleeps dur_k ticks and yields out_k in "
             "{Success tag, any error variant, None = plan exhausted}); exhaustive part: every assignment of "
             "(duration in a 4-5 point grid, outcome class) to 1+max executions for max <= 2 (quick) / <= 3 (thorough) x "
             "intervals; seeded random part: max 0..4, <= 5 executions, interval in {0,1,2,3,5,(6..20)}, durations biased "
             "to ties with the timer and with each other. Every call is repeated 3 (quick) / 4 (thorough) / 48 (replay) "
             "times because select! breaks ties pseudo-randomly; each distinct observation "
             "(start times / result / end time) must be a member of the model's set of tie resolutions. "
             "non-trivial = every X case with at least one execution specified and every I case; distinct = distinct case lines"),
    "nontrivial": lambda ln: not ln.startswith("X ") or " - |" not in ln,
    "trusted_base": [
        "hook scylla::policies::verif_speculative (pass-through to speculative_execution::execute / can_be_ignored, Context constructor)",
        "Tokio's paused clock (start_paused current-thread runtime): virtual time advances only when the runtime is idle, exactly to the next timer deadline",
        "spec_transient / classify / spec_returned / prop_obs are the reading of the property text (which errors are 'ignorable', what must be returned when)",
    ],
    "assumptions": [
        "executions terminate (each Complete label is eventually offered): fiber termination itself is C06/C10's subject",
        "select! tie-breaking and the order in which FuturesUnordered yields executions that became ready at the same instant are an oracle: the model enumerates every resolution, the acceptor checks membership",
    ],
    "extra_coverage": _extra,
}


def main(argv):
    return run_check(SPEC, argv)
