import re

from orchestrate.common import run_check, REPO
from checks.c06 import e2e_post, e2e_coverage, _skipped, _fld, _nframes, full_run

# ---- census tie: the variant lists of the three error enums in /repo vs. the model's inductive
# types (the names of the I cases are produced from coq/Model/Spec.v's all_request_errors through
# the runner's table and checked by the driver against request_error_of_name).  It pins structure
# only: a new variant cannot appear without the can_be_ignored table of the model being revisited.


def _variants(path, enum):
    try:
        src = open(path).read()
    except OSError:
        return None
    m = re.search(r"pub enum " + enum + r"\s*\{", src)
    if not m:
        return None
    i = m.end()
    depth = 1
    j = i
    in_str = False
    while depth and j < len(src):
        ch = src[j]
        if in_str:
            if ch == "\\":
                j += 1
            elif ch == '"':
                in_str = False
        elif ch == '"':
            in_str = True
        elif ch == "{":
            depth += 1
        elif ch == "}":
            depth -= 1
        j += 1
    body = src[i:j - 1]
    body = re.sub(r'"(?:\\.|[^"\\])*"', '""', body, flags=re.S)
    body = re.sub(r"//[^\n]*", "", body)
    out = ""
    k = 0
    while k < len(body):
        if body.startswith("#[", k):
            d = 0
            while k < len(body):
                if body[k] == "[":
                    d += 1
                elif body[k] == "]":
                    d -= 1
                    if d == 0:
                        break
                k += 1
            k += 1
        else:
            out += body[k]
            k += 1
    names = []
    depth = 0
    cur = ""
    for ch in out + ",":
        if ch in "{(":
            depth += 1
        elif ch in "})":
            depth -= 1
        elif ch == "," and depth == 0:
            w = cur.split()
            if w and re.match(r"[A-Z]\w*$", w[0]):
                names.append(w[0])
            cur = ""
        elif depth == 0:
            cur += ch
    return names


def _census(lines):
    problems = []
    req = _variants(REPO + "/scylla/src/errors.rs", "RequestError")
    att = _variants(REPO + "/scylla/src/errors.rs", "RequestAttemptError")
    db = _variants(REPO + "/scylla-cql-core/src/frame/response/error.rs", "DbError")
    if req is None or att is None or db is None:
        return [("diff", "census", "diff census: cannot find the error enums in /repo")]
    code = set()
    for v in req:
        if v == "LastAttemptError":
            for a in att:
                if a == "DbError":
                    code.update("LastAttemptError.DbError." + d for d in db)
                else:
                    code.add("LastAttemptError." + a)
        else:
            code.add(v)
    model = {ln.split()[1][1:] for ln in lines if ln.startswith("I E")}
    if not model and full_run(lines):
        problems.append(("diff", "census", "diff census: the run contains no I case (can_be_ignored table not tied)"))
    if model and code != model:
        problems.append(("diff", "census RequestError/RequestAttemptError/DbError variants",
                         "diff census: only-in-code=%s only-in-model=%s"
                         % (sorted(code - model), sorted(model - code))))
    return problems


E13_FLOORS = [
    ("not idempotent with a speculative policy through a pager", lambda t: _fld(t, "idem") == "0" and _fld(t, "spec") != "-" and _fld(t, "api") in ("qi", "ei"), 80),
    ("not idempotent with a speculative policy", lambda t: _fld(t, "idem") == "0" and _fld(t, "spec") != "-", 300),
    ("idempotent with a speculative policy and more than one frame", lambda t: _fld(t, "idem") == "1" and _fld(t, "spec") != "-" and _nframes(t) > 1, 250),
    ("idempotent with max_retry_count = 0", lambda t: _fld(t, "idem") == "1" and _fld(t, "spec").startswith("0:"), 30),
    ("idempotent with max_retry_count = 0 and a slow first answer (a frame unanswered or answered > 100 ms after arrival)",
     lambda t: _fld(t, "idem") == "1" and _fld(t, "spec").startswith("0:") and _slow_first(t), 14),
    ("that failed", lambda t: _fld(t, "res").startswith("X"), 150),
]
# IF / XF are deterministic blocks: one IF case per generated field variant of every fielded error class
# (1188), six directed XF shapes per variant (7128)
KIND_FLOORS = {"I": 35, "X": 100000, "P": 30000, "IF": 1188, "XF": 7128}
# fielded error classes whose every boolean / enum field value must occur in the directed XF block, in a shape where
# the error is produced while another execution is still in flight (first two shapes) and as the last result
XF_FIELD_VALUES = (
    [("RateLimitReached", "rbc%d" % b) for b in (0, 1)] + [("RateLimitReached", "op" + o) for o in ("R", "W", "O2")]
    + [(c, ";%d" % b) for c in ("ReadTimeout", "ReadFailure") for b in (0, 1)]
    + [(c, ";" + w) for c in ("WriteTimeout", "WriteFailure")
       for w in ("Simple", "Batch", "UnloggedBatch", "Counter", "BatchLog", "Cas", "View", "Cdc", "Other")]
    + [(c, "~" + cl + ";") for c in ("Unavailable", "ReadTimeout", "WriteTimeout", "ReadFailure", "WriteFailure")
       for cl in ("Any", "One", "Two", "Three", "Quorum", "All", "LocalQuorum", "EachQuorum", "LocalOne", "Serial", "LocalSerial")]
)


def _xf_floor(lines):
    """every (class, field value) above: >= 1 XF case with a success pending and >= 1 as the last result"""
    seen = set()
    for ln in lines:
        if not ln.startswith("XF "):
            continue
        case = ln.split("|")[0]
        pending = ":S" in case
        for tok in case.split()[3].split(","):
            if "~" not in tok:
                continue
            name, var = tok.split(":", 1)[1].split("~", 1)
            cls = name.rsplit(".", 1)[-1]
            v = "~" + var + ";"
            for c, fv in XF_FIELD_VALUES:
                # "~Cl;" = first field, "op.." = first field, "rbc." / ";<dp>" / ";<write type>" = last field
                hit = v.startswith(fv) if fv.startswith("~") else v.startswith("~" + fv + ";") if fv.startswith("op") \
                    else v.endswith(";" + fv + ";") if fv.startswith("rbc") else v.endswith(fv + ";")
                if c == cls and hit:
                    seen.add((c, fv, pending))
    return [(c, fv, p) for c, fv in XF_FIELD_VALUES for p in (True, False) if (c, fv, p) not in seen]



def _slow_first(t):
    fr = _fld(t, "fr")
    if fr == "-":
        return False
    p = fr.split(",")[0].split("/")
    return p[3] == "-" or int(p[3], 16) - int(p[2], 16) > 100000


def _post(lines, verdicts):
    out = _census(lines) + e2e_post(lines, "E13", E13_FLOORS)
    if full_run(lines):
        sh = sum(1 for ln in lines if ln.startswith("E13 ") and re.search(r"\| env:\d+:rp\d+:sh[1-9]", ln))
        if sh < 40:
            out.append(("diff", "E13", "diff e2e floor: %d scenarios on sharded nodes (floor 40)" % sh))
        kinds = {}
        for ln in lines:
            k = ln.split(" ", 1)[0]
            kinds[k] = kinds.get(k, 0) + 1
        missing = _xf_floor(lines)
        if missing:
            out.append(("diff", "XF", "diff floor: directed XF block lacks (class, field value, success pending) %s" % missing[:6]))
        for k, floor in KIND_FLOORS.items():
            if kinds.get(k, 0) < floor:
                out.append(("diff", k, "diff floor: %d %s cases (floor %d)" % (kinds.get(k, 0), k, floor)))
        # the zero-budget boundary in the paused-clock grid: max = 0 with an execution longer than the interval
        z = sum(1 for ln in lines if ln.startswith("X 0 ") and _x_slow(ln))
        if z < 8:
            out.append(("diff", "X", "diff floor: %d X cases with max = 0 and a duration above the interval (floor 8)" % z))
    return out


def _x_slow(ln):
    f = ln.split("|")[0].split()
    try:
        iv = int(f[2], 16)
        return f[3] != "-" and int(f[3].split(",")[0].split(":")[0], 16) > iv
    except (IndexError, ValueError):
        return False


def _extra(lines, verdicts):
    multi = 0
    obs = 0
    for ln in lines:
        if ln.startswith("X ") or ln.startswith("XF ") or ln.startswith("P "):
            # observations only: the last token of an X line (`c=...`) is the real can_be_ignored classification
            k = len([t for t in ln.split("|", 1)[1].split() if not t.startswith("c=")])
            obs += k
            if k > 1:
                multi += 1
    fielded = sum(1 for ln in lines if ln.startswith("X ") and "~" in ln.split("|")[0])
    return {"observations_checked": obs, "random_X_cases_with_a_field_variant": fielded, "cases_with_more_than_one_observed_tie_resolution": multi,
            "census": "variant lists of RequestError / RequestAttemptError / DbError in /repo == the model's (34 error names)",
            **e2e_coverage(lines, "E13")}


SPEC = {
    "pid": "C13",
    "coq_targets": ["Props/C13.vo", "Extract/ExC13.vo"],
    "bin": "c13",
    "sizes": {"quick": 150000, "thorough": 2000000},
    "min_cases": {"quick": 150000, "thorough": 1900000},
    "search_n": 400000,
    "rule": ("I = the complete can_be_ignored table (every RequestError / RequestAttemptError / DbError variant). "
             "Error names may carry a field suffix ~<fields> naming the field values of the constructed real value (the model and the "
             "code's classification are field-independent; the driver drops the suffix; the runner reads the fields back from the value): "
             "IF = can_be_ignored over every generated field variant (1188: RateLimitReached op_type Read/Write/Other x rejected_by_coordinator; "
             "Unavailable 11 consistencies x alive 0 / < / = / > required; Read/WriteTimeout, Read/WriteFailure 11 consistencies x received 0 / < / = / > required "
             "x data_present resp. 9 write types incl. Other; AlreadyExists / FunctionFailure strings, Unprepared ids, Other codes, server message, "
             "BrokenConnectionError / ConnectionPoolError kinds, ...); XF = six directed execute shapes per variant (error while another execution is in "
             "flight and succeeds later: first / second execution / two failures; the error as the last result: both orders, alone); "
             "7 of 8 fielded errors of the random X part carry a seeded variant. "
             "X max interval fibers = one call of the real speculative_execution::execute (hook) under a paused Tokio "
             "clock with synthetic executions (k-th runner invocation sleeps dur_k ticks and yields out_k in "
             "{Success tag, any error variant, None = plan exhausted}); exhaustive part: every assignment of "
             "(duration from a grid, outcome class) to 1+max executions for max 0..4 in both tiers (quick: 4-point grids for "
             "max <= 2, 2 durations for max 3, 1 for max 4; thorough: 4-5 point grids up to max 3, 2 durations for max 4) x "
             "intervals; the last token of an X observation tells how the REAL can_be_ignored classified each listed "
             "outcome (where it differs from the model's table the case is a diff); seeded random part (3/4 of n): max 0..4, <= 5 executions, interval in {0,1,2,3,5,(6..20)}, "
             "durations biased to ties with the timer and with each other. "
             "P idem metrics policy targets = one call of the real run_request_no_side_effects (hook) over a plan of "
             "probe targets (each attempt lasts delay ticks, then fails with a pool error); exhaustive part: every gate "
             "configuration x every plan of <= 3 (4) targets with delays in {0,1,2}; random part (1/4 of n): <= 8 targets. "
             "Every call is repeated 3 (quick) / 4 (thorough) / 48 (replay) times because select! breaks ties "
             "pseudo-randomly; each distinct observation (X: start times / result / end time; P: begin/end events of the "
             "attempts with times / result / end time) must be a member of the model's set of tie resolutions. "
             "E13 = end to end: one seeded scenario (260 quick / 2500 thorough / 600 in search rounds; the first 14 are fixed "
             "shapes: statement not idempotent / idempotent x profile with / without a speculative policy, first answer of "
             "every page delayed 300 ms, through each of the 7 session APIs) = a mock cluster of 2-4 nodes + one real "
             "Session + 3-9 logical requests (query_unpaged / execute_unpaged / batch / *_single_page / *_iter, 1-3 pages; "
             "88 % with SimpleSpeculativeExecutionPolicy max 0-3, interval 30 ms; 40 % of the scenarios on nodes with 2-3 shards; 60 % idempotent; answers delayed 300 ms "
             "on the first / later frames, successes, ignorable and definitive ERROR frames; no cut connections); per "
             "logical request and page the frames the mock received with arrival / answer instants, the call's start / "
             "return instants, the caller's result and coordinator must be accepted by the extracted checker e2e_check13 "
             "on a certificate the driver proposes (fibers + a schedule of execute); answer instants closer than 150 ms + "
             "3 x the largest scheduling stall measured during the request count as simultaneous; "
             "non-trivial = every case except X/P cases with an empty fiber/target list and E13 scenarios that could not "
             "start; distinct = distinct case lines"),
    "nontrivial": lambda ln: " - |" not in ln and not (ln.startswith("E13 ") and _skipped(ln)),
    "trusted_base": [
        "hook scylla::policies::verif_speculative (pass-through to speculative_execution::execute / can_be_ignored, Context constructor)",
        "hook scylla::client::verif_execution_speculative (ProbeTarget: a plan target without a node; run_probe_plan builds RequestExecutionParams and calls run_request_no_side_effects)",
        "Tokio's paused clock (start_paused current-thread runtime): virtual time advances only when the runtime is idle, exactly to the next timer deadline",
        "spec_transient / classify / spec_returned / prop_obs / prop_trace are the reading of the property text (which errors are 'ignorable', what must be returned when, what 'in flight' means)",
        "census scanner in checks/c13.py (regex over the three enum definitions)",
        "e2e: vh::mocknode (scripted CQL mock cluster; one trace with one clock; an answer is logged before it is written), "
        "harness/src/e2e_attempts.rs (scenario generator, scripting handler, call start / return instants read from the "
        "mock's clock, scheduling-stall watchdog on the scenario's single-threaded runtime)",
        "e2e: the OCaml driver only PROPOSES certificates (fibers, schedule); acceptance is decided by the extracted "
        "e2e_check13, proved sound against run / spec_returned (C13_e2e_gate, C13_e2e_schedule, C13_e2e_completions); the "
        "fiber part reuses C06's models (Model/Retry.v, Model/Fiber.v)",
    ],
    "assumptions": [
        "executions terminate (each Complete label is eventually offered; fiber termination itself is C06/C10's subject) and an "
        "armed timer eventually fires: 'it always returns' is the proved no-deadlock + measure under these two fairness premises",
        "select! tie-breaking and the order in which FuturesUnordered yields executions that became ready at the same instant are an oracle: the model enumerates every resolution, the acceptor checks membership",
        "e2e: timing enters only through one-sided bounds that hold for every scheduling (a speculative fiber's first frame "
        "arrives no earlier than k intervals after the call started; an answer is logged before it is processed; the call "
        "returns after the answer it returns) and through the margin for the ORDER of answers; how late the driver returns "
        "is not judged",
    ],
    "post": _post,
    "extra_coverage": _extra,
}


def main(argv):
    return run_check(SPEC, argv)
