from orchestrate.common import run_check

def _extra(lines, verdicts):
    pol = {"inherit": 0, "any": 0, "dc": 0, "dc+rack": 0}
    lwt = 0; tok = 0; fo = 0; ta = 0; unknown_ks = 0; down = 0
    rings = set()
    for ln in lines:
        f = ln.split(" ")
        if len(f) < 7:
            continue
        rings.add((f[1], f[2], f[3]))
        p = f[5].split("/"); r = f[6].split("/")
        pol[{"i": "inherit", "a": "any", "d": "dc", "r": "dc+rack"}[p[0][0]]] += 1
        ta += p[1] == "1"; fo += p[2] == "1"
        tok += r[0] != "_"; unknown_ks += r[1] in ("u", "_"); lwt += r[2] != "0"
        down += ("e" in f[4]) or ("d" in f[4])
    return {"policy_preference_kinds": pol, "token_aware_policies": ta, "failover_permitted": fo,
            "requests_with_token": tok, "requests_without_known_keyspace": unknown_ks, "lwt_requests": lwt,
            "cases_with_down_or_disabled_nodes": down, "distinct_clusters": len(rings)}

SPEC = {
    "pid": "C05",
    "coq_targets": ["Props/C05.vo", "Extract/ExC05.vo"],
    "bin": "c05",
    "sizes": {"quick": 120000, "thorough": 1500000},
    "search_n": 200000,
    "rule": ("topologies as C04 (1..12 nodes x 1..3 datacenters x 1..4 racks, datacenter-/rack-less nodes, nodes without "
             "tokens, vnodes, 1 in 8 with a token shared across datacenters) with 1..4 keyspaces (RF 0..nodes+2, RF-0 and "
             "absent datacenters) x per-node flags {enabled+connected, enabled only, disabled} (6 assignment styles) x "
             "DefaultPolicy {inherit / no / DC / DC+rack preference incl. absent DC and rack, token-aware on/off, failover "
             "on/off, shuffling on/off} x request {token at a ring boundary or none, known / unknown keyspace / no table, "
             "non-LWT / confirmed LWT / Serial / LocalSerial consistency, request-level preference}. One line = pick() once, "
             "fallback() once and Plan::new(..) run to exhaustion 3 times. non-trivial = cluster has at least one enabled "
             "node; distinct = distinct case lines"),
    "nontrivial": lambda ln: len(ln.split(" ")) > 6 and ("c" in ln.split(" ")[4] or "e" in ln.split(" ")[4]),
    "trusted_base": [
        "group_of / lwt_sequence / the P_* predicates of Model/Plan.v are the plan order of the property text written over the C04 replica sets",
        "hook scylla::cluster::verif_node_flags (per-host is_enabled / is_connected override) on pool-less nodes of scylla::cluster::verif_state::cluster_state; without a sharder every shard is 0",
        "hashbrown / itertools unique_by: an element is dropped iff an element kept earlier compares equal (the model's dedup)",
    ],
    "assumptions": [
        "latency awareness is not modelled and never enabled",
        "liveness is a snapshot: no node changes state between pick() and fallback()",
        "model theorems assume a sorted ring (TokenRing::new) and one entry per datacenter in every NTS map; tokens may repeat",
        "shuffles, rotation indices and the choose index are oracles; shuffling on/off only selects the seed",
    ],
    "extra_coverage": _extra,
}

def main(argv):
    return run_check(SPEC, argv)
