from orchestrate.common import run_check, REPO, ROOT
import os

def _extra(lines, verdicts):
    pol = {"inherit": 0, "any": 0, "dc": 0, "dc+rack": 0}
    lwt = 0; tok = 0; fo = 0; ta = 0; unknown_ks = 0; down = 0
    rings = set()
    for ln in lines:
        f = _norm(ln)
        if len(f) < 7:
            continue
        rings.add((f[1], f[2], f[3]))
        p = f[5].split("/"); r = f[6].split("/")
        pol[{"i": "inherit", "a": "any", "d": "dc", "r": "dc+rack"}[p[0][0]]] += 1
        ta += p[1] == "1"; fo += p[2] == "1"
        tok += r[0] != "_"; unknown_ks += r[1] in ("u", "_"); lwt += r[2] != "0"
        down += ("e" in f[4]) or ("d" in f[4])
    dd = [_down_dc(ln) for ln in lines]
    nl, dup = _two_reads(lines)
    ch, hd, dis = _two_reads_changed(lines)
    return {"two_read_cases": nl, "two_read_cases_with_a_changed_flag": ch, "two_read_cases_whose_picked_node_changed_state": hd,
            "two_read_cases_whose_picked_node_is_disabled_later": dis,
            "two_read_plans_naming_a_node_twice": dup, "plan_cases_with_a_nonzero_shard": _shards(lines),
            "latency_awareness_census": _census() or "off: builder default None, DefaultPolicy::default None, runner never sets it",
            "preferred_dc_all_down_with_failover": dd.count(True), "preferred_dc_all_down_without_failover": dd.count(False),
            "policy_preference_kinds": pol, "token_aware_policies": ta, "failover_permitted": fo,
            "requests_with_token": tok, "requests_without_known_keyspace": unknown_ks, "lwt_requests": lwt,
            "cases_with_down_or_disabled_nodes": down, "distinct_clusters": len(rings)}

def _norm(ln):
    """fields of a P line; an L line (two liveness reads) with its second flag field removed"""
    f = ln.split("|")[0].split()
    if f and f[0] == "L":
        f = f[:5] + f[6:]
    return f

def _shards(lines):
    """P lines in which a plan target carries a non-zero shard"""
    c = 0
    for ln in lines:
        if ln.startswith("P ") and "|" in ln:
            c += any(t.split(":")[1] not in ("0", "_") for fld in ln.split("|")[1].split()[2:] if fld != "-" for t in fld.split(","))
    return c

def _two_reads_changed(lines):
    """L lines whose second liveness differs from the first / differs for the picked node / disables the picked node
    (the `8 <= g2` branch of two_reads_matches)"""
    ch = hd = dis = 0
    for ln in lines:
        if not ln.startswith("L ") or "|" not in ln:
            continue
        f = ln.split("|")[0].split()
        ch += f[4] != f[5]
        out = ln.split("|")[1].split()
        if out and out[0] not in ("-", "nopick", "panic"):
            head = out[0].split(",")[0].split(":")[0]
            ids = [n.split(".")[0] for n in f[1].split(",")]
            if head in ids:
                i = ids.index(head)
                hd += f[4][i] != f[5][i]
                dis += f[5][i] == "d"
    return ch, hd, dis

def _two_reads(lines):
    n = dup = changed_head = 0
    for ln in lines:
        if not ln.startswith("L "):
            continue
        n += 1
        ids = [t.split(":")[0] for t in ln.split("|")[1].split()[0].split(",")] if "|" in ln and ln.split("|")[1].strip() not in ("-", "") else []
        dup += len(ids) != len(set(ids))
    return n, dup

def _census():
    """latency awareness is outside the model: the tie must never enable it and the builder must default to off"""
    import re
    bad = []
    try:
        src = open(os.path.join(REPO, "scylla/src/policies/load_balancing/default.rs")).read()
        m = re.search(r"impl DefaultPolicyBuilder \{.*?pub fn new\(\) -> Self \{(.*?)\n    \}", src, re.S)
        if not m or not re.search(r"latency_awareness:\s*None", m.group(1)):
            bad.append("DefaultPolicyBuilder::new() no longer sets latency_awareness: None")
        d = re.search(r"impl Default for DefaultPolicy \{.*?fn default\(\) -> Self \{(.*?)\n    \}", src, re.S)
        if not d or not re.search(r"latency_awareness:\s*None", d.group(1)):
            bad.append("DefaultPolicy::default() no longer sets latency_awareness: None")
        for fn in (os.path.join(ROOT, "harness/src/bin/c05.rs"), os.path.join(ROOT, "harness/src/ring_util.rs")):
            if re.search(r"latency_awareness|LatencyAwareness", open(fn).read()):
                bad.append(f"{fn} mentions latency awareness")
    except OSError as e:
        bad.append(f"census could not read sources: {e}")
    return bad

def _down_dc(ln):
    """preferred datacenter + every token-owning node of it down, one still enabled, a remote node connected"""
    f = _norm(ln)
    if len(f) < 7:
        return None
    pref = f[5].split("/")[0]
    if pref[0] == "i":
        pref = f[6].split("/")[3]
    if pref[0] not in "dr":
        return None
    d = pref[1:].split(".")[0]
    owners = {e.rsplit(".", 1)[1] for e in f[2].split(",")} if f[2] != "-" else set()
    loc, rem = [], []
    for nd, fl in zip(f[1].split(","), f[4]):
        i, dc, _ = nd.split(".")[:3]
        if i in owners:
            (loc if dc == d else rem).append(fl)
    if loc and "c" not in loc and "e" in loc and "c" in rem:
        return f[5].split("/")[2] == "1"
    return None

def _post(lines, verdicts):
    out = []
    for b in _census():
        out.append(("diff", lines[0], "diff census: " + b))
    if len(lines) >= 20000:
        nl, dup = _two_reads(lines)
        if nl < len(lines) // 20:
            out.append(("diff", lines[0], f"diff generator floor: two-read (L) cases={nl} < {len(lines) // 20}"))
        if dup < 5:
            out.append(("diff", lines[0], f"diff generator floor: two-read plans naming a node twice={dup} < 5"))
        ch, hd, dis = _two_reads_changed(lines)
        if dis < len(lines) // 500:
            out.append(("diff", lines[0], f"diff generator floor: two-read cases whose picked node is disabled at the second read={dis} < {len(lines) // 500}"))
        if ch < len(lines) // 40:
            out.append(("diff", lines[0], f"diff generator floor: two-read cases with a changed flag={ch} < {len(lines) // 40}"))
        if hd < len(lines) // 1000:
            out.append(("diff", lines[0], f"diff generator floor: two-read cases whose picked node changed state={hd} < {len(lines) // 1000}"))
        sh = _shards(lines)
        if sh < len(lines) // 10:
            out.append(("diff", lines[0], f"diff generator floor: P cases with a non-zero shard={sh} < {len(lines) // 10}"))
        fo = sum(1 for ln in lines if _down_dc(ln) is True)
        nofo = sum(1 for ln in lines if _down_dc(ln) is False)
        inh = sum(1 for ln in lines if _norm(ln)[5].startswith("i/"))
        for k, v, floor in (("preferred-dc-down+failover", fo, len(lines) // 400), ("preferred-dc-down,no-failover", nofo, len(lines) // 400),
                            ("inherited-preference", inh, len(lines) // 20)):
            if v < floor:
                out.append(("diff", lines[0], f"diff generator floor: {k}={v} < {floor}"))
    return out

SPEC = {
    "pid": "C05",
    "coq_targets": ["Props/C05.vo", "Extract/ExC05.vo"],
    "bin": "c05",
    "sizes": {"quick": 120000, "thorough": 1000000},
    "min_cases": {"quick": 110000, "thorough": 900000},
    "post": _post,
    "search_n": 200000,
    "rule": ("topologies as C04 (1..12 nodes x 1..3 datacenters x 1..4 racks, datacenter-/rack-less nodes, nodes without "
             "tokens, vnodes, 1 in 8 with a token shared across datacenters) with 1..4 keyspaces (RF 0..nodes+2, RF-0 and "
             "absent datacenters) x per-node flags {enabled+connected, enabled only, disabled} (6 assignment styles; ALL assignments for clusters of <= 3 nodes, <= 4 in the thorough tier; a directed stream with every node of the preferred datacenter down) x "
             "DefaultPolicy {inherit / no / DC / DC+rack preference incl. absent DC and rack, token-aware on/off, failover "
             "on/off, shuffling on/off} x request {token at a ring boundary or none, known / unknown keyspace / no table, "
             "non-LWT / confirmed LWT / Serial / LocalSerial consistency, request-level preference}. Kind P: one line = pick() once, "
             "fallback() once and Plan::new(..) run to exhaustion 3 times. Kind L (1 in 5 cases, when pick() yields a target): one Plan whose first target is taken under one liveness assignment and the rest after some nodes changed state. non-trivial = cluster has at least one enabled "
             "node; distinct = distinct case lines"),
    "nontrivial": lambda ln: len(_norm(ln)) > 6 and ("c" in _norm(ln)[4] or "e" in _norm(ln)[4]),
    "trusted_base": [
        "group_of / lwt_sequence / the P_* predicates of Model/Plan.v are the plan order of the property text written over the C04 replica sets",
        "hook scylla::cluster::verif_node_flags (per-host is_enabled / is_connected override) on the pool-less nodes of the real ClusterState::new (scylla::cluster::verif_state::cluster_state_via_new, reject-all host filter); the policy is built by DefaultPolicyBuilder::build(); without a sharder every shard is 0",
        "hashbrown / itertools unique_by: an element is dropped iff an element kept earlier compares equal (the model's dedup)",
        "the kind-L acceptor is the extracted two_reads_matches (C05_two_reads_accept_sound, C05_two_reads_accepted); when it refuses a plan, viol / diff is decided by the extracted two_reads_safe_b (enabled when chosen, permitted, rest duplicate-free, unchanged head not repeated: C05_two_reads_safe_b_sound, C05_two_reads_accept_safe, C05_two_reads_model_safe); a replayed `nopick` line is judged by the extracted pick_matches .. None",
    ],
    "assumptions": [
        "latency awareness is not modelled and never enabled",
        "liveness is a snapshot for kind P and for all theorems except C05_two_reads_* and C05_reads_safe (any number of changes; proved, not tied); kind L changes the liveness of some nodes once, between the first and the second next() of one Plan",
        "model theorems assume a sorted ring (TokenRing::new) and one entry per datacenter in every NTS map; tokens may repeat",
        "shuffles, rotation indices and the choose index are oracles; shuffling on/off only selects the seed",
    ],
    "extra_coverage": _extra,
}

def main(argv):
    return run_check(SPEC, argv)
