from orchestrate.common import run_check


def _nontrivial(ln):
    # a case is non-trivial when the script has at least two pages or at least one fault
    case = ln.split("|")[0].split()
    if len(case) < 7:
        return False
    script = case[6]
    return ";" in script or not script.startswith("-/")


def _extra(lines, verdicts):
    cov = {"pages_hist": {}, "cases_with_faults": 0, "cases_with_nonretried_failure": 0,
           "cases_ctor_error": 0, "cases_with_empty_page": 0, "cases_connection_reset": 0,
           "cases_ignore_write_error": 0, "cases_plan_exhausted_or_nonrows": 0,
           "drop_cases": 0, "max_rows": 0, "requests_seen": 0}
    for ln in lines:
        parts = ln.split("|")
        case = parts[0].split()
        if len(case) < 7:
            continue
        script = case[6]
        pages = script.split(";")
        b = str(min(len(pages), 12))
        cov["pages_hist"][b] = cov["pages_hist"].get(b, 0) + 1
        if any(not p.startswith("-/") for p in pages):
            cov["cases_with_faults"] += 1
        if "d/" in script or "d," in script or "T" in script.replace("/R", ""):
            cov["cases_with_nonretried_failure"] += 1
        if "R-:" in script:
            cov["cases_with_empty_page"] += 1
        if "E10004" in script:
            cov["cases_connection_reset"] += 1
        if "i/" in script or "i," in script:
            cov["cases_ignore_write_error"] += 1
        if "/V" in script or "/X" in script:
            cov["cases_plan_exhausted_or_nonrows"] += 1
        if case[3].startswith("drop"):
            cov["drop_cases"] += 1
        if len(parts) > 1:
            obs = parts[1].split()
            if obs and obs[0].startswith("f"):
                cov["cases_ctor_error"] += 1
            if obs:
                cov["max_rows"] = max(cov["max_rows"], obs[0].count("r"))
            if len(obs) > 1 and obs[1] != "none":
                cov["requests_seen"] += obs[1].count(",") + 1
    return cov


SPEC = {
    "pid": "C07",
    "coq_targets": ["Props/C07.vo", "Extract/ExC07.vo"],
    "bin": "c07",
    "sizes": {"quick": 400, "thorough": 20000},
    "search_n": 4000,
    "runner_timeout": 2400,
    "rule": ("e2e: the real pagers against mocknode -- Session::query_iter (api q), Session::execute_iter (api e; E = cached "
             "result metadata) and, through the hook scylla::client::verif_pager, Connection::execute_iter on a bare "
             "connection (mode c, the control connection's pager). 39 systematic cases (all page-size sequences over "
             "{0,1,2} of length <= 3) + seeded random scripts: result sets of 0..N distinct rows (N = 40 quick / 400 "
             "thorough) split into 1..9 (24 thorough) pages with empty pages anywhere, random paging states (empty, 1 byte, "
             "300 bytes, repeated), per-page faults (ERROR frames whose retry decision same/next/dont/ignore is taken by a "
             "scripted retry policy or by DefaultRetryPolicy idempotent / non-idempotent, delayed replies, connection "
             "reset, client-side timeout, plan exhaustion, Void / non-RESULT replies), 1..4 nodes; consumer = full read (F), "
             "slow (S), every Pending poll cancelled (J), early drop after n items (D); timeout cases (T). "
             "non-trivial = at least two pages or one fault; distinct = distinct case lines"),
    "nontrivial": _nontrivial,
    "extra_coverage": _extra,
    "trusted_base": [
        "mocknode (/verif/harness/src/mocknode): serves the scripted pages/faults and records every frame; the runner "
        "derives from its trace the paging_state of every QUERY/EXECUTE of the statement and the number of Rows pages "
        "served before it",
        "harness ScriptedPolicy (RetryPolicy whose decision is carried in the scripted error message) and the table of "
        "DefaultRetryPolicy decisions used by the generator (the policy itself is C06's subject)",
        "spec_stream / spec_error_stream / spec_state / spec_requests are the property text transcribed",
        "hook scylla::client::verif_pager::execute_iter_on_new_connection (/repo commit bee67f4, pass-through)",
    ],
    "assumptions": [
        "one execution fiber per page (no speculative execution policy configured: C13 covers speculation)",
        "the retry decision per failed attempt is an oracle of the script (theorems hold for every decision sequence)",
        "tokio mpsc channel(1) and task wake-ups behave as the interleaving semantics of Model/Pager.v "
        "(send needs a free permit or fails after the receiver is dropped; recv yields None only when closed and empty)",
        "early-drop cases: the request list may be snapshotted before the worker noticed the drop; the acceptor "
        "accepts every prefix between 'pages the consumer needed' and 'two pages more' (C07_read_ahead)",
        "Connection::execute_iter is reached through the add-only hook scylla::client::verif_pager "
        "(opens a bare connection, prepares, calls execute_iter); the control connection's own use of it is not driven",
    ],
}


def main(argv):
    return run_check(SPEC, argv)
