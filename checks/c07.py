from orchestrate.common import run_check


def _nontrivial(ln):
    # a case is non-trivial when the script has at least two pages or at least one fault
    case = ln.split("|")[0].split()
    if len(case) < 7:
        return False
    script = case[6]
    return ";" in script or not script.startswith("-/")


def _later_pages(script):
    return script.split(";")[1:]


def _counters(lines, verdicts):
    c = {"pages_hist": {}, "cases_with_faults": 0, "cases_with_nonretried_failure": 0,
         "cases_ctor_error": 0, "cases_with_empty_page": 0, "cases_connection_reset": 0,
         "cases_ignore_write_error": 0, "cases_nonrows_reply": 0, "cases_plan_exhausted": 0,
         "drop_cases": 0, "connection_pager_cases": 0, "max_rows": 0, "requests_seen": 0,
         "unprepared_on_later_page": 0, "slow_consumer_error_on_page_ge2_seen_by_caller": 0,
         "timeout_cases": 0, "early_timeout_accepted": 0, "not_run": 0,
         "single_page_cases": 0, "single_page_with_caller_state_and_retry": 0,
         "coordinator_checked_multi_node_multi_page": 0, "forced_early_timeout_cases": 0,
         "timeout_with_early_drop": 0, "early_timeout_drop_branch": 0, "single_page_nonrows_or_ignored": 0,
         "not_run_trace_race": 0, "stale_response_cases_run": 0}
    for ln, v in zip(lines, verdicts):
        parts = ln.split("|")
        case = parts[0].split()
        if len(case) < 7:
            continue
        obs0 = parts[1].split() if len(parts) > 1 else []
        if obs0 and obs0[0] in ("error", "replay-error"):
            # a case that did not run exercises nothing: it counts only here
            c["not_run"] += 1
            continue
        if v and v.startswith("ok not-run trace-race"):
            c["not_run"] += 1
            c["not_run_trace_race"] += 1
            continue
        script = case[6]
        pages = script.split(";")
        b = str(min(len(pages), 12))
        c["pages_hist"][b] = c["pages_hist"].get(b, 0) + 1
        faults = [p.split("/")[0] for p in pages]
        if any(f != "-" for f in faults):
            c["cases_with_faults"] += 1
        if any(t.endswith("d") and t.startswith("E") or t == "T" for f in faults for t in f.split(",")):
            c["cases_with_nonretried_failure"] += 1
        if "R-:" in script:
            c["cases_with_empty_page"] += 1
        if "E10004" in script:
            c["cases_connection_reset"] += 1
        if any(t.endswith("i") and t.startswith("E") for f in faults for t in f.split(",")):
            c["cases_ignore_write_error"] += 1
        if "/V" in script or "/X" in script:
            c["cases_nonrows_reply"] += 1
        nodes = int(case[4], 16)
        if case[1] == "s" and any(sum(1 for t in f.split(",") if t.startswith("E") and t.endswith("n")) >= nodes
                                  for f in faults):
            c["cases_plan_exhausted"] += 1
        if case[3].startswith("drop"):
            c["drop_cases"] += 1
        if case[1] == "c":
            c["connection_pager_cases"] += 1
        if case[0] == "X":
            # ran = the schedule held (the runner reports `error stale-schedule..` otherwise)
            c["stale_response_cases_run"] += 1
        if case[0] in ("T", "E"):
            c["timeout_cases"] += 1
        if case[0] == "E":
            c["forced_early_timeout_cases"] += 1
        if case[0] == "T" and case[3].startswith("drop"):
            c["timeout_with_early_drop"] += 1
        if case[0] == "P":
            c["single_page_cases"] += 1
            if script.endswith("/V") or script.endswith("/X") or "i/" in script:
                c["single_page_nonrows_or_ignored"] += 1
            if case[3] != "stN" and len(parts) > 1 and parts[1].split()[-1].count(",") >= 1:
                c["single_page_with_caller_state_and_retry"] += 1
        if case[1] == "s" and case[0] != "P" and nodes >= 2 and len(parts) > 1:
            ks = parts[1].split()[-1]
            kl = [] if ks == "none" else [k.split(":") for k in ks.split(",")]
            if kl and all(len(k) == 3 for k in kl) and any(k[0] != "0" for k in kl):
                c["coordinator_checked_multi_node_multi_page"] += 1
        if v and v.startswith("ok early-timeout"):
            c["early_timeout_accepted"] += 1
        if v and v.startswith("ok early-timeout drop"):
            # the verdict names the acceptor branch: accept_drop_timeout (C07_drop_timeout_sound)
            c["early_timeout_drop_branch"] += 1
        if any("U" in f.split(",") for f in faults[1:]):
            c["unprepared_on_later_page"] += 1
        obs = parts[1].split() if len(parts) > 1 else []
        if obs and obs[0].startswith("f"):
            c["cases_ctor_error"] += 1
        if obs:
            c["max_rows"] = max(c["max_rows"], obs[0].count("r"))
        if len(obs) > 1 and obs[1] != "none":
            c["requests_seen"] += obs[1].count(",") + 1
        if case[3].startswith("slow") and obs and any(i.startswith("e") for i in obs[0].split(",")) \
                and any(t.endswith("d") for f in faults[2:] for t in f.split(",")):
            c["slow_consumer_error_on_page_ge2_seen_by_caller"] += 1
    return c


def _extra(lines, verdicts):
    return _counters(lines, verdicts)


# what a run must really have exercised, counted over the cases that RAN (quick run: 507 cases;
# scaled for bigger runs); post is not called for replays, small inputs are exempt from the floors
# but not from the not-run guard
_FLOORS = {"drop_cases": 40, "connection_pager_cases": 40, "cases_with_nonretried_failure": 40,
           "cases_ctor_error": 10, "cases_with_empty_page": 150, "cases_ignore_write_error": 2,
           "cases_nonrows_reply": 5, "cases_plan_exhausted": 3, "unprepared_on_later_page": 12,
           "slow_consumer_error_on_page_ge2_seen_by_caller": 10, "timeout_cases": 8,
           "cases_connection_reset": 2, "requests_seen": 1500, "single_page_cases": 25,
           "single_page_with_caller_state_and_retry": 5, "coordinator_checked_multi_node_multi_page": 100,
           "early_timeout_accepted": 2, "early_timeout_drop_branch": 1,
           "single_page_nonrows_or_ignored": 3, "stale_response_cases_run": 2}


def _post(lines, verdicts):
    out = []
    c = _counters(lines, verdicts)
    if len(lines) < 300:
        # a small input (should post ever be called for one): no floors, but nothing may pass by not running
        if c["not_run"]:
            out.append(("diff", "not-run", f"diff {c['not_run']} cases did not run"))
        return out
    scale = max(1, len(lines) // 1500)
    # families of fixed size do not grow with the random part of a thorough run
    fixed_big = {"timeout_cases": 16, "early_timeout_accepted": 6, "early_timeout_drop_branch": 2,
                 "single_page_nonrows_or_ignored": 20, "stale_response_cases_run": 4, "single_page_cases": 150, "single_page_with_caller_state_and_retry": 30,
                 "slow_consumer_error_on_page_ge2_seen_by_caller": 60}
    for k, floor in _FLOORS.items():
        need = floor * scale if k not in fixed_big else (floor if scale == 1 else fixed_big[k])
        if c[k] < need:
            out.append(("diff", f"coverage-floor {k}", f"diff coverage floor not met: {k}={c[k]} < {need}"))
    # cases that did not run (environment trouble) are tolerated up to a small cap
    cap = max(2, len(lines) // 200)
    if c["not_run"] > cap:
        out.append(("diff", "not-run", f"diff {c['not_run']} cases did not run (cap {cap})"))
    # the early-timeout tolerance may only be used by the few T / E cases
    if c["early_timeout_accepted"] > c["timeout_cases"]:
        out.append(("diff", "early-timeout", "diff early-timeout tolerance used outside T cases"))
    return out


SPEC = {
    "pid": "C07",
    "coq_targets": ["Props/C07.vo", "Extract/ExC07.vo"],
    "bin": "c07",
    "sizes": {"quick": 400, "thorough": 20000},
    "min_cases": {"quick": 510, "thorough": 19500},
    "post": _post,
    "search_n": 4000,
    "runner_timeout": 2400,
    "rule": ("e2e: the real pagers against mocknode -- Session::query_iter (api q), Session::execute_iter (api e; E = cached "
             "result metadata) and, through the hook scylla::client::verif_pager, Connection::execute_iter on a bare "
             "connection (mode c). quick = 523 cases: 39 systematic (all page-size sequences over {0,1,2} of length <= 3) + 400 "
             "seeded random scripts (0..40 distinct rows, 1..9 pages, empty pages anywhere, random paging states, per-page "
             "faults: ERROR frames whose retry decision same/next/dont/ignore is taken by a scripted retry policy or by "
             "DefaultRetryPolicy idempotent / non-idempotent, UNPREPARED + re-prepare, delayed replies, connection reset "
             "(retried or not), plan exhaustion, Void / non-RESULT replies, early 'no more pages'; 1..4 nodes; consumer = full "
             "read F, slow S, every Pending poll cancelled J, early drop D) + 16 'slow consumer x error on a page >= 2' (S) + 16 "
             "'prepared statement evicted on a later page' (U) + 30 single-page requests resumed with a caller-supplied paging "
             "state (P: query_single_page / execute_single_page) + 8 client-timeout cases (T; 2 of them with an early drop, one per mode) + 9 forced early-timeout cases (E: "
             "400 ms client timeout, a reply before the scripted T delayed by 2 s; 3 of them Session pagers whose caller drops after the error: only accept_drop_timeout explains them) + 5 stale-response cases (X: the pager runs on the only connection of a one-node session 2.2 s after another pager abandoned a page request (300 ms client timeout) whose response the mock releases after 3 s, while this pager's first page, delayed 1.5 s, is in flight; seeded change C07-3). thorough = 20 441 cases (39 + 20 000 random "
             "with 0..400 rows / 1..24 pages + 80 + 80 + 200 + 8 + 16 + 18). Observed: the items the caller saw and, from the mock's "
             "trace, (Rows pages served before, paging_state, mock node) of every QUERY/EXECUTE of the statement. "
             "non-trivial = at least two pages or one fault; distinct = distinct case lines"),
    "nontrivial": _nontrivial,
    "extra_coverage": _extra,
    "trusted_base": [
        "mocknode (harness/src/mocknode): serves the scripted pages/faults and records every frame; the runner "
        "derives from its trace the paging_state and the receiving node of every QUERY/EXECUTE of the statement and the "
        "number of Rows pages served before it",
        "kind P (single page; Rows, Void, non-RESULT replies and an ignored error): ok only through the extracted accept_single (C07_accept_single_sound: sound w.r.t. the loop-free page specification) or `ok not-run`, viol only when the "
        "extracted prop_single_ok fails; the driver only parses the observation",
        "spec_page mirrors the retry loop clause by clause with a target count instead of targets; the independent part of "
        "the specification is the stream level (`expected`); C07_page_outcome_closed_form proves it equal to a loop-free form",
        "harness ScriptedPolicy (RetryPolicy whose decision is carried in the scripted error message) and the table of "
        "DefaultRetryPolicy decisions used by the generator (the policy itself is C06's subject)",
        "expected (strict) / spec_state / spec_error_stream are the property text transcribed; they are anchored by "
        "pinned Examples on accepting and rejecting observations",
        "hook scylla::client::verif_pager::execute_iter_on_new_connection (repository commit bee67f4, pass-through)",
    ],
    "assumptions": [
        "one execution fiber per page (no speculative execution policy configured: C13 covers speculation)",
        "the retry decision per failed attempt is an oracle of the script (theorems hold for every decision sequence)",
        "tokio mpsc channel(1) and task wake-ups behave as the interleaving semantics of Model/Pager.v "
        "(send needs a free permit or fails after the receiver is dropped; recv yields None only when closed and empty)",
        "early-drop cases: the request list may be snapshotted before the worker noticed the drop; the acceptor "
        "accepts every prefix between 'pages the consumer needed' and 'two pages more' (C07_read_ahead)",
        "plans_ok: every plan enumerates the same node set (the driver uses the synthetic plan [0..n-1]; 1 shard per node)",
        "verdicts: ok = accept_full / accept_drop (sound for prop_*_ok when plans_ok, outside class O1; drop: constructor "
        "succeeded), accept_full_timeout / accept_drop_timeout (sound for the script with the timeout moved earlier), P: accept_single, "
        "or `ok not-run` (set-up failures and T/E observations whose last queued frame did not reach the mock's trace; counted, capped at "
        "max(2, lines/200); the fixed-size families have floors T+E 8 of 17, early-timeout 2 of 9, drop-timeout branch 1 of 3, P 25 of 30); "
        "inside class O1 the property predicate is evaluated",
        "wall-clock constants: T cases 4 s client timeout (earlier strike tolerated), E cases 400 ms vs a 2 s delayed reply, X cases 300 ms / 2.2 s / 3 s / 1.5 s (a missed schedule is not-run), "
        "watchdog 300 s per case (hang -> viol when a stream is expected), wait_pools 10 s after reset cases, settle loop "
        "<= 400 ms after drop cases, 300 ms of silence (<= 3 s) after timeout cases, hook connect_timeout 5 s (-> not-run)",
        "Connection::execute_iter is reached through the add-only hook scylla::client::verif_pager "
        "(opens a bare connection, prepares, calls execute_iter); the control connection's own use of it is not driven",
    ],
}


def main(argv):
    return run_check(SPEC, argv)
