from orchestrate.common import run_check


def _nontrivial(ln):
    # a case is non-trivial when the script has at least two pages or at least one fault
    case = ln.split("|")[0].split()
    if len(case) < 7:
        return False
    script = case[6]
    return ";" in script or not script.startswith("-/")


def _later_pages(script):
    return script.split(";")[1:]


def _counters(lines, verdicts):
    c = {"pages_hist": {}, "cases_with_faults": 0, "cases_with_nonretried_failure": 0,
         "cases_ctor_error": 0, "cases_with_empty_page": 0, "cases_connection_reset": 0,
         "cases_ignore_write_error": 0, "cases_nonrows_reply": 0, "cases_plan_exhausted": 0,
         "drop_cases": 0, "connection_pager_cases": 0, "max_rows": 0, "requests_seen": 0,
         "unprepared_on_later_page": 0, "slow_consumer_error_on_page_ge2_seen_by_caller": 0,
         "timeout_cases": 0, "early_timeout_accepted": 0, "not_run": 0,
         "single_page_cases": 0, "single_page_with_caller_state_and_retry": 0,
         "coordinator_checked_multi_node_multi_page": 0}
    for ln, v in zip(lines, verdicts):
        parts = ln.split("|")
        case = parts[0].split()
        if len(case) < 7:
            continue
        script = case[6]
        pages = script.split(";")
        b = str(min(len(pages), 12))
        c["pages_hist"][b] = c["pages_hist"].get(b, 0) + 1
        faults = [p.split("/")[0] for p in pages]
        if any(f != "-" for f in faults):
            c["cases_with_faults"] += 1
        if any(t.endswith("d") and t.startswith("E") or t == "T" for f in faults for t in f.split(",")):
            c["cases_with_nonretried_failure"] += 1
        if "R-:" in script:
            c["cases_with_empty_page"] += 1
        if "E10004" in script:
            c["cases_connection_reset"] += 1
        if any(t.endswith("i") and t.startswith("E") for f in faults for t in f.split(",")):
            c["cases_ignore_write_error"] += 1
        if "/V" in script or "/X" in script:
            c["cases_nonrows_reply"] += 1
        nodes = int(case[4], 16)
        if case[1] == "s" and any(sum(1 for t in f.split(",") if t.startswith("E") and t.endswith("n")) >= nodes
                                  for f in faults):
            c["cases_plan_exhausted"] += 1
        if case[3].startswith("drop"):
            c["drop_cases"] += 1
        if case[1] == "c":
            c["connection_pager_cases"] += 1
        if case[0] == "T":
            c["timeout_cases"] += 1
        if case[0] == "P":
            c["single_page_cases"] += 1
            if case[3] != "stN" and len(parts) > 1 and parts[1].split()[-1].count(",") >= 1:
                c["single_page_with_caller_state_and_retry"] += 1
        if case[1] == "s" and case[0] != "P" and nodes >= 2 and len(parts) > 1:
            ks = parts[1].split()[-1]
            kl = [] if ks == "none" else [k.split(":") for k in ks.split(",")]
            if kl and all(len(k) == 3 for k in kl) and any(k[0] != "0" for k in kl):
                c["coordinator_checked_multi_node_multi_page"] += 1
        if v and v.startswith("ok early-timeout"):
            c["early_timeout_accepted"] += 1
        if any("U" in f.split(",") for f in faults[1:]):
            c["unprepared_on_later_page"] += 1
        obs = parts[1].split() if len(parts) > 1 else []
        if obs and obs[0] == "error":
            c["not_run"] += 1
        if obs and obs[0].startswith("f"):
            c["cases_ctor_error"] += 1
        if obs:
            c["max_rows"] = max(c["max_rows"], obs[0].count("r"))
        if len(obs) > 1 and obs[1] != "none":
            c["requests_seen"] += obs[1].count(",") + 1
        if case[3].startswith("slow") and obs and any(i.startswith("e") for i in obs[0].split(",")) \
                and any(t.endswith("d") for f in faults[2:] for t in f.split(",")):
            c["slow_consumer_error_on_page_ge2_seen_by_caller"] += 1
    return c


def _extra(lines, verdicts):
    return _counters(lines, verdicts)


# what a run must really have exercised (per 443 generated cases; scaled for bigger runs);
# a replay (a handful of lines) is exempt
_FLOORS = {"drop_cases": 40, "connection_pager_cases": 40, "cases_with_nonretried_failure": 40,
           "cases_ctor_error": 10, "cases_with_empty_page": 150, "cases_ignore_write_error": 2,
           "cases_nonrows_reply": 5, "cases_plan_exhausted": 3, "unprepared_on_later_page": 12,
           "slow_consumer_error_on_page_ge2_seen_by_caller": 10, "timeout_cases": 4,
           "cases_connection_reset": 2, "requests_seen": 1500, "single_page_cases": 25,
           "single_page_with_caller_state_and_retry": 5, "coordinator_checked_multi_node_multi_page": 100}


def _post(lines, verdicts):
    out = []
    if len(lines) < 300:
        return out
    c = _counters(lines, verdicts)
    scale = max(1, len(lines) // 1500)
    # families of fixed size do not grow with the random part of a thorough run
    fixed_big = {"timeout_cases": 10, "single_page_cases": 150, "single_page_with_caller_state_and_retry": 30,
                 "slow_consumer_error_on_page_ge2_seen_by_caller": 60}
    for k, floor in _FLOORS.items():
        need = floor * scale if k not in fixed_big else (floor if scale == 1 else fixed_big[k])
        if c[k] < need:
            out.append(("diff", f"coverage-floor {k}", f"diff coverage floor not met: {k}={c[k]} < {need}"))
    # cases that did not run (environment trouble) are tolerated up to a small cap
    cap = max(2, len(lines) // 200)
    if c["not_run"] > cap:
        out.append(("diff", "not-run", f"diff {c['not_run']} cases did not run (cap {cap})"))
    # the early-timeout tolerance may only be used by the few T cases
    if c["early_timeout_accepted"] > c["timeout_cases"]:
        out.append(("diff", "early-timeout", "diff early-timeout tolerance used outside T cases"))
    return out


SPEC = {
    "pid": "C07",
    "coq_targets": ["Props/C07.vo", "Extract/ExC07.vo"],
    "bin": "c07",
    "sizes": {"quick": 400, "thorough": 20000},
    "min_cases": {"quick": 490, "thorough": 19500},
    "post": _post,
    "search_n": 4000,
    "runner_timeout": 2400,
    "rule": ("e2e: the real pagers against mocknode -- Session::query_iter (api q), Session::execute_iter (api e; E = cached "
             "result metadata) and, through the hook scylla::client::verif_pager, Connection::execute_iter on a bare "
             "connection (mode c, the control connection's pager). 39 systematic cases (all page-size sequences over "
             "{0,1,2} of length <= 3) + seeded random scripts: result sets of 0..N distinct rows (N = 40 quick / 400 "
             "thorough) split into 1..9 (24 thorough) pages with empty pages anywhere, random paging states (empty, 1 byte, "
             "300 bytes, repeated), per-page faults (ERROR frames whose retry decision same/next/dont/ignore is taken by a "
             "scripted retry policy or by DefaultRetryPolicy idempotent / non-idempotent, delayed replies, connection "
             "reset, client-side timeout, plan exhaustion, Void / non-RESULT replies), 1..4 nodes; consumer = full read (F), "
             "slow (S; incl. 16/80 cases 'slow consumer x error on a page >= 2'), every Pending poll cancelled (J), early drop "
             "after n items (D); 16/80 cases with the prepared statement evicted on a later page (U: UNPREPARED, transparent "
             "re-prepare, re-sent EXECUTE); 30/200 single-page cases (P: query_single_page / execute_single_page resumed with a "
             "caller-supplied paging state); timeout cases (T). The mock node of every request is compared with coordinator "
             "stability (coord_ok). "
             "non-trivial = at least two pages or one fault; distinct = distinct case lines"),
    "nontrivial": _nontrivial,
    "extra_coverage": _extra,
    "trusted_base": [
        "mocknode (/verif/harness/src/mocknode): serves the scripted pages/faults and records every frame; the runner "
        "derives from its trace the paging_state of every QUERY/EXECUTE of the statement and the number of Rows pages "
        "served before it",
        "harness ScriptedPolicy (RetryPolicy whose decision is carried in the scripted error message) and the table of "
        "DefaultRetryPolicy decisions used by the generator (the policy itself is C06's subject)",
        "expected (strict) / spec_state / spec_error_stream are the property text transcribed; they are anchored by "
        "pinned Examples on accepting and rejecting observations",
        "hook scylla::client::verif_pager::execute_iter_on_new_connection (/repo commit bee67f4, pass-through)",
    ],
    "assumptions": [
        "one execution fiber per page (no speculative execution policy configured: C13 covers speculation)",
        "the retry decision per failed attempt is an oracle of the script (theorems hold for every decision sequence)",
        "tokio mpsc channel(1) and task wake-ups behave as the interleaving semantics of Model/Pager.v "
        "(send needs a free permit or fails after the receiver is dropped; recv yields None only when closed and empty)",
        "early-drop cases: the request list may be snapshotted before the worker noticed the drop; the acceptor "
        "accepts every prefix between 'pages the consumer needed' and 'two pages more' (C07_read_ahead)",
        "Connection::execute_iter is reached through the add-only hook scylla::client::verif_pager "
        "(opens a bare connection, prepares, calls execute_iter); the control connection's own use of it is not driven",
    ],
}


def main(argv):
    return run_check(SPEC, argv)
