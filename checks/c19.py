from orchestrate.common import run_check

SPEC = {
    "pid": "C19",
    "coq_targets": ["Props/C19.vo", "Extract/ExC19.vo"],
    "bin": "c19",
    # --n = number of seeded long scripts; the stress part merges 50*n values in total
    "sizes": {"quick": 20000, "thorough": 200000},
    "search_n": 200000,
    "rule": ("X = EVERY script over {M merge(tag), N no-op closure, D drop sender, P poll recv (fresh or parked future), "
             "C cancel recv, R drop receiver} up to length 10, and up to length 12 without N (quick; thorough: length 14 "
             "with at most one N, plus length 11 with any number of N), only maximal scripts written (each contains the observations of all its "
             "prefixes); Q = seeded scripts of length 15..60; the REAL channel is driven on one thread by a hand-written "
             "poll loop with a counting waker, and every modify result, every poll's Pending/Ready(value) and the "
             "cumulative wake count after every operation are compared EXACTLY with the extracted model (run_ops); "
             "S = two OS threads, producer merges tags 0..n-1 then drops, consumer receives until None (4 modes incl. "
             "permanent cancel/restart), checked by the extracted stress_ok; Z = end-to-end on mocknode: every round "
             "adds a node to the mock cluster and issues 1/4/16 concurrent Session::refresh_metadata calls, all must be "
             "answered Ok and get_cluster_state must show the mock's node count; non-trivial = scripts with at least one "
             "poll and one merge, and all S cases; distinct = distinct case lines"),
    "nontrivial": lambda ln: ln.startswith("S") or ln.startswith("Z") or ("P" in ln.split("|")[0][2:] and "M" in ln.split("|")[0][2:]),
    "trusted_base": [
        "hook scylla::cluster::metadata::verif_merge_channel (newtype pass-throughs around Sender/Receiver/merge_channel)",
        "tokio::sync::Notify is modelled for ONE waiter (notify_one / notified+enable / poll / drop); the model is "
        "validated against tokio 1.53.1 by the exact comparison above, it is not derived from tokio's source by proof",
        "Acquire/Release atomics and the slot mutex are modelled as sequentially consistent atomic steps",
        "Receiver::try_recv (dead code outside the crate's tests) is in the model and in the theorems but not in the tie",
    ],
    "assumptions": [
        "merging = appending to a list of tags (the driver's closures always get_or_insert_default() and merge into it)",
        "single producer / single consumer is enforced by the types (&mut self, endpoints not Clone)",
        "the recv future is dropped only between polls (at the await point)",
    ],
}

def main(argv):
    return run_check(SPEC, argv)
