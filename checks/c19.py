import os
import re

from orchestrate.common import run_check, REPO as _REPO_ROOT

REPO = os.path.join(_REPO_ROOT, "scylla/src")
MERGE_FNS = {"merge_metadata", "merge_client_routes_update", "merge_topology_update", "merge_up_hint", "merge_down_hint"}


def census():
    """Structure pins behind 'merging = appending, a production closure never clears the slot':
    (1) Sender::modify is called at one place only (metadata worker, send_update_on);
    (2) every closure handed to send_update / send_update_on is `|slot| MetadataUpdate::merge_*(slot, ..)`;
    (3) the merge_* functions of update.rs are exactly the five of Model/MetaUpdate.v, each starts with
        Self::slot_mut(slot), slot_mut is get_or_insert_with(Self::default), and nothing else in the
        production part of update.rs touches the slot (no take / assignment)."""
    bad = []
    try:
        worker = open(os.path.join(REPO, "cluster/metadata/worker.rs")).read()
        update = open(os.path.join(REPO, "cluster/metadata/update.rs")).read()
    except OSError as e:
        return ["cannot read the anchored sources: %s" % e]
    # (1)
    calls = []
    for dp, _, fns in os.walk(REPO):
        for fn in fns:
            if fn.endswith(".rs") and fn != "merge_channel.rs":
                txt = open(os.path.join(dp, fn), errors="replace").read()
                txt = txt.split("#[cfg(test)]")[0]
                for m in re.finditer(r"\.modify\(", txt):
                    calls.append((os.path.relpath(os.path.join(dp, fn), REPO), txt[max(0, m.start() - 30):m.end() + 10].strip()))
    if [c for c in calls if c[0] != "cluster/metadata/worker.rs"] or len(calls) != 1 or "updates.modify(f)" not in calls[0][1]:
        bad.append("Sender::modify call sites changed: %r" % calls)
    # (2)
    prod = worker.split("#[cfg(test)]")[0]
    for m in re.finditer(r"send_update(?:_on)?\(", prod):
        head = prod[max(0, m.start() - 4):m.start()]
        tail = prod[m.end():m.end() + 160]
        if head.endswith("fn ") or tail.lstrip().startswith("&mut self.updates, f)"):
            continue  # the two definitions and the forwarding call
        if not re.match(r"\s*(updates,\s*)?\|slot\|\s*\{?\s*MetadataUpdate::merge_\w+\(slot\b", tail):
            bad.append("a closure passed to send_update is not a MetadataUpdate::merge_* call: %r" % tail[:80])
    # (3)
    uprod = update.split("#[cfg(test)]")[0]
    fns = set(re.findall(r"pub\(crate\) fn (merge_\w+)\(\s*slot: &mut Option<Self>", uprod))
    if fns != MERGE_FNS:
        bad.append("merge functions of MetadataUpdate changed: %r (model has %r)" % (sorted(fns), sorted(MERGE_FNS)))
    for name in fns:
        body = uprod[re.search(r"pub\(crate\) fn %s\(\s*slot:" % name, uprod).start():]
        body = body[body.index("{") + 1:][:200]
        if not re.match(r"\s*(let update = )?Self::slot_mut\(slot\)", body):
            bad.append("%s does not start with Self::slot_mut(slot)" % name)
    if not re.search(r"fn slot_mut\(slot: &mut Option<Self>\) -> &mut Self \{\s*slot\.get_or_insert_with\(Self::default\)\s*\}", uprod):
        bad.append("MetadataUpdate::slot_mut is no longer slot.get_or_insert_with(Self::default)")
    if re.search(r"\bslot\.(take|replace|insert)\(|\*slot\s*=[^=]|\bslot\s*=\s*None|mem::(take|replace)\(slot", uprod):
        bad.append("update.rs takes from / assigns to the slot directly")
    # (4) hook H7b runs a verbatim copy of try_recv's body: the real method must still have exactly that body
    try:
        chan = open(os.path.join(REPO, "cluster/metadata/merge_channel.rs")).read()
        m = re.search(r"pub\(crate\) fn try_recv\(&mut self\) -> Option<T> \{\s*(.*?)\s*\}", chan, re.S)
        if not m or m.group(1) != "self.shared.slot.lock().unwrap().take()":
            bad.append("Receiver::try_recv no longer has the body the hook copies: %r" % (m.group(1) if m else None))
        if "self.0.shared.slot.lock().unwrap().take()" not in chan:
            bad.append("hook H7b try_recv body changed")
    except OSError as e:
        bad.append("cannot read merge_channel.rs: %s" % e)
    # (5) the cluster worker: the loop Model/ClusterLoop.v is written from, and the answer loop the U hook copies
    try:
        cw = open(os.path.join(REPO, "cluster/worker.rs")).read().split("#[cfg(test)]")[0]
        work = cw[cw.index("pub(crate) async fn work(mut self)"):cw.index("async fn handle_use_keyspace_request(")]
        arms = re.findall(r"=\s*self\.(\w+)\.(recv(?:_many)?)\(", work)
        want = [("tablets_channel", "recv_many"), ("metadata_updates", "recv"), ("connectivity_events_receiver", "recv"),
                ("use_keyspace_channel", "recv")]
        if arms != want:
            bad.append("select! arms of ClusterWorker::work changed: %r" % arms)
        if work.count(".await") != 1 or "self.apply_metadata_update(update).await" not in work:
            bad.append("ClusterWorker::work awaits something other than apply_metadata_update inside the loop")
        if "tokio::spawn(use_keyspace_future)" not in work:
            bad.append("the use_keyspace arm no longer spawns a task per request")
        app = cw[cw.index("async fn apply_metadata_update("):cw.index("fn handle_client_route_update(")]
        if app.count(".await") != 3 or "wait_until_all_pools_are_initialized()" not in app:
            bad.append("apply_metadata_update has %d awaits (model: new_updated / new_with_updated_topology / pools)" % app.count(".await"))
        m = re.search(r"self\.update_cluster_state\(new_cluster_state\);(.*?)for response_chan in refresh_responses \{(.*?)\}", app, re.S)
        if not m or "response_chan.send(Ok(()))" not in m.group(2) or ".await" in m.group(1):
            bad.append("the refresh responses are no longer answered (each with Ok) right after the new state is published")
    except (OSError, ValueError) as e:
        bad.append("cannot census cluster/worker.rs: %s" % e)
    # (6) the metadata worker: what Model/FetchPlan.v's starter step and worker transitions (not tied) are written from
    try:
        wk = open(os.path.join(REPO, "cluster/metadata/worker.rs")).read().split("#[cfg(test)]")[0]
        norm = re.sub(r"\s+", " ", wk)
        for what, frag in [
            ("a full fetch is due iff none runs and (the plan owes one or the deadline passed)",
             "if !matches!(self, PendingFetches::Full { .. }) && (matches!(plan, FetchPlan::Full) || Instant::now() >= *next_refresh_deadline) {"),
            ("starting the full fetch empties the plan", "*plan = FetchPlan::empty(); *next_refresh_deadline"),
            ("partial fetches start only into a free slot", "if client_routes_fetch.is_none() && let Some(request) = client_routes.take()"),
            ("partial topology starts only into a free slot", "if topology_fetch.is_none() && std::mem::take(topology)"),
            ("a refresh request is received only while no full fetch is in flight",
             "maybe_refresh_request = self.refresh_channel.recv(), if !full_fetch_in_flight => {"),
            ("a received request is stored and makes a full fetch owed", "self.set_pending_request(request); plan.note_full_needed();"),
            ("publish_metadata attaches the pending request", "let response_chan = self .pending_request .take() .map(|request| request.response_chan);"),
            ("starting the full fetch ends the starter step",
             "*self = PendingFetches::Full { fetch: Box::pin(cc.query_metadata()), }; return; }"),
            ("a TOPOLOGY_CHANGE event owes a partial topology fetch", "Event::TopologyChange(_) => plan.note_topology(),"),
            ("a CLIENT_ROUTES_CHANGE event owes a partial client-routes fetch", "plan.note_client_routes(ClientRoutesFetchRequest { pairs })"),
            ("a schema event owes nothing", "Event::SchemaChange(_) => (),"),
            ("a failed establishment answers the pending request with the error",
             "if let Some(request) = self.pending_request.take() { // We can ignore sending error - if no one waits for the response we can drop it let _ = request.response_chan.send(Err(err)); }"),
        ]:
            if frag not in norm:
                bad.append("metadata worker changed (%s)" % what)
        # a failed partial fetch (topology / client routes) owes a full fetch; a status change also owes a topology re-read
        for arm in ("FetchOutcome::Topology(Err(err))", "FetchOutcome::ClientRoutes(Err(err))"):
            m = re.search(re.escape(arm) + r" => \{(.*?)(?=FetchOutcome::|\n {16}\}\n)", wk, re.S)
            if not m or "plan.note_full_needed();" not in m.group(1):
                bad.append("metadata worker changed (%s no longer owes a full fetch)" % arm)
        m = re.search(r"Event::StatusChange\(status\) => \{(.*?)_ => unreachable!", wk, re.S)
        if not m or not m.group(1).rstrip().rstrip("}").rstrip().endswith("plan.note_topology();"):
            bad.append("metadata worker changed (a status change no longer owes a topology re-read)")
        if len(re.findall(r"FetchOutcome::Full\(Err\(err\)\) => \{.*?return ControlFlow::Continue\(\(\)\);", wk, re.S)) != 1:
            bad.append("metadata worker changed (a failed full fetch gives up the control connection)")
    except OSError as e:
        bad.append("cannot census cluster/metadata/worker.rs: %s" % e)
    return bad


def _kind(lines, k):
    return [ln for ln in lines if ln.startswith(k + " ")]


def post(lines, verdicts):
    out = [("diff", "census", "diff census: " + b) for b in census()]
    # environment: scenarios that could not be set up / a stress run that finished only when repeated
    env = [ln for ln in lines if "| skip-env" in ln]
    e2e = _kind(lines, "Z") + _kind(lines, "S")
    if len(env) > max(3, len(e2e) // 50):
        out.append(("diff", env[0], "diff tie not exercised: %d of %d S/Z scenarios did not run (%s)"
                    % (len(env), len(e2e), env[0].split("|", 1)[1].strip()[:80])))
    # per-kind floors: the evidence must not claim what was not exercised
    # the runner emits 5 S and 21 Z cases in the quick tier for every seed; up to 3 skip-env are tolerated above
    floors = {"X": 100000, "Y": 50000, "U": 100000, "Q": 1000, "S": 2, "Z": 14, "F": 6000}  # F: 3^8 + 11 = 6572 generated, seed-independent
    for k, n in floors.items():
        have = [ln for ln in _kind(lines, k) if "| skip-env" not in ln]
        if len(have) < n:
            out.append(("diff", k, "diff tie not exercised: %d cases of kind %s, floor %d" % (len(have), k, n)))
    tr = sum(1 for ln in _kind(lines, "X") + _kind(lines, "Q") if "T" in ln.split("|")[0][2:])
    if tr < 50000:
        out.append(("diff", "X", "diff tie not exercised: only %d scripts contain try_recv" % tr))
    cl = sum(1 for ln in _kind(lines, "X") + _kind(lines, "Y") + _kind(lines, "Q") if "K" in ln.split("|")[0][2:])
    if cl < 50000:
        out.append(("diff", "X", "diff tie not exercised: only %d scripts contain a clearing closure" % cl))
    eager = sum(1 for ln in _kind(lines, "Y") if ",!" in ln)
    if eager < 10000:
        out.append(("diff", "Y", "diff tie not exercised: only %d eager-waker scripts contain a poll made by the waker" % eager))
    merged = 0
    for ln in _kind(lines, "Z"):
        f = ln.split("|")[0].split()
        if len(f) == 5 and f[4] == "1":
            for tok in ln.split("|", 1)[1].strip().split(","):
                p = tok.split("/")
                if len(p) == 7 and int(p[0], 16) >= 3 and int(p[5], 16) >= 1:
                    merged += 1
    if merged < 1:
        out.append(("diff", "Z", "diff tie not exercised: no busy-consumer round in which two refreshes were answered within 50 ms of each other"))
    # a failing-fetch scenario counts only if its scripted faults were consumed in every round (bit 2 of the last field clear)
    failing = sum(1 for ln in _kind(lines, "Z") if ln.split("|")[0].split()[-1] == "2" and "| skip-env" not in ln
                  and all(len(t.split("/")) == 7 and int(t.split("/")[6], 16) & 2 == 0 for t in ln.split("|", 1)[1].strip().split(",")))
    if failing < 1:
        out.append(("diff", "Z", "diff tie not exercised: %d failing-fetch scenarios" % failing))
    shrunk = 0
    for ln in _kind(lines, "Z"):
        f = ln.split("|")[0].split()
        if len(f) == 5 and f[4] == "0" and "| skip-env" not in ln:
            t = [x.split("/") for x in ln.split("|", 1)[1].strip().split(",")]
            if len(t) >= 2 and all(len(x) == 7 for x in t) and int(t[-1][3], 16) < int(t[-2][3], 16) and t[-1][3] == t[-1][4]:
                shrunk += 1
    if shrunk < 2:
        out.append(("diff", "Z", "diff tie not exercised: %d scenarios in which a node was removed and the published state shrank" % shrunk))
    loop3 = sum(1 for ln in _kind(lines, "Z") if ln.split("|")[0].split()[-1] == "3" and "| skip-env" not in ln)
    if loop3 < 1:
        out.append(("diff", "Z", "diff tie not exercised: %d select-loop scenarios (use_keyspace + refresh)" % loop3))
    twoF = sum(1 for ln in _kind(lines, "U") if re.search(r"[FG][^k]*[FG]", ln.split("|")[0][2:]))
    if twoF < 10000:
        out.append(("diff", "U", "diff tie not exercised: only %d U scripts merge two full fetches with responses before a take" % twoF))
    return out


def extra_coverage(lines, verdicts):
    return {
        "scripts_with_try_recv": sum(1 for ln in _kind(lines, "X") + _kind(lines, "Q") if "T" in ln.split("|")[0][2:]),
        "scripts_with_a_clearing_closure": sum(
            1 for ln in _kind(lines, "X") + _kind(lines, "Y") + _kind(lines, "Q") if "K" in ln.split("|")[0][2:]),
        "skip_env": sum(1 for ln in lines if "| skip-env" in ln),
        "eager_waker_scripts_with_a_poll_by_the_waker": sum(1 for ln in _kind(lines, "Y") if ",!" in ln),
        "update_scripts_merging_two_full_fetches_with_responses": sum(
            1 for ln in _kind(lines, "U") if re.search(r"[FG][^k]*[FG]", ln.split("|")[0][2:])),
        "census_findings": census(),
    }

SPEC = {
    "pid": "C19",
    "coq_targets": ["Props/C19.vo", "Extract/ExC19.vo"],
    "bin": "c19",
    # --n = number of seeded long scripts; the stress part merges 50*n values in total
    "sizes": {"quick": 20000, "thorough": 200000},
    "search_n": 200000,
    "rule": ("X = EVERY script over {M merge(tag), N no-op closure, D drop sender, P poll recv (fresh or parked future), "
             "C cancel recv, R drop receiver} up to length 10, and up to 12 without N (quick; thorough: 14 with at most one N, "
             "11 with any number of N); plus every script with 1..3 T (try_recv, <= 1 N) up to length 9 (11) and every script with "
             "1..2 K (clearing closure `*slot = None`, <= 1 N) up to length 9 (11); no exhaustive script has both K and T; which "
             "operations are available is decided by the runner's generator; only maximal scripts are written (each contains the "
             "observations of its prefixes). Y = the same alphabet with an EAGER waker (the waker polls the parked future inside "
             "wake(), reported as extra tokens) up to length 9 (12 with <= 1 N), and with 1..2 K up to 8 (10). Q = seeded scripts of "
             "length 15..60 over the full alphabet incl. K and T. The REAL channel (hook H7b) is driven on one thread by a "
             "hand-written poll loop; every modify result, poll outcome, try_recv value and the cumulative wake count after every "
             "operation are compared EXACTLY with run_ops; on a mismatch spec_check decides viol/diff (scripts with K or T: always diff, "
             "their specification clauses come from the API documentation, not the property text). U = the real MetadataUpdate::merge_* "
             "functions (hook verif_metadata_update) on every script of length 5 (thorough 6) over 11 operations + seeded ones of length "
             "6..40: per-step slot views and the final status of every oneshot channel compared exactly with Model/MetaUpdate.v; "
             "status_ok / latest_peers decide viol. S = two OS threads, producer merges tags 0..n-1 then drops, consumer receives until "
             "None (4 modes incl. permanent cancel/restart), extracted stress_ok; no consumer progress for 30 s after the producer "
             "finished (or 300 s in total) = attempt failed: repeated once, one failure = skip-env, two = viol. Z = end-to-end on "
             "mocknode, each scenario adds a node per round and issues refresh_metadata calls: mode 0 1/4/16 concurrent, its last round "
             "REMOVES the node added last instead (the session's node count must shrink to the mock's); mode 1 four "
             "staged refreshes while a slow AddressTranslator keeps the cluster worker busy; mode 2 the next 1..3 metadata reads fail "
             "(error reply / connection cut) while 1/3/6 refreshes are pending - every refresh must be answered (Ok or Err), then one more "
             "must succeed; mode 3 use_keyspace calls alternate with refreshes under a busy worker; judged: every call returned, the "
             "session shows the mock's node count; a scenario with an unexpected outcome is repeated once and the repetition is judged; "
             "set-up failures = skip-env (tolerated up to max(3, 2%)). F = the metadata worker's REAL FetchPlan bookkeeping (hook "
             "verif_fetch_plan) on every script over {note_full_needed, note_topology, note_client_routes} of length 8 (thorough 10) and one "
             "REAL poll of PendingFetches for the 11 distinct slot configurations (9 of the Partial variant: absent / in flight / complete per "
             "slot; 2 of the Full variant), compared exactly with "
             "Model/FetchPlan.v (note_*, resolve); the model's starter step and worker transitions are proved about and pinned by a census, "
             "not tied. non-trivial = X/Y/Q scripts with a poll and a merge, all U/S/Z "
             "cases that ran; distinct = distinct case lines"),
    "post": post,
    "extra_coverage": extra_coverage,
    "min_cases": {"quick": 500000, "thorough": 3000000},
    "nontrivial": lambda ln: "| skip-env" not in ln and (ln[0] in "SZUF") or (ln[0] in "XYQ" and "P" in ln.split("|")[0][2:] and "M" in ln.split("|")[0][2:]),
    "trusted_base": [
        "hook H7b scylla::cluster::metadata::verif_merge_channel_b (newtype pass-throughs around Sender/Receiver/merge_channel; "
        "its try_recv is a verbatim copy of the one-line body of Receiver::try_recv, pinned by the census) and hook "
        "scylla::cluster::metadata::verif_metadata_update (runs the real merge functions; its Take copies the consumer's "
        "answer loop of cluster/worker.rs, pinned by the census); hook H7 (verif_merge_channel) is no longer used",
        "tokio::sync::Notify is modelled for ONE waiter (notify_one / notified+enable / poll / drop); the model is "
        "validated against tokio 1.53.1 by the exact comparison above, it is not derived from tokio's source by proof",
        "Acquire/Release atomics and the slot mutex are modelled as sequentially consistent atomic steps",
        "Model/ClusterLoop.v (cluster worker select loop) is proved about, not extracted and not compared with the code; "
        "a census pins the select! arms and the awaits it is written from",
        "Model/FetchPlan.v: only note_full/note_routes/note_topology and resolve are extracted and compared (hook verif_fetch_plan); "
        "start_due and the worker transitions (fstep) are proved about and pinned by a census of start_due_fetches / work_on_cc / "
        "work_without_cc / publish_metadata",
    ],
    "assumptions": [
        "the channel model has three closure classes (merge / no-op / clear); the driver's own closures all merge "
        "(census + C19_merge_never_clears)",
        "single producer / single consumer is enforced by the types (&mut self, endpoints not Clone)",
        "the recv future is dropped only between polls (at the await point)",
    ],
}

def main(argv):
    return run_check(SPEC, argv)
