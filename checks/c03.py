import os
import random
import subprocess
from collections import Counter

import orchestrate.common as oc
from orchestrate.common import run_check, ROOT, REPO

# ---------------------------------------------------------------------------------------------
# Independent reference for the SPECIFICATION (not used by any proof): Austin Appleby's published
# MurmurHash3_x64_128 in unsigned 64-bit arithmetic, seed 0, with Cassandra's single deviation
# (tail bytes are sign-extended because Java's byte is signed).  It reproduces the published
# vectors mmh3.hash64("foo") / ("hello"), the pangram digest e34bbc7bbc071b6c7a433ca9c49a9347 and
# agreed with a JVM running the Java source on 181 high-bit inputs when the slice was built.
# At check time it is compared (a) with the Coq specification hash3_x64_128 (driver kind S) and
# (b) with the implementation's own H/W outputs.  A mismatch is a broken correspondence (`diff`).
M64 = (1 << 64) - 1


def _rotl(x, r):
    return ((x << r) | (x >> (64 - r))) & M64


def _fmix(k):
    k ^= k >> 33
    k = (k * 0xff51afd7ed558ccd) & M64
    k ^= k >> 33
    k = (k * 0xc4ceb9fe1a85ec53) & M64
    k ^= k >> 33
    return k


def ref_hash3_x64_128(data):
    n = len(data)
    nb = n // 16
    h1 = h2 = 0
    c1, c2 = 0x87c37b91114253d5, 0x4cf5ad432745937f
    for i in range(nb):
        k1 = int.from_bytes(data[16 * i:16 * i + 8], "little")
        k2 = int.from_bytes(data[16 * i + 8:16 * i + 16], "little")
        k1 = (k1 * c1) & M64; k1 = _rotl(k1, 31); k1 = (k1 * c2) & M64; h1 ^= k1
        h1 = _rotl(h1, 27); h1 = (h1 + h2) & M64; h1 = (h1 * 5 + 0x52dce729) & M64
        k2 = (k2 * c2) & M64; k2 = _rotl(k2, 33); k2 = (k2 * c1) & M64; h2 ^= k2
        h2 = _rotl(h2, 31); h2 = (h2 + h1) & M64; h2 = (h2 * 5 + 0x38495ab5) & M64
    tail = data[16 * nb:]

    def t(i):                       # (long) of a signed Java byte, as an unsigned 64-bit word
        b = tail[i]
        return (b - 256 if b >= 128 else b) & M64
    k1 = k2 = 0
    for i in range(len(tail) - 1, 7, -1):
        k2 ^= (t(i) << (8 * (i - 8))) & M64
    if len(tail) > 8:
        k2 = (k2 * c2) & M64; k2 = _rotl(k2, 33); k2 = (k2 * c1) & M64; h2 ^= k2
    for i in range(min(len(tail), 8) - 1, -1, -1):
        k1 ^= (t(i) << (8 * i)) & M64
    if len(tail) > 0:
        k1 = (k1 * c1) & M64; k1 = _rotl(k1, 31); k1 = (k1 * c2) & M64; h1 ^= k1
    h1 ^= n; h2 ^= n
    h1 = (h1 + h2) & M64; h2 = (h2 + h1) & M64
    h1 = _fmix(h1); h2 = _fmix(h2)
    h1 = (h1 + h2) & M64; h2 = (h2 + h1) & M64
    return h1, h2


def _s64(x):
    return x - (1 << 64) if x >= (1 << 63) else x


def _hexz(v):
    return "-%x" % -v if v < 0 else "%x" % v


def ref_token(data):
    v = _s64(ref_hash3_x64_128(data)[0])
    return (1 << 63) - 1 if v == -(1 << 63) else v


PUBLISHED = [  # standard function on ASCII input (= Cassandra's there) and the repository's vectors
    (b"foo", (-2129773440516405919, 9128664383759220103)),
    (b"hello", (-3758069500696749310, 6565844092913065241)),
    (b"The quick brown fox jumps over the lazy dog", (_s64(0xe34bbc7bbc071b6c), 0x7a433ca9c49a9347)),
]
REPO_TOKENS = [(b"test", -6017608668500074083), (b"xd", 4507812186440344727),
               (b"primary_key", -1632642444691073360), ("kremówki".encode(), 4354931215268080151)]


def _unhex(s):
    return b"" if s == "-" else bytes.fromhex(s)


def _spec_lines(seed):
    """inputs for the spec tie: every length 0..80 with bytes >= 0x80, block multiples, random"""
    rnd = random.Random(seed * 1000003 + 17)
    ins = [w for w, _ in PUBLISHED] + [w for w, _ in REPO_TOKENS]
    for n in range(0, 81):
        ins.append(bytes(rnd.randrange(128, 256) for _ in range(n)))
        ins.append(bytes([0xff]) * n)
    for _ in range(120):
        n = rnd.choice([rnd.randrange(0, 700), 16 * rnd.randrange(1, 40) + rnd.randrange(-1, 2)])
        hi = rnd.random() < 0.7
        ins.append(bytes((rnd.randrange(128, 256) if hi else rnd.randrange(256)) for _ in range(n)))
    out = []
    for d in ins:
        h1, h2 = ref_hash3_x64_128(d)
        out.append("S %s | %s %s" % (d.hex() if d else "-", _hexz(_s64(h1)), _hexz(_s64(h2))))
    return out


def _k2_signed(data):
    """does the stream exercise the sign extension of the k2 tail half?"""
    r = len(data) % 16
    return r >= 9 and any(b >= 0x80 for b in data[len(data) - r + 8:])


def post(lines, verdicts):
    probs = []
    # the reference itself against the published / repository vectors
    for w, (a, b) in PUBLISHED:
        h1, h2 = ref_hash3_x64_128(w)
        if (_s64(h1), _s64(h2)) != (a, b):
            probs.append(("diff", "S " + w.hex(), "diff reference-disagrees-with-published-vector"))
    for w, t in REPO_TOKENS:
        if ref_token(w) != t:
            probs.append(("diff", "S " + w.hex(), "diff reference-disagrees-with-repository-vector"))
    # (a) SPEC tie: Coq hash3_x64_128 (extracted) vs the reference
    sl = _spec_lines(int(os.environ.get("VERIF_SEED", "1")))
    drv = os.path.join(ROOT, "ocaml", "c03", "driver")
    try:
        p = subprocess.run([drv], input="\n".join(sl) + "\n", stdout=subprocess.PIPE, stderr=subprocess.PIPE,
                           text=True, timeout=1200)
        sv = p.stdout.splitlines()
    except subprocess.TimeoutExpired:
        sv = []
        probs.append(("diff", "S -", "error spec tie: driver timeout"))
    post.spec_cases = len(sl)
    post.spec_k2 = sum(1 for l in sl if _k2_signed(_unhex(l.split()[1])))
    if len(sv) != len(sl):
        probs.append(("diff", "S -", "error driver-died on the spec tie"))
    for l, v in zip(sl, sv):
        if v != "ok":
            probs.append(("diff", l, v if v.startswith("diff") else "diff " + v))
    # (b) the reference against the implementation's own Murmur3 outputs, and coverage census
    kinds = Counter()
    cen = Counter()
    refchecked = 0
    for ln in lines:
        case, _, obs = ln.partition(" | ")
        f = case.split(" ")
        kinds[f[0]] += 1
        if f[0] in ("H", "W"):
            if f[1] == "c":
                cen["cdc_hash"] += 1
                continue
            if f[0] == "H":
                data = _unhex(f[2])
            else:
                data = b"".join(b"" if c in (".", "-") else bytes.fromhex(c) for c in f[2].split(","))
                if "," in f[2]:
                    cen["multi_chunk"] += 1
            if _k2_signed(data):
                cen["k2_signed_tail"] += 1
            refchecked += 1
            if obs.strip() != _hexz(ref_token(data)):
                probs.append(("diff", ln[:300], "diff reference=" + _hexz(ref_token(data))))
        elif f[0] == "K":
            o = obs.split(" ")
            if len(o) != 5:
                probs.append(("diff", ln[:300], "diff malformed K observation"))
                continue
            if o[3] != "na":
                cen["k_typed_path_compared"] += 1
            wire = [] if f[3] == "-" else [int(x, 16) for x in f[3].split(",")]
            if len(wire) >= 2 and wire != sorted(wire) and o[2].startswith("some:"):
                cen["permuted_key_ok"] += 1
            if o[0] == "panic" or o[0].startswith("err:"):
                cen["k_malformed"] += 1
            if "err:toolong" in obs:
                cen["too_long"] += 1
                if len(f[4]) < 131000 * 2 and not (f[2] == "2" and f[3] == "1,0"):
                    cen["too_long_random"] += 1
            if f[1] == "c":
                cen["k_cdc"] += 1
            if len(wire) >= 5:
                cen["k_5plus_components"] += 1
        elif f[0] == "T":
            if "err:toolong" in obs:
                cen["too_long"] += 1
        elif f[0] == "E":
            if obs.startswith("error cluster-start") or obs.startswith("error session"):
                cen["e_not_run"] += 1
            if obs.startswith("c "):
                cen["e_cdc"] += 1
            fetch = f[1][1] if len(f[1]) > 1 else "f"
            cen["e_scen_" + f[1][0]] += 1
            cen["e_fetch_" + fetch] += 1
            if fetch == "m" and obs.startswith("c "):
                cen["e_minimal_cdc"] += 1
                if f[1][0] == "n":
                    cen["e_nocols_minimal_cdc"] += 1
            if f[1][0] == "u" and any(r.startswith(f[3] + ":") for r in f[2].split(",")):
                cen["e_unknown_with_row"] += 1
        elif f[0] == "Y":
            if obs.startswith("some:") and len(f[3].split(",")) >= 2:
                cen["y_composite_ok"] += 1
            if obs.startswith("err:ser"):
                cen["y_ser_err"] += 1
        elif f[0] == "Z":
            if f[1] == "c":
                cen["z_cdc"] += 1
        elif f[0] == "P":
            if obs.startswith("c "):
                cen["p_cdc"] += 1
            if obs.startswith("none "):
                cen["p_unknown"] += 1
    post.census = dict(cen)
    probs += _release_mode_tie(lines)
    post.refchecked = refchecked
    if len(lines) >= 50000:      # a generated run (not a replay): what the evidence claims must have happened
        floors = {"H": 10000, "W": 10000, "K": 10000, "T": 2000, "P": 1000, "E": 800, "Y": 2000, "Z": 1500}
        for k, fl in floors.items():
            if kinds[k] < fl:
                probs.append(("diff", k, f"diff coverage floor: only {kinds[k]} {k} cases (< {fl})"))
        cfl = {"k2_signed_tail": 3000, "multi_chunk": 5000, "cdc_hash": 1500, "permuted_key_ok": 3000,
               "k_malformed": 300, "too_long": 10, "k_typed_path_compared": 8000, "k_cdc": 1000, "k_5plus_components": 1000,
               "p_cdc": 100, "p_unknown": 100, "e_cdc": 60, "e_scen_s": 500, "e_scen_x": 30, "e_scen_u": 30, "e_scen_n": 30,
               "e_fetch_f": 300, "e_fetch_m": 200, "e_fetch_d": 40, "e_minimal_cdc": 15,
               "e_nocols_minimal_cdc": 10, "e_unknown_with_row": 20,
               "y_composite_ok": 800, "y_ser_err": 20, "z_cdc": 100}
        for k, fl in cfl.items():
            if cen[k] < fl:
                probs.append(("diff", k, f"diff coverage floor: only {cen[k]} cases of class {k} (< {fl})"))
        cap = max(20, (15 * kinds["E"]) // 1000)   # environment trouble is not-run, capped at 20 cases or 1.5 % of E
        if cen["e_not_run"] > cap:
            probs.append(("diff", "E", f"diff {cen['e_not_run']} end-to-end cases could not be run (cap {cap})"))
        if post.spec_k2 < 60:
            probs.append(("diff", "S", f"diff coverage floor: only {post.spec_k2} spec-tie inputs with a signed k2 tail"))
    return probs


def _release_mode_tie(lines):
    """Second build of the SAME runner with overflow checks off (release arithmetic: u16 wraps):
    the pk-index cases outside the quantifier (where the checked build panics) and a sample of
    ordinary K cases are re-run as kind R and compared with the model's checks=false branch.
    Built from the same harness directory as the main runner (so a VERIF_REPO run sees the same
    tree) into `<main target dir>-c03-nochk`, where the checked runner also looks when a replay
    hands it an R case."""
    post.r_cases = post.r_wrapped = 0
    mal, ordinary, debug_panic = [], [], set()
    for ln in lines:
        if not ln.startswith("K "):
            continue
        case, _, obs = ln.partition(" | ")
        if len(case) > 4000:
            continue
        if obs.startswith("panic") or obs.startswith("err:"):
            if len(mal) < 6000:
                mal.append(case)
                if obs.startswith("panic"):
                    debug_panic.add("R" + case[1:])
        elif len(ordinary) < 1500:
            ordinary.append(case)
    sel = mal + ordinary
    if not sel:
        return []
    hdir, _ = oc.harness_dir()
    target = oc.CARGO_TARGET + "-c03-nochk"
    env = dict(os.environ)
    for v in ("RUSTFLAGS", "CARGO_ENCODED_RUSTFLAGS", "CARGO_BUILD_RUSTFLAGS", "CARGO_BUILD_TARGET_DIR"):
        env.pop(v, None)
    env.update({"CARGO_PROFILE_DEV_OVERFLOW_CHECKS": "false", "CARGO_TARGET_DIR": target, "CARGO_NET_OFFLINE": "true"})
    tag = f"C03.{os.getpid()}.nochk"
    work = os.path.join(ROOT, "work")
    rin, rout = os.path.join(work, tag + ".in"), os.path.join(work, tag + ".cases")
    try:
        b = subprocess.run("cargo build --offline --bin c03", shell=True, cwd=hdir, env=env,
                           stdout=subprocess.PIPE, stderr=subprocess.STDOUT, text=True, timeout=2400)
        if b.returncode != 0:
            return [("diff", "R", "error build without overflow checks failed: " + b.stdout[-300:].replace("\n", " "))]
        open(rin, "w").write("\n".join("R" + c[1:] for c in sel) + "\n")
        r = subprocess.run([os.path.join(target, "debug", "c03"), "--replay", rin, "--out", rout],
                           stdout=subprocess.PIPE, stderr=subprocess.STDOUT, text=True, timeout=1200)
        if r.returncode != 0:
            return [("diff", "R", "error runner without overflow checks failed: " + r.stdout[-300:].replace("\n", " "))]
        rl = open(rout, errors="replace").read().splitlines()
        d = subprocess.run([os.path.join(ROOT, "ocaml", "c03", "driver")], input="\n".join(rl) + "\n",
                           stdout=subprocess.PIPE, stderr=subprocess.PIPE, text=True, timeout=1200)
        rv = d.stdout.splitlines()
    except subprocess.TimeoutExpired as ex:
        return [("diff", "R", f"error release-mode tie: timeout in {str(ex.cmd)[:80]}")]
    finally:
        for fn in (rin, rout):
            try:
                os.remove(fn)
            except OSError:
                pass
    out = []
    if len(rv) != len(rl) or len(rl) != len(sel):
        out.append(("diff", "R", f"error release-mode tie: {len(sel)} cases, {len(rl)} outputs, {len(rv)} verdicts"))
    for l, v in zip(rl, rv):
        post.r_cases += 1
        case, _, obs = l.partition(" | ")
        if case in debug_panic and obs.startswith("err:nopk"):
            post.r_wrapped += 1
        if not v.startswith("ok") or v.startswith("ok not-this-build"):
            out.append(("viol" if v.startswith("viol") else "diff", l[:400],
                        v if v.startswith(("viol", "diff")) else "diff " + v))
    if len(lines) >= 50000 and post.r_wrapped < 100:
        out.append(("diff", "R", f"diff coverage floor: only {post.r_wrapped} cases where the checked build panics and the unchecked one wraps"))
    return out


def extra_coverage(lines, verdicts):
    return {"spec_tie_cases_vs_independent_reference": getattr(post, "spec_cases", 0),
            "spec_tie_cases_with_signed_k2_tail": getattr(post, "spec_k2", 0),
            "impl_murmur3_outputs_checked_against_reference": getattr(post, "refchecked", 0),
            "release_mode_cases_R": getattr(post, "r_cases", 0),
            "release_mode_cases_where_debug_panics_and_release_wraps": getattr(post, "r_wrapped", 0),
            "census": getattr(post, "census", {})}


SPEC = {
    "pid": "C03",
    "coq_targets": ["Props/C03.vo", "Extract/ExC03.vo"],
    "bin": "c03",
    "sizes": {"quick": 60000, "thorough": 250000},
    "min_cases": {"quick": 55000, "thorough": 220000},
    "search_n": 300000,
    "post": post,
    "extra_coverage": extra_coverage,
    "rule": ("fixed sweeps: H = hash_one on every length 0..70 x 4 byte classes (>=0x80 dense, 0xff, uniform, "
             "0x80/0x7f) and every multiple / near-multiple of 16 up to 4 KiB; W = write/finish over every 2- and "
             "3-split of a 48-byte string; K = every placement of k<=4 (thorough 5) key markers among k..k+2 "
             "markers (1/5 CDC), the 65534..65537-byte component boundary; the six standard partitioner class names (kind P); plus seeded "
             "random cases: H, W (random chunkings, chunk sizes around 0/1/8/16/32), K (1..8 key components among "
             "<=16 markers, permuted, non-key markers value/null/unset interleaved; 15% malformed: null key "
             "component, duplicate / out-of-range pk index, missing values, missing column specs, not token aware), "
             "T = calculate_token_for_partition_key, E = real Session + Session::prepare on a mock cluster whose scylla_tables "
             "rows are the case's (scenarios: present / no such table / table unknown / table without column rows) x (full / minimal / disabled schema fetching), Y = typed CqlValue rows over 8 native "
             "key types, Z = hash_one then Sharder::shard_of, R (post) = malformed K cases re-run without overflow checks, "
             "P = PartitionerName::from_str + default on exact, suffixed, "
             "truncated, concatenated and unknown names; 1/6 of the cases use the CDC partitioner; post: per-kind "
             "and per-class floors (signed k2 tails, permuted keys, malformed, too long, CDC, unknown names), the "
             "Coq SPEC hash3_x64_128 vs an independent unsigned reference on 289 inputs (kind S), the same "
             "reference vs every Murmur3 H/W output of the implementation (no length limit); non-trivial = every case except empty "
             "inputs; distinct = distinct case lines"),
    "nontrivial": lambda ln: not (ln.startswith("H m - ") or ln.startswith("H c - ") or ln.startswith("W m - ")
                                  or ln.startswith("W c - ") or ln.startswith("T m - ") or ln.startswith("T c - ")),
    "trusted_base": [
        "murmur3_spec is Cassandra's MurmurHash.hash3_x64_128 (seed 0, first long) transcribed from the Java source; "
        "cross-checked in Coq on the four literal vectors of partitioner.rs, three published MurmurHash3_x64_128 "
        "vectors (both halves), four JVM-generated vectors with signed bytes in both tail halves, and at check time "
        "against the independent reference in checks/c03.py, whose formulation (unsigned, block-walking) is Model/MurmurRef.v, "
        "proved equal to murmur3_spec for every byte string (C03_reference)",
        "cdc_token_spec is the rule documented in partitioner.rs itself (no independent source offline); only its "
        "16-byte case (C03_cdc_stream_id) is claimed against the server; spec_serialized_key is from the property text",
        "hooks scylla::statement::verif_prepared (PreparedStatement from a deserialized PREPARED response; pass-throughs "
        "to PartitionKey::new / write_encoded_partition_key / calculate_token_untyped / calculate_token_for_partition_key) "
        "and scylla::routing::verif_partitioner (PartitionerName::from_str)",
        "the runner's own encoder of the RESULT/Prepared body and of the [short n][value]* block fed to the crate's "
        "parsers; the runner rebuilds `name.and_then(from_str).unwrap_or_default()` from the hook and the real Default",
    ],
    "assumptions": [
        "hashed streams are shorter than 2^63 bytes: premise of C03_chunking, C03_feed, C03_hash_one, C03_chunk_independent, C03_token, "
        "C03_marker_order, C03_murmur3_table(_chain/_last_row/_fetch_modes), C03_token_preserialized, C03_token_typed, C03_token_shard, "
        "C03_prop_model, C03_prop_pk_model; C03_chunking_all / C03_feed_all / C03_token_all and (round 4) C03_hash_one_all / C03_chunk_independent_all / "
        "C03_token_preserialized_all / C03_token_shard_all / C03_prop_model_all / C03_prop_pk_model_all drop it (the length enters only modulo 2^64; a "
        "premise removal inside the model, beyond 2^31-1 bytes the Java function does not exist)",
        "inside the quantifier (key_ok, decided exactly by key_okb): pk indexes distinct, each names an existing "
        "marker bound to a value, at most 65535 bound values; outside it the model still follows the code (panics and "
        "errors are compared exactly)",
        "build modes: the main harness is built with overflow-checks (u16 overflow in PartitionKey::new panics; kind K, "
        "model flag checks=true); post re-runs the malformed K cases with the same runner built with overflow checks "
        "off (wrapping, kind R, checks=false; only a duplicate pk index differs between the modes, an index >= column specs "
        "panics in both); that second build is the dev profile, not an optimised --release build; setup.sh prebuilds it, post re-runs "
        "cargo build on <CARGO_TARGET>-c03-nochk (no-op when fresh)",
        "end-to-end E cases need loopback listeners (mocknode); a scenario whose mock cluster or Session cannot start is `ok not-run`, "
        "counted in the census (e_not_run) and capped at max(20, 1.5 % of the E cases) on generated runs (>= 50 000 lines; post is not called on "
        "replays); a failing Session::prepare is a diff",
    ],
}


def main(argv):
    return run_check(SPEC, argv)
