from orchestrate.common import run_check

SPEC = {
    "pid": "C03",
    "coq_targets": ["Props/C03.vo", "Extract/ExC03.vo"],
    "bin": "c03",
    "sizes": {"quick": 60000, "thorough": 1000000},
    "search_n": 300000,
    "rule": ("fixed sweeps: H = hash_one on every length 0..70 x 4 byte classes (>=0x80 dense, 0xff, uniform, "
             "0x80/0x7f) and every multiple / near-multiple of 16 up to 4 KiB; W = write/finish over every 2- and "
             "3-split of a 48-byte string; K = every placement of k<=4 (thorough 5) key markers among k..k+2 "
             "markers, the 65534..65537-byte component boundary; plus seeded random cases: H, W (random chunkings, "
             "chunk sizes around 0/1/8/16/32), K (1..8 key components among <=16 markers, permuted, non-key markers "
             "value/null/unset interleaved; 15% malformed: null key component, duplicate / out-of-range pk index, "
             "missing values, missing column specs, not token aware), T = calculate_token_for_partition_key; "
             "1/6 of the cases use the CDC partitioner; non-trivial = every case except empty inputs; "
             "distinct = distinct case lines"),
    "nontrivial": lambda ln: not (ln.startswith("H m - ") or ln.startswith("H c - ") or ln.startswith("W m - ")
                                  or ln.startswith("W c - ") or ln.startswith("T m - ") or ln.startswith("T c - ")),
    "trusted_base": [
        "murmur3_spec is Cassandra's MurmurHash.hash3_x64_128 (seed 0, first long) transcribed from the Java source; "
        "cross-checked in Coq on the four literal vectors of partitioner.rs and by the tie on every generated input",
        "cdc_token_spec and spec_serialized_key are transcribed from the property text",
        "hook scylla::statement::verif_prepared (PreparedStatement from a deserialized PREPARED response; pass-throughs "
        "to PartitionKey::new / write_encoded_partition_key / calculate_token_untyped / calculate_token_for_partition_key)",
        "the runner's own encoder of the RESULT/Prepared body and of the [short n][value]* block fed to the crate's parsers",
    ],
    "assumptions": [
        "hashed streams are shorter than 2^63 bytes (premise of C03_chunking / C03_feed / C03_token)",
        "inside the quantifier (key_ok): pk indexes distinct, each names an existing marker bound to a value, at most "
        "65535 bound values; outside it the model still follows the code (panics and errors are compared exactly)",
        "u16 overflow in PartitionKey::new is modelled as a panic (the harness is built with overflow checks)",
    ],
}

def main(argv):
    return run_check(SPEC, argv)
