import os
import re
import sys

from orchestrate.common import REPO, run_check

E2E_KINDS = ("P", "R", "X", "G", "N", "K", "S")

# ---------------------------------------------------------------- census (structure pin)
# Control-flow skeleton of the functions the interleaving semantics of Model/Streams.v was written
# from (scylla/src/network/connection.rs): every jump, loop, `.await`, `?`, lock acquisition, map
# operation, channel operation and match arm, in source order.  The model's atomicity assumption
# ("each map access is one try_lock critical section without .await"), the order notifier-created <
# task-sent < response-awaited < notifier-disabled, and the set of branches of reader / writer /
# orphaner are read off this skeleton; a change here means the model may miss a branch: `diff census`.
CONN_FILE = "scylla/src/network/connection.rs"
CONN_TOKENS = re.compile(
    r"\btry_lock\s*\(\s*\)\s*\.\s*unwrap\s*\(\s*\)|\.\s*await\b|\?|\breturn\b|\bbreak\b|\bcontinue\b|\bloop\b|"
    r"\bwhile\s+let\b|\bwhile\b|\bfor\b|\bif\s+let\b|\bif\b|\belse\b|\bmatch\b|tokio::select!|futures::try_join!|"
    r"OrphanhoodNotifier::new|notifier\s*\.\s*disable\s*\(\s*\)|\bsubmit_channel\s*\.\s*send\b|\breceiver\s*\.\s*await\b|"
    r"allocate_request_id\s*\(\s*\)|alloc_stream_id\s*\(|"
    r"\.\s*(?:allocate|lookup|orphan|old_orphans_count|into_handlers)\s*\(|response_sender\s*\.\s*send\s*\(|"
    r"\.\s*set_stream\s*\(|\.\s*write_all\s*\(|\.\s*flush\s*\(|\btry_recv\s*\(\s*\)|"
    r"\b(?:task_receiver|orphan_receiver|receiver)\s*\.\s*recv\s*\(\s*\)|receiver\s*\.\s*close\s*\(\s*\)|"
    r"read_response_frame\s*\(|interval\s*\.\s*tick\s*\(\s*\)|cmp\s*\(\s*&-1\s*\)|handle_event\s*\(|=>|"
    r"Handler\s*\(|Missing\b|Orphaned\b|drop\s*\(|self\.enabled|notification_sender\s*\.\s*send\s*\(")
CONN_SKELETON = {
    "fn send_request": ['?', 'allocate_request_id()', 'OrphanhoodNotifier::new', 'submit_channel.send', '.await', '?',
                        'receiver.await', '?', 'notifier.disable()'],
    "impl Drop for OrphanhoodNotifier": ['drop(', 'if', 'self.enabled', 'notification_sender.send('],
    "fn router": ['futures::try_join!', 'match', '=>', 'return', '=>', '.into_handlers(', 'for', 'response_sender.send(',
                  'receiver.close()', 'whilelet', 'receiver.recv()', '.await', 'response_sender.send('],
    "fn reader": ['loop', 'read_response_frame(', '.await', '?', 'match', 'cmp(&-1)', '=>', 'continue', '=>', 'iflet',
                  'handle_event(', '.await', '?', 'continue', '=>', 'try_lock().unwrap()', '.lookup(', 'match', 'Handler(',
                  '=>', 'response_sender.send(', 'Missing', '=>', 'return', 'Orphaned', '=>'],
    "fn alloc_stream_id": ['try_lock().unwrap()', 'match', '.allocate(', '=>', '=>', 'response_sender.send('],
    "fn writer": ['whilelet', 'task_receiver.recv()', '.await', 'whilelet', 'alloc_stream_id(', '.set_stream(', '.write_all(',
                  '.await', '?', 'match', 'try_recv()', '=>', '=>', 'match', '=>', '.await', 'match', 'try_recv()', '=>',
                  '=>', 'break', '=>', '.await', 'match', 'try_recv()', '=>', '=>', 'break', '=>', 'break', '.flush(',
                  '.await', '?'],
    "fn orphaner": ['loop', 'tokio::select!', 'interval.tick()', '=>', 'try_lock().unwrap()', '.old_orphans_count(', 'if',
                    'return', 'orphan_receiver.recv()', '=>', 'try_lock().unwrap()', '.orphan(', 'else', '=>', 'break'],
}


def _strip(src):
    """remove comments and string literals (keeps the structure characters of code only)"""
    out, i, n = [], 0, len(src)
    while i < n:
        if src.startswith("//", i):
            j = src.find("\n", i)
            i = n if j < 0 else j
        elif src.startswith("/*", i):
            j = src.find("*/", i + 2)
            i = n if j < 0 else j + 2
        elif src[i] == '"':
            i += 1
            while i < n and src[i] != '"':
                i += 2 if src[i] == "\\" else 1
            i += 1
            out.append('""')
        elif src[i] == "'" and i + 2 < n and (src[i + 2] == "'" or (src[i + 1] == "\\" and src.find("'", i + 2) in (i + 3, i + 4))):
            j = src.find("'", i + 2)
            i = j + 1
            out.append("' '")
        else:
            out.append(src[i])
            i += 1
    return "".join(out)


def _match_brace(s, i):
    depth = 0
    while i < len(s):
        if s[i] == "{":
            depth += 1
        elif s[i] == "}":
            depth -= 1
            if depth == 0:
                return i
        i += 1
    return len(s)


def conn_skeleton():
    s = _strip(open(os.path.join(REPO, CONN_FILE), errors="replace").read())
    got = {}
    for key in CONN_SKELETON:
        if key.startswith("fn "):
            m = re.search(r"\bfn\s+" + key[3:] + r"\b", s)
        else:
            m = re.search(re.sub(r"\s+", r"\\s+", key), s)
        if not m:
            got[key] = None
            continue
        b = s.find("{", m.end())
        body = s[b:_match_brace(s, b) + 1]
        got[key] = [re.sub(r"\s+", "", t) for t in CONN_TOKENS.findall(body)]
    return got


def census():
    bad = []
    got = conn_skeleton()
    for key, want in CONN_SKELETON.items():
        g = got.get(key)
        if g != want:
            bad.append(f"control-flow skeleton of `{key}` in {CONN_FILE} changed: pinned {want}, found {g}")
    return bad



def _events(ln):
    """events of the LAST attempt of the scenario (earlier attempts, separated by NEXT, missed their window)"""
    out = ln.partition("|")[2]
    i = out.rfind("T=")
    return out[i + 2:].split()[0].split(",") if i >= 0 else []


def _nontrivial(ln):
    case = ln.split("|")[0]
    k = case.split(" ", 1)[0]
    if k in E2E_KINDS:
        # at least one request written, answered and completed
        ev = _events(ln)
        return any(e.startswith("i") for e in ev) and any(e.startswith("d") for e in ev)
    if k == "O":
        return " f" in ln.partition("|")[2] or " e" in ln.partition("|")[2]
    # a sequence is non-trivial when at least one allocation and one lookup/orphan occur
    return (" a" in case or " F" in case) and (" l" in case or " o" in case or " D" in case)


def _extra(lines, verdicts):
    ops = 0
    full = 0
    e2e = {"runs": 0, "requests_submitted": 0, "frames_received_by_mock": 0, "completed_with_own_answer": 0,
           "alloc_failures": 0, "dropped_never_written": 0, "dropped_before_write": 0, "dropped_after_write": 0,
           "dropped_after_response": 0, "max_outstanding_on_one_connection": 0, "exhaustion_runs_reaching_32768": 0,
           "oversized_frames_on_the_wire": 0, "not_run_env": 0, "exhaustion_runs_total": 0,
           "exhaustion_runs_with_refusal_after_abandon_and_wait": 0, "scenarios_with_repeated_attempts": 0, "not_run_by_kind": {}, "ran_by_kind": {}, "frames_on_negative_stream_ids": 0,
           "threshold_runs_connection_ended": 0, "threshold_runs_connection_kept": 0,
           "callers_failed_by_orphan_threshold": 0, "submit_storm_runs": 0, "submit_storm_callers_aborted": 0}
    timed = {"cases": 0, "allocations_refused_after_real_wait": 0, "count_probes": 0}
    reader = {"cases": 0, "frames_returned": 0, "bodies_over_256MiB": 0}
    vs = list(verdicts) if verdicts else []
    vs += [None] * (len(lines) - len(vs))
    timed_oldids = 0
    for ln, vd in zip(lines, vs):
        case, _, out = ln.partition("|")
        k = case.split(" ", 1)[0]
        if k == "T" and vd and vd.startswith("ok oldids"):
            timed_oldids += 1
        if k in E2E_KINDS:
            sub = k
            if k == "K":
                sub = "K-end" if int(case.split()[2]) > 1024 else "K-keep"
            if (vd and vd.startswith("ok notrun")) or out.split()[:1] == ["setup-error"] or " NEXT setup-error" in out:
                e2e["not_run_env"] += 1
                e2e["not_run_by_kind"][sub] = e2e["not_run_by_kind"].get(sub, 0) + 1
                continue
            e2e["ran_by_kind"][sub] = e2e["ran_by_kind"].get(sub, 0) + 1
            ev = _events(ln)
            e2e["runs"] += 1
            if " NEXT " in out:
                e2e["scenarios_with_repeated_attempts"] += 1
            if k == "X":
                e2e["exhaustion_runs_total"] += 1
                # a refusal of the SECOND batch of extra requests (markers > fill + extra, submitted after
                # the callers were abandoned and the wait): X <seed> <fill> <extra> ...
                cf = case.split()
                second = int(cf[2]) + int(cf[3])
                seen_c = False
                for e in ev:
                    if e[0] == "c" and not e.startswith("close"):
                        seen_c = True
                    elif seen_c and e.startswith("d") and e.endswith(".a") and int(e[1:].split(".")[0], 16) > second:
                        e2e["exhaustion_runs_with_refusal_after_abandon_and_wait"] += 1
                        break
            pos_in, pos_out = {}, {}
            outst, mx = set(), 0
            for i, e in enumerate(ev):
                c = e[0]
                if c == "s":
                    e2e["requests_submitted"] += 1
                elif c == "i":
                    sid, m = e[1:].split(".")
                    pos_in[m] = i
                    outst.add(sid)
                    mx = max(mx, len(outst))
                    e2e["frames_received_by_mock"] += 1
                elif c == "o":
                    sid, m = e[1:].split(".")[:2]
                    if int(sid, 16) >= 0x8000:
                        e2e["frames_on_negative_stream_ids"] += 1
                        continue
                    pos_out[m] = i
                    outst.discard(sid)
                elif c == "d":
                    m, o = e[1:].split(".", 1)
                    if o == "xTooManyOrphanedStreamIds":
                        e2e["callers_failed_by_orphan_threshold"] += 1
                    if o == "a":
                        e2e["alloc_failures"] += 1
                    elif o == "r" + m:
                        e2e["completed_with_own_answer"] += 1
            for i, e in enumerate(ev):
                if e[0] == "c" and not e.startswith("close"):
                    m = e[1:]
                    if m not in pos_in:
                        e2e["dropped_never_written"] += 1
                    elif pos_in[m] > i:
                        e2e["dropped_before_write"] += 1
                    elif m not in pos_out or pos_out[m] > i:
                        e2e["dropped_after_write"] += 1
                    else:
                        e2e["dropped_after_response"] += 1
            e2e["max_outstanding_on_one_connection"] = max(e2e["max_outstanding_on_one_connection"], mx)
            if mx >= 32768:
                e2e["exhaustion_runs_reaching_32768"] += 1
            if k == "S":
                e2e["submit_storm_runs"] += 1
                e2e["submit_storm_callers_aborted"] += sum(1 for e in ev if e[0] == "c" and not e.startswith("close"))
            if k == "K":
                if any(e.startswith("close") for e in ev):
                    e2e["threshold_runs_connection_ended"] += 1
                else:
                    e2e["threshold_runs_connection_kept"] += 1
            if k == "G" and any(e.startswith("o") and e.endswith(".f4240") for e in ev):
                e2e["oversized_frames_on_the_wire"] += 1
            continue
        if k == "O":
            reader["cases"] += 1
            for t in out.split():
                if t.startswith("f"):
                    reader["frames_returned"] += 1
                    if int(t.split(".")[3], 16) > (256 << 20):
                        reader["bodies_over_256MiB"] += 1
            continue
        if k == "T":
            timed["cases"] += 1
            toks = case.split()
            res = out.split()
            waited = False
            # results are aligned with ops only up to compression; count refusals after the first wait
            for t in toks:
                if t.startswith("w") and t != "w0":
                    waited = True
            if waited:
                timed["allocations_refused_after_real_wait"] += sum(1 for t in res if t.startswith("f"))
            timed["count_probes"] += sum(1 for t in res if t.startswith("n"))
        for t in out.split():
            if t.startswith("S"):
                ops += int(t.split(".")[1], 16)
            elif "=" not in t:
                ops += 1
        if " F8000." in case:
            full += 1
    timed["count_probes_also_compared_with_old_ids"] = timed_oldids
    return {"operations_compared": ops, "full_32768_id_fills": full, "timed_state_machine": timed,
            "end_to_end": e2e, "frame_reader": reader,
            "census": {"functions_pinned": list(CONN_SKELETON), "tokens": sum(len(v) for v in CONN_SKELETON.values()),
                       "mismatches": census()}}


# what a run must really have exercised (non-replay runs): (quick, thorough)
FLOORS = {
    ("end_to_end", "runs"): (64, 680),
    ("timed_state_machine", "count_probes_also_compared_with_old_ids"): (2, 6),
    ("end_to_end", "submit_storm_callers_aborted"): (2000, 20000),
    ("end_to_end", "frames_on_negative_stream_ids"): (100, 1000),
    ("end_to_end", "threshold_runs_connection_ended"): (1, 3),
    ("end_to_end", "threshold_runs_connection_kept"): (1, 3),
    ("end_to_end", "callers_failed_by_orphan_threshold"): (1, 10),
    ("end_to_end", "completed_with_own_answer"): (50000, 400000),
    ("end_to_end", "exhaustion_runs_reaching_32768"): (1, 8),
    ("end_to_end", "exhaustion_runs_with_refusal_after_abandon_and_wait"): (1, 8),
    ("end_to_end", "alloc_failures"): (2, 16),
    ("end_to_end", "dropped_never_written"): (50, 1000),
    ("end_to_end", "dropped_before_write"): (50, 1000),
    ("end_to_end", "dropped_after_write"): (50, 1000),
    ("end_to_end", "dropped_after_response"): (50, 1000),
    ("end_to_end", "oversized_frames_on_the_wire"): (1, 4),
    ("timed_state_machine", "allocations_refused_after_real_wait"): (4, 12),
    ("timed_state_machine", "count_probes"): (4, 12),
    ("frame_reader", "bodies_over_256MiB"): (1, 3),
    ("frame_reader", "frames_returned"): (300, 3000),
}
NOT_RUN_CAP = (2, 10)


def _tier():
    t = os.environ.get("VERIF_TIER", "quick")
    if "--tier" in sys.argv:
        t = sys.argv[sys.argv.index("--tier") + 1]
    return 1 if t == "thorough" else 0


def post(lines, verdicts):
    out = [("diff", "census " + b[:60], "diff census: " + b) for b in census()]
    if "--replay" in sys.argv:
        return out
    cov = _extra(lines, verdicts)
    ti = _tier()
    # A floor fed by one kind of scenario gives way (to 1) when scenarios of that kind could not run
    # (environment; capped below) -- but only while at least one scenario of that kind still ran: a
    # kind none of whose scenarios ran is "tie not exercised".
    by_kind = cov["end_to_end"]["not_run_by_kind"]
    ran = cov["end_to_end"]["ran_by_kind"]
    feeds = {"exhaustion_runs_reaching_32768": "X", "exhaustion_runs_with_refusal_after_abandon_and_wait": "X",
             "alloc_failures": "X", "threshold_runs_connection_ended": "K-end", "threshold_runs_connection_kept": "K-keep",
             "callers_failed_by_orphan_threshold": "K-end", "oversized_frames_on_the_wire": "G"}
    for sub in ("X", "K-end", "K-keep", "G"):
        if by_kind.get(sub, 0) > 0 and ran.get(sub, 0) == 0:
            out.append(("diff", f"coverage kind {sub}", f"diff e2e tie not exercised: none of the {by_kind[sub]} {sub} scenarios could run"))
    for (grp, key), fl in FLOORS.items():
        need = fl[ti]
        if grp == "end_to_end" and key in feeds and by_kind.get(feeds[key], 0) > 0:
            need = min(need, 1)
        if key == "runs":
            need -= cov["end_to_end"]["not_run_env"]
        if key == "completed_with_own_answer":
            need -= 32768 * by_kind.get("X", 0)
        if cov[grp][key] < need:
            out.append(("diff", f"coverage {grp}.{key}", f"diff coverage-floor: {grp}.{key} = {cov[grp][key]} < {need}: "
                        "the run did not exercise what the evidence claims"))
    nr = cov["end_to_end"]["not_run_env"]
    if nr > NOT_RUN_CAP[ti]:
        out.append(("diff", "coverage not_run_env", f"diff e2e tie not exercised: {nr} scenarios could not run (environment)"))
    return out


SPEC = {
    "pid": "C02",
    "coq_targets": ["Props/C02.vo", "Extract/ExC02.vo"],
    "bin": "c02",
    "sizes": {"quick": 40000, "thorough": 1200000},
    "min_cases": {"quick": 40350, "thorough": 1203700},
    "post": post,
    "search_n": 300000,
    "rule": ("state machine (hook H1): one case = one operation sequence on the real ResponseHandlerMap, every return value and the "
             "final state compared exactly with the extracted model: E = all sequences of length <= 4 (quick) / <= 6 (thorough) over "
             "{allocate rid 1|2, orphan rid 1|2|3, lookup id 0|1|2, probe}; Z = fill of all 32768 ids, over-allocation, orphans, "
             "scattered drain, re-allocation; B = prefilled to a word boundary then <= 60 random ops; Q = <= 60 random ops; "
             "T = timed: real sleeps between orphaning and allocation (all ids used, orphans older / younger than 1 s), "
             "old_orphans_count compared through the bracket of the clock readings (a final probe also with the number of ids orphaned for over 1 s, old_ids). End to end (mocknode, one pool connection of a "
             "real Session, unique marker per request echoed in the answer): P = phased run on a current-thread runtime with callers "
             "dropped before enqueue / before write / after write / after the response; R = random timeouts, select and abort on a "
             "multi-thread runtime, answers delayed and reordered; X = 32768 requests held by the mock, extra requests, callers "
             "abandoned, > 1 s wait, more requests, release; G = a response frame with a body > 256 MiB whose tail looks "
             "like frames for other in-flight streams; the merged history is judged by the extracted acceptor c02_trace_ok. "
             "S = submit storm: 1500-2000 caller tasks on 3 workers, up to 900 of them (about 7 in 12) aborted from outside within 3 ms while the submissions race "
             "for the 1024 channel slots (request id allocated -> slot awaited -> task pushed); N = R with about one answer in 12 sent on a negative stream id (-1, -2, -100, -32768, -32767); K = abandon in {1025, 1024, 1200, 1000, 1020} (thorough: {1025, 1024, 1100, 1000, 1026, 1023, 1500, 30}) callers abandoned "
             "while the mock holds their answers: the orphaner's tick must end the connection iff more than 1024 ids have been "
             "orphaned for over 1 s (model: orphaner_tick_breaks on the state 'all abandoned ids orphaned at clock 0', i.e. abandon > 1024), then every live caller fails and none holds rows. "
             "O = read_response_frame over generated byte streams (incl. a 256 MiB + 64 KiB body) against the extracted reader "
             "model / its law. non-trivial = allocation and lookup/orphan (sm), a request written and a caller completed (e2e); "
             "distinct = distinct case lines"),
    "nontrivial": _nontrivial,
    "extra_coverage": _extra,
    "trusted_base": [
        "hook scylla::client::verif_streams (VerifHandlerMap): wraps the crate-private ResponseHandlerMap; each token is a real "
        "ResponseHandler with a real oneshot sender, identified by which receiver gets a message sent through the returned handler",
        "the connection-level interleaving semantics (labels, atomicity = one try_lock critical section, FIFO channels, "
        "peer that answers only what it received, once) is a hand-written model of router/reader/writer/orphaner; it is tied to the "
        "code through the handler-map operations (sm tie) and through the acceptor c02_trace_ok, which accepts every history of the "
        "model that ends with all written frames received (C02_trace_sound, premise c_writing = []) and is run on histories of the real connection (e2e tie)",
        "mocknode (harness/src/mocknode) and harness/src/c02_e2e.rs: the mock's frame trace, the echo of the marker, the merge of "
        "caller-side stamps (submit stamped before the call, outcome after it) with the mock's events by one monotonic clock; an "
        "accepted skewed observation implies the property for the real history (C02_trace_skew); the skewed observation of "
        "a correct run passes every event check (C02_trace_skew_accepts); only the position-based final clause (UnableToAllocStreamId) "
        "under skew is argued in docs/C02.md, not proved",
        "old_orphans_count in timed cases is accepted within the bracket [count with latest orphaning / earliest reading, count with "
        "earliest orphaning / latest reading]: C02_count_bracket_run",
        "oversized reader cases (> 20 kB) are compared with the driver's native evaluation of the law C02_reader_frames on the stream "
        "description (cross-checked against the extracted read_frames on every small case); body equality through a sampled FNV digest",
        "u64::trailing_ones is modelled as the number of consecutive one bits from bit 0",
    ],
    "assumptions": [
        "well-behaved peer: answers each received stream id at most once and only ids it received (the unsolicited-id branch exists in the model as LMissing -> broken)",
        "request ids from the AtomicU64 generator do not wrap (2^64 requests on one connection)",
        "Tokio scheduling fairness and the keepaliver are outside the model (the e2e tie disables keepalives); the clock is an abstract label in the timed map",
    ],
}

def main(argv):
    return run_check(SPEC, argv)
