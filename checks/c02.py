from orchestrate.common import run_check

def _nontrivial(ln):
    # a sequence is non-trivial when at least one allocation and one lookup/orphan occur
    case = ln.split("|")[0]
    return (" a" in case or " F" in case) and (" l" in case or " o" in case or " D" in case)

def _extra(lines, verdicts):
    ops = 0
    full = 0
    for ln in lines:
        case, _, out = ln.partition("|")
        for t in out.split():
            if t.startswith("S"):
                ops += int(t.split(".")[1], 16)
            elif "=" not in t:
                ops += 1
        if " F8000." in case:
            full += 1
    return {"operations_compared": ops, "full_32768_id_fills": full,
            "end_to_end_half": "not part of this check yet (needs the mock node): see docs/C02.md"}

SPEC = {
    "pid": "C02",
    "coq_targets": ["Props/C02.vo", "Extract/ExC02.vo"],
    "bin": "c02",
    "sizes": {"quick": 40000, "thorough": 1200000},
    "search_n": 300000,
    "rule": ("one case = one operation sequence on the real ResponseHandlerMap (hook H1), every return value and the "
             "final state (into_handlers, bitmap words, request_to_stream, orphanage) compared exactly with the extracted "
             "model: E = all sequences of length <= 4 (quick) / <= 6 (thorough) over {allocate rid 1|2, orphan rid 1|2|3, "
             "lookup id 0|1|2, probe}; Z = fill of all 32768 ids, over-allocation, orphans, scattered drain, re-allocation; "
             "B = prefilled to a word boundary then <= 60 random ops aimed at the boundary; Q = <= 60 random ops "
             "(live / stale / duplicate / never-allocated request and stream ids); non-trivial = contains an allocation "
             "and a lookup or orphan; distinct = distinct case lines"),
    "nontrivial": _nontrivial,
    "extra_coverage": _extra,
    "trusted_base": [
        "hook scylla::client::verif_streams (VerifHandlerMap): wraps the crate-private ResponseHandlerMap; each token is a real "
        "ResponseHandler with a real oneshot sender, identified by which receiver gets a message sent through the returned handler",
        "the connection-level interleaving semantics (labels, atomicity = one try_lock critical section, FIFO channels, "
        "peer that answers only what it received, once) is a hand-written model of router/reader/writer/orphaner; it is "
        "tied to the code only through the handler-map operations it calls (sm tie); the end-to-end tie is not built yet",
        "u64::trailing_ones is modelled as the number of consecutive one bits from bit 0",
    ],
    "assumptions": [
        "well-behaved peer: answers each received stream id at most once and only ids it received (the unsolicited-id branch exists in the model as LMissing -> broken)",
        "request ids from the AtomicU64 generator do not wrap (2^64 requests on one connection)",
        "Tokio scheduling fairness, OrphanageTracker ages (old_orphans_count) and the keepaliver are outside the model",
    ],
}

def main(argv):
    return run_check(SPEC, argv)
