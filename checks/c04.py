from orchestrate.common import run_check

def _dup(ln):
    # a ring entry list with a repeated token (field 3 of the case)
    f = ln.split(" ")
    if len(f) < 3 or f[2] == "-":
        return False
    toks = [e.rsplit(".", 1)[0] for e in f[2].split(",")]
    return len(set(toks)) != len(toks)

def _racks(nodes, ring):
    """distinct racks ('no rack' counts) per datacenter among token-owning nodes"""
    owners = {e.rsplit(".", 1)[1] for e in ring.split(",")} if ring != "-" else set()
    racks = {}
    for n in nodes.split(","):
        i, d, r = n.split(".")[:3]
        if d != "_" and i in owners:
            racks.setdefault(d, set()).add(r)
    return {d: len(v) for d, v in racks.items()}

def _paths(lines):
    """how the NTS per-datacenter lookups of the queries are served (from the case text)"""
    c = {"nts_true_prefix": 0, "nts_between_rack_count_and_stored_rf": 0, "rackless_and_racked_in_one_dc": 0}
    cache = {}
    for ln in lines:
        f = ln.split(" ")
        if f[0] != "Q" or len(f) < 7 or f[4][0] != "N":
            continue
        key = (f[1], f[2])
        if key not in cache:
            racks = _racks(f[1], f[2])
            mixed = False
            per = {}
            for n in f[1].split(","):
                _, d, r = n.split(".")[:3]
                per.setdefault(d, set()).add(r == "_")
            mixed = any(len(v) == 2 for d, v in per.items() if d != "_")
            cache[key] = (racks, mixed)
        racks, mixed = cache[key]
        c["rackless_and_racked_in_one_dc"] += mixed
        stored = {}
        for st in f[3].split(";"):
            if st.startswith("N"):
                for e in st[1:].split("+"):
                    if e:
                        d, rf = e.split("="); stored.setdefault(d, set()).add(int(rf, 16))
        for e in f[4][1:].split("+"):
            if not e:
                continue
            d, rf = e.split("="); rf = int(rf, 16); rc = racks.get(d, 0)
            if rf == 0 or rc == 0 or (f[5] != "_" and f[5] != d):
                continue
            sto = stored.get(d, set())
            comp = max([x for x in sto if x <= rc], default=None)
            if comp is not None and rf < comp and rf not in sto:
                c["nts_true_prefix"] += 1
            if rf > rc and rf not in sto and any(x > rf for x in sto):
                c["nts_between_rack_count_and_stored_rf"] += 1
    return c

def _kinds(lines):
    """tablet-backed cases (non-empty ones) and Q cases that observed a non-zero shard"""
    t = tne = tre = shard = chained = dupq = 0
    for ln in lines:
        if ln.startswith("T "):
            t += 1
            ne = ln.split("|")[1].split()[0] != "0"
            tne += ne
            tre += ne and ln.split("|")[0].split()[4] != "_"
        elif ln.startswith("Q "):
            o = ln.split("|")[1].split()
            shard += len(o) > 9 and any(x not in ("0", "-") for x in o[9].split(","))
            f = ln.split("|")[0].split()
            chained += f[4].startswith("N") and f[5] == "_"
            dupq += _dup(ln)
    return {"tablet_set_cases": t, "tablet_set_cases_nonempty": tne, "tablet_set_cases_nonempty_dc_restricted": tre,
            "token_ring_cases_with_a_nonzero_shard": shard, "unrestricted_nts_cases": chained,
            "cases_on_rings_with_a_repeated_token": dupq}

def _post(lines, verdicts):
    out = []
    if len(lines) >= 20000:
        k = _kinds(lines)
        for key, floor in (("tablet_set_cases", min(len(lines) // 20, 20000)), ("tablet_set_cases_nonempty", min(len(lines) // 100, 5000)),
                           ("tablet_set_cases_nonempty_dc_restricted", min(len(lines) // 300, 1500)),
                           ("token_ring_cases_with_a_nonzero_shard", len(lines) // 10),
                           # thorough tier (about 1.5e6 lines) generates every datacenter restriction: the unrestricted share is 12.3 %, not 24 %
                           ("unrestricted_nts_cases", len(lines) // (12 if len(lines) >= 1000000 else 10)), ("cases_on_rings_with_a_repeated_token", len(lines) // 100)):
            if k[key] < floor:
                out.append(("diff", lines[0], f"diff generator floor: {key}={k[key]} < {floor}"))
    member_only = sum(1 for ln in lines if " M:" in ln.split("|", 1)[-1])
    if member_only > max(5, len(lines) // 1000):
        out.append(("diff", lines[0], f"diff choose index not scripted on {member_only} lines (rand calibration failed): choose checked by membership only"))
    if len(lines) >= 20000:
        c = _paths(lines)
        for k, floor in (("nts_true_prefix", len(lines) // 50), ("nts_between_rack_count_and_stored_rf", len(lines) // 200),
                         ("rackless_and_racked_in_one_dc", len(lines) // 100)):
            if c[k] < floor:
                out.append(("diff", lines[0], f"diff generator floor: {k}={c[k]} < {floor}"))
    return out

def _extra(lines, verdicts):
    strat = {"S": 0, "N": 0, "L": 0, "O": 0}
    restricted = 0
    dup = 0
    rings = set()
    for ln in lines:
        f = ln.split(" ")
        if f[0] == "Q" and len(f) > 6:
            strat[f[4][0]] = strat.get(f[4][0], 0) + 1
            restricted += f[5] != "_"
            rings.add((f[1], f[2], f[3]))
            dup += _dup(ln)
    paths = _paths(lines)
    member_only = sum(1 for ln in lines if " M:" in ln.split("|", 1)[-1])
    return {**_kinds(lines), "nts_lookup_paths": paths, "choose_membership_only_lines": member_only,
            "choose_exact_index_lines": len(lines) - member_only,
            "query_strategy_kinds": strat, "datacenter_restricted_queries": restricted,
            "distinct_ring_and_precomputation_sets": len(rings), "queries_on_rings_with_a_repeated_token": dup}

SPEC = {
    "pid": "C04",
    "coq_targets": ["Props/C04.vo", "Extract/ExC04.vo"],
    "bin": "c04",
    "sizes": {"quick": 150000, "thorough": 1500000},
    "min_cases": {"quick": 140000, "thorough": 1400000},
    "post": _post,
    "search_n": 400000,
    "rule": ("seeded topologies: 1..12 nodes x 1..3 datacenters x 1..4 racks (datacenter-less and rack-less nodes, "
             "nodes without tokens, 1..8 vnodes; in 1 ring in 6 a token may be shared by nodes of different datacenters - about 1 ring in 12 really has one), "
             "0..4 registered (precomputed) keyspace strategies with RF 0..nodes+2 incl. datacenters absent from the ring "
             "and ring datacenters absent from the strategy; queries = registered strategies, RF variations of them and fresh "
             "ones x {unrestricted, every ring datacenter, absent datacenters} x every ring token, token-1, token+1 and the "
             "extremes (quick tier: 10 token points per ring sampled and datacenter-restricted queries sampled 1 in 3; thorough: 120 points, all restrictions). Kind Q: one line = one "
             "(ring, precomputed set, strategy, restriction, token) with len, into_iter, nth(0..len+1), choose for every "
             "scripted index, choose_filtered, into_replicas_ordered, get_token_endpoints, three interleavings of next()/nth(n) with size_hint() before and after every operation, the shards yielded (nodes with and without sharder) and the answer of a ClusterState "
             "built without keyspaces. Kind T (per topology): 1..4 tablets learnt through the real update_tablets (overlapping ones, unknown hosts), queries x {unrestricted, ring datacenters, absent datacenter} x tokens inside / at the borders of / between tablets: len, into_iter, nth, choose, ordered view and one next/nth interleaving with size_hint, all with the tablets' shards. non-trivial = ring not empty; distinct = distinct case lines"),
    "nontrivial": lambda ln: len(ln.split(" ")) > 6 and ln.split(" ")[2] != "-",
    "trusted_base": [
        "spec_simple / spec_nts_dc / spec_nts are the placement rules transcribed from the property text (SimpleStrategy: first RF distinct nodes clockwise; NTS: per datacenter, rack new or repeats allowed, until min(RF, nodes))",
        "hook scylla::cluster::verif_state::cluster_state_via_new (the real ClusterState::new on a Metadata value with a reject-all host filter: pool-less nodes) and scylla::routing::verif_locator::choose_filtered (scripted rand draws; lines whose index could not be scripted are counted and capped)",
        "hooks verif_node_flags::set_node_sharder (per-host Node::sharder override) and verif_state::learn_tablet_from_payload (the real RawTablet::from_custom_payload + ClusterState::update_tablets)",
        "the property predicates evaluated on the implementation's own output (placement_ok, ordered_ok, views_ok, precomputed_ok) are extracted Coq: meaning theorems (<->) and model theorems for all four (for views_ok the choose_filtered conjunct is a premise of C04_views_ok_model and the endpoints argument is the iteration itself); the kind-T consistency test (len, nth, ordered view as a multiset, number and membership of choose results, the interleaving through extracted plist_run - all against the implementation's own into_iter) and the enumeration of token-order variants on rings with a repeated token (at most 720 orders; above that a placement / ring-order failure is reported as diff) are OCaml code of the driver; the extracted helpers they use are characterised by C04_tokens_distinct_sound / C04_helpers_sound and the order-independent judgement above the cap rests on C04_count_order_independent / C04_replicas_own_tokens",
        "shard_of is C11's model function (C11_shard_spec / C11_shard_lt are not re-imported); a shard or size_hint mismatch alone is a diff",
    ],
    "assumptions": [
        "the only hypothesis on the ring is sorted_weak (what TokenRing::new produces, C04_ring); tokens may repeat: the walk starts at the first member with token >= t and members sharing a token keep insertion order",
        "NTS strategy maps have one entry per datacenter (HashMap)",
        "random index of ReplicaSet::choose is an oracle: C04_views_choose holds for every index",
        "the tablet map behind a tablet-backed replica set is C15's model (Model/Tablets.v); C04 covers the views of the set",
    ],
    "extra_coverage": _extra,
}

def main(argv):
    return run_check(SPEC, argv)
