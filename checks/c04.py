from orchestrate.common import run_check

def _dup(ln):
    # a ring entry list with a repeated token (field 3 of the case)
    f = ln.split(" ")
    if len(f) < 3 or f[2] == "-":
        return False
    toks = [e.rsplit(".", 1)[0] for e in f[2].split(",")]
    return len(set(toks)) != len(toks)

def _extra(lines, verdicts):
    strat = {"S": 0, "N": 0, "L": 0, "O": 0}
    restricted = 0
    dup = 0
    rings = set()
    for ln in lines:
        f = ln.split(" ")
        if len(f) > 6:
            strat[f[4][0]] = strat.get(f[4][0], 0) + 1
            restricted += f[5] != "_"
            rings.add((f[1], f[2], f[3]))
            dup += _dup(ln)
    return {"query_strategy_kinds": strat, "datacenter_restricted_queries": restricted,
            "distinct_ring_and_precomputation_sets": len(rings), "queries_on_rings_with_a_repeated_token": dup}

SPEC = {
    "pid": "C04",
    "coq_targets": ["Props/C04.vo", "Extract/ExC04.vo"],
    "bin": "c04",
    "sizes": {"quick": 150000, "thorough": 6000000},
    "search_n": 400000,
    "rule": ("seeded topologies: 1..12 nodes x 1..3 datacenters x 1..4 racks (datacenter-less and rack-less nodes, "
             "nodes without tokens, 1..8 vnodes, 1 ring in 6 with a token shared by nodes of different datacenters), "
             "0..4 registered (precomputed) keyspace strategies with RF 0..nodes+2 incl. datacenters absent from the ring "
             "and ring datacenters absent from the strategy; queries = registered strategies, RF variations of them and fresh "
             "ones x {unrestricted, every ring datacenter, absent datacenters} x every ring token, token-1, token+1 and the "
             "extremes (quick tier: 10 token points per ring sampled, thorough: 120, restricted queries sampled 1 in 3). One line = one "
             "(ring, precomputed set, strategy, restriction, token) with len, into_iter, nth(0..len+1), choose for every "
             "scripted index, choose_filtered, into_replicas_ordered, get_token_endpoints and the answer of a ClusterState "
             "built without keyspaces. non-trivial = ring not empty; distinct = distinct case lines"),
    "nontrivial": lambda ln: " - " not in ln.split("|")[0][:40] and len(ln.split(" ")) > 6 and ln.split(" ")[2] != "-",
    "trusted_base": [
        "spec_simple / spec_nts_dc / spec_nts are the placement rules transcribed from the property text (SimpleStrategy: first RF distinct nodes clockwise; NTS: per datacenter, rack new or repeats allowed, until min(RF, nodes))",
        "hook scylla::cluster::verif_state::cluster_state (ClusterState::new's steps with pool-less Node objects) and scylla::routing::verif_locator::choose_filtered (scripted rand draws)",
    ],
    "assumptions": [
        "the only hypothesis on the ring is sorted_weak (what TokenRing::new produces, C04_ring); tokens may repeat: the walk starts at the first member with token >= t and members sharing a token keep insertion order",
        "NTS strategy maps have one entry per datacenter (HashMap)",
        "random index of ReplicaSet::choose is an oracle: C04_views_choose holds for every index",
        "tablets-based tables are outside C04 (C15)",
    ],
    "extra_coverage": _extra,
}

def main(argv):
    return run_check(SPEC, argv)
