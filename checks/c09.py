import os

from orchestrate.common import REPO, run_check

def _nontrivial(ln):
    # everything except OPTIONS (empty body) and scenarios that could not run is a non-trivial encoding
    return not ln.startswith("O ") and "| skip-env" not in ln and "| skipped" not in ln

def _kind(lines, k):
    return [ln for ln in lines if ln.startswith(k + " ")]

def _case(ln):
    return ln.split("|", 1)[0]

def _scan_flags(path):
    """const FLAG_<NAME>: u8 = 0x..; lines of a request source file -> {NAME: value}"""
    import re
    try:
        src = open(path).read()
    except OSError:
        return None
    return {m.group(1): int(m.group(2), 16) for m in re.finditer(r"const FLAG_(\w+):\s*u8\s*=\s*0x([0-9a-fA-F]+);", src)}

def _census(lines, verdicts):
    """the model's private flag tables (printed by the driver in the C verdict) against the source"""
    import re
    out = []
    cv = [v for ln, v in zip(lines, verdicts) if ln.startswith("C ") and v and v.startswith("ok ")]
    if not cv:
        return [("diff", "C", "diff census case missing or not ok")]
    tables = dict(re.findall(r"(\w+)=(\S+)", cv[0][3:]))
    model = {k: {n: int(x, 16) for n, x in (e.split(":") for e in tables.get(k, "").split(",") if e)} for k in ("qflags", "bflags")}
    for key, path in (("qflags", os.path.join(REPO, "scylla-cql/src/frame/request/query.rs")), ("bflags", os.path.join(REPO, "scylla-cql/src/frame/request/batch.rs"))):
        src = _scan_flags(path)
        if src is None or not src:
            out.append(("diff", "C", "diff census: cannot scan FLAG_ constants in " + path))
        elif src != model[key]:
            out.append(("diff", "C", "diff census: %s FLAG_ constants %r differ from the model's table %r" % (path, src, model[key])))
    try:
        src = open(os.path.join(REPO, "scylla-cql/src/frame/request/mod.rs")).read()
        m = re.search(r"pub enum RequestOpcode \{(.*?)\}", src, re.S)
        variants = re.findall(r"(\w+)\s*=\s*0x([0-9A-Fa-f]+)", m.group(1)) if m else []
        want = [("Startup", 1), ("Options", 5), ("Query", 7), ("Prepare", 9), ("Execute", 10), ("Register", 11), ("Batch", 13), ("AuthResponse", 15)]
        if [(n, int(x, 16)) for n, x in variants] != want:
            out.append(("diff", "C", "diff census: RequestOpcode variants %r differ from the model's 8 request kinds" % (variants,)))
    except OSError:
        out.append(("diff", "C", "diff census: cannot read request/mod.rs"))
    return out

def post(lines, verdicts):
    out = _census(lines, verdicts)
    # scenarios that did not run: counted, capped (never silently ok)
    n = _kind(lines, "N")
    sk = [ln for ln in n if "| skip-env" in ln]
    if len(sk) > max(2, len(n) // 20):
        out.append(("diff", sk[0][:300], "diff e2e tie not exercised: %d of %d N scenarios could not run (%s)"
                    % (len(sk), len(n), sk[0].split("|", 1)[1].strip()[:100])))
    for ln in _kind(lines, "L"):
        if "| skipped" in ln:
            print("WARNING: C09 case `%s` was SKIPPED (not enough free memory): the real 4 GiB body is not tied in "
                  "this run; the 2^32 boundary is still tied by the M cases" % _case(ln).strip())
    # per-kind floors: what the evidence claims must really have been exercised
    # G / M cases the runner did not run (the host refused the multi-GiB mapping, or too little free memory for an
    # accepted 2 GiB size): surfaced, counted; a floor gives way by exactly the number of skipped lines of its kind,
    # a wanted observation only when EVERY case that could produce it was skipped -- never to zero while others ran
    skipped = {"G": [], "M": []}
    for k in ("G", "M"):
        for ln in _kind(lines, k):
            if "| skipped" in ln:
                skipped[k].append(_case(ln).strip())
                print("WARNING: C09 case `%s` was SKIPPED by the runner (host memory configuration)" % _case(ln).strip())
    # driver lines that overflowed a hard stack limit were NOT judged.  They are the 65 534..65 537 boundary cases
    # (count truncation would show exactly there), so this floor does not give way: the check fails, with the reason.
    stack = [ln for ln, v in zip(lines, verdicts) if v and v.startswith("ok not-run-stack-limit")]
    if stack:
        print("WARNING: C09: %d boundary cases were NOT judged: the host's hard stack limit is too small for the driver "
              "(e.g. `%s`)" % (len(stack), _case(stack[0])[:80].strip()))
        out.append(("diff", "stack", "diff boundary cases not judged (stack limit): %d cases, e.g. `%s` -- raise the hard "
                    "RLIMIT_STACK (the driver needs `ulimit -s unlimited` or >= 4 GB)" % (len(stack), _case(stack[0])[:60].strip())))
    floors = {"Q": 7000, "E": 6000, "B": 6000, "P": 900, "S": 900, "R": 900, "A": 700, "O": 100, "M": 18, "N": 30,
              "V": 4000, "G": 25, "C": 1}
    for k, fl in floors.items():
        fl -= len(skipped.get(k, []))
        have = [ln for ln in _kind(lines, k) if "| skip-env" not in ln and "| skipped" not in ln]
        if len(have) < fl:
            out.append(("diff", k, "diff tie not exercised: %d cases of kind %s, floor %d" % (len(have), k, fl)))
    b = _kind(lines, "B")
    modes = {"c": 0, "v": 0, "a": 0}
    for ln in b:
        f = ln.split(" ", 4)
        if len(f) > 3 and f[3] in modes:
            modes[f[3]] += 1
    for m, fl in (("c", 1500), ("v", 1500), ("a", 1500)):
        if modes[m] < fl:
            out.append(("diff", "B", "diff tie not exercised: %d BATCH cases in mode %s, floor %d" % (modes[m], m, fl)))
    # surplus / missing value lists through the driver's own RawBatchValuesAdapter must have been refused
    adapter_mism = [ln for ln in b if ln.split(" ", 4)[3:4] == ["a"] and "| err batch-mismatch" in ln]
    surplus = [ln for ln in adapter_mism if int(ln.rsplit(" ", 2)[1], 16) > int(ln.rsplit(" ", 2)[2], 16)]
    if len(surplus) < 20 or len(adapter_mism) - len(surplus) < 20:
        out.append(("diff", "B", "diff tie not exercised: adapter-mode batches refused for surplus/missing value lists: %d/%d, floor 20 each"
                    % (len(surplus), len(adapter_mism) - len(surplus))))
    # wanted M observations, each with the cases that can produce it
    m_ran = [_case(ln).split() for ln in _kind(lines, "M") if "| skipped" not in ln]
    big = lambda f: int(f[3], 16) >= 1 << 32
    wants = (("err body-too-long", lambda f: f[1] in ("n", "l") and big(f)),
             ("len ffffffff ffffffff", lambda f: f[1] == "n" and f[3] == "ffffffff"),
             ("err snap", lambda f: f[1] == "s" and big(f)))
    for want, can in wants:
        if any(can(f) for f in m_ran) and not [ln for ln in _kind(lines, "M") if "| " + want in ln]:
            out.append(("diff", "M", "diff tie not exercised: no M case observed `%s`" % want))
    # typed rows: every row kind, and every refusal class, must have been exercised
    v = _kind(lines, "V")
    for rk in ("u", "z", "t", "s", "v", "b", "r", "mbs", "mbr", "mhs", "mhr"):
        if sum(1 for ln in v if ln.split(" ", 2)[1] == rk) < 40:
            out.append(("diff", "V", "diff tie not exercised: fewer than 40 typed rows of kind " + rk))
    for cls in ("wrong-column-count", "value-missing", "no-column", "column-failed", "too-many-values"):
        if sum(1 for ln in v if "| err row " + cls in ln) < 4:
            out.append(("diff", "V", "diff tie not exercised: fewer than 4 typed rows refused with " + cls))
    if sum(1 for ln in v if "| ok " in ln) < 1500:
        out.append(("diff", "V", "diff tie not exercised: fewer than 1500 typed rows bound and framed"))
    g = _kind(lines, "G")
    for w in ("p", "q", "a", "c", "b"):
        need = 2 - sum(1 for c in skipped["G"] if c.startswith("G %s 8000000" % w))
        if sum(1 for ln in g if ln.startswith("G %s 8000000" % w) and "| err " in ln) < need:
            out.append(("diff", "G", "diff tie not exercised: 2^31 refusals of component kind " + w))
    comp = {"n": 0, "l": 0, "s": 0}
    for ln in lines:
        f = ln.split(" ", 3)
        if len(f) > 1 and f[1] in comp and f[0] in "QEBPSRAO":
            comp[f[1]] += 1
    for c, fl in (("n", 15000), ("l", 5000), ("s", 5000)):
        if comp[c] < fl:
            out.append(("diff", c, "diff tie not exercised: %d cases with compression %s, floor %d" % (comp[c], c, fl)))
    # multi-byte UTF-8 statement texts / option values (the spec parser checks [string] / [long string] validity)
    # (only Q / P / S / B lines: there the pattern is a statement text or a STARTUP string, i.e. on the wire as a
    #  [long string] / [string]; the parser runs on the 1-in-8 sample of the agreeing frames, so >= 4000 such cases
    #  give >= ~500 validated texts)
    if sum(1 for ln in lines if ln[:2] in ("Q ", "P ", "S ", "B ")
           and ("c5bcc3b3c582" in _case(ln) or "e697a5e69cac" in _case(ln))) < 2500:
        out.append(("diff", "utf8", "diff tie not exercised: fewer than 2500 Q/P/S/B cases with multi-byte UTF-8 strings"))
    refused = sum(1 for ln in lines if "| err " in ln)
    if refused < 1000:
        out.append(("diff", "err", "diff tie not exercised: only %d refusals observed, floor 1000" % refused))
    # e2e: every opcode and both extension settings must have been seen
    ok_n = [ln for ln in n if "| e2e " in ln]
    for tag in ("Q/", "E/2/", "B/c/"):
        if sum(ln.count(" " + tag) for ln in ok_n) < 30:
            out.append(("diff", "N", "diff tie not exercised: fewer than 30 session-level %s frames" % tag))
    for tag, fl in (("O:", 30), ("S/", 30), ("R/2/", 30)):
        if sum(ln.count(" " + tag) for ln in ok_n) < fl:
            out.append(("diff", "N", "diff tie not exercised: fewer than %d connection-setup %s frames" % (fl, tag)))
    for ext in ("0", "1"):
        if not [ln for ln in ok_n if "| e2e " + ext + " " in ln]:
            out.append(("diff", "N", "diff tie not exercised: no e2e scenario with metadata-id extension = " + ext))
    return out

def _extra(lines, verdicts):
    comp = {"n": 0, "l": 0, "s": 0}
    refused = 0
    big = 0
    for ln in lines:
        f = ln.split(" ", 3)
        # only the kinds whose second field is the compression setting (not `V s` rows, not M)
        if len(f) > 1 and f[1] in comp and f[0] in "QEBPSRAO":
            comp[f[1]] += 1
        if "| err " in ln:
            refused += 1
        if len(ln) > 100000:
            big += 1
    n = _kind(lines, "N")
    b = _kind(lines, "B")
    return {"compression_histogram": {"none": comp["n"], "lz4": comp["l"], "snappy": comp["s"]},
            "refused_by_implementation": refused, "cases_over_100k_chars": big,
            "batch_modes": {m: sum(1 for ln in b if ln.split(" ", 4)[3:4] == [m]) for m in ("c", "v", "a")},
            "e2e_scenarios": len(n), "e2e_scenarios_not_run_env": sum(1 for ln in n if "| skip-env" in ln),
            "e2e_session_frames_checked": sum(ln.count(" Q/") + ln.count(" E/2/") + ln.count(" B/c/") for ln in n if "| e2e " in ln),
            "typed_rows": len(_kind(lines, "V")),
            "typed_rows_refused": sum(1 for ln in _kind(lines, "V") if "| err row" in ln),
            "cases_not_judged_stack_limit": sum(1 for v in verdicts if v and v.startswith("ok not-run-stack-limit")),
            "M_cases_skipped_allocation_refused": sum(1 for ln in _kind(lines, "M") if "| skipped" in ln),
            "G_cases_skipped_for_memory": sum(1 for ln in _kind(lines, "G") if "| skipped" in ln),
            "G_cases_run": sum(1 for ln in _kind(lines, "G") if "| skipped" not in ln),
            "e2e_setup_frames_checked": sum(ln.count(" O:") + ln.count(" S/") + ln.count(" R/2/") for ln in n if "| e2e " in ln),
            "L_cases_skipped_for_memory": sum(1 for ln in _kind(lines, "L") if "| skipped" in ln),
            "L_cases_run": sum(1 for ln in _kind(lines, "L") if "| skipped" not in ln),
            "set_stream_calls_checked": sum(1 for ln in lines if "| ok " in ln)}

SPEC = {
    "pid": "C09",
    "coq_targets": ["Props/C09.vo", "Extract/ExC09.vo"],
    "bin": "c09",
    "sizes": {"quick": 40000, "thorough": 300000},
    "search_n": 100000,
    "rule": ("fixed boundary stream (counts and lengths 65534..65537 for values, statements, ids, metadata ids, "
             "strings, map entries, event types; statement/token lengths 0,1,65535,65536,65537; batch count "
             "mismatches; x {none,LZ4,Snappy}) + all 64 subsets of the optional QUERY/EXECUTE parts x 6 (quick) / "
             "40 (thorough) x {QUERY, EXECUTE} + seeded random requests: Q=QUERY, E=EXECUTE (v1 struct / ExecuteV2 "
             "with and without result metadata id), B=BATCH (prepared/unprepared mix, value lists through a "
             "RawBatchValues impl or Vec<SerializedValues>, 10% count mismatches), P=PREPARE, S=STARTUP, R=REGISTER, "
             "O=OPTIONS, A=AUTH_RESPONSE; cells null/unset/empty/marker-looking; compression none 60% / lz4 20% / "
             "snappy 20%; tracing 1/3.  Comparison: byte equality of SerializedRequest::make(..).get_data() with the "
             "extracted encode_request (for compressed frames with the real compressor's output as codec oracle, and "
             "real decompress(real body) == model's uncompressed body); refusals: same error class.  "
             "every ok case also calls set_stream(s) and compares the frame after; batch mode a = RawBatchValuesAdapter "
             "(BatchValues + one context per statement, as the driver); M = make() of a body of untouched zero bytes at "
             "the 2^32 boundary (sizes only); N = e2e: real Session against mocknode, 10 session-level calls per scenario, "
             "captured frames parsed by the extracted independent parser, incl. the OPTIONS/STARTUP/REGISTER frames of "
             "connection setup; L (thorough) = real 4 GiB batch body; V = typed rows through the built-in SerializeRow "
             "impls (11 row kinds, 5 value carriers, 3 column types) + from_serializable, then an EXECUTE frame; "
             "G = one component of untouched zero bytes at the 2^31 boundary; C = census of protocol constants.  "
             "non-trivial = every case except OPTIONS and not-run scenarios; distinct = distinct case lines"),
    "nontrivial": _nontrivial,
    "extra_coverage": _extra,
    "post": post,
    "min_cases": {"quick": 39000, "thorough": 290000},
    "trusted_base": [
        "Model/Request.v PART 2 (parse_frame / p_request) is the specification: transcribed by hand from the CQL binary protocol v4 document sections 2, 3, 4.1.1-4.1.8, 5 and ScyllaDB's result-metadata-id extension of EXECUTE",
        "strings are their UTF-8 bytes; well-formedness (Cql.utf8_valid of Model/Cql.v; proved equal to Unicode table 3-7 and to 'encoding of a sequence of Unicode scalar values' per RFC 3629: C09_utf8_valid_iff_wf, C09_utf8_wf_iff_scalars) is a premise of the round-trip theorems (req_wf, a Rust type invariant) and is checked by the specification parser on [string] / [long string] (C09_parser_texts_rfc)",
        "Model/Cql.v (C01's model) is imported for utf8_valid and for the value codec of the bridge theorems C09_values_are_C01 / C09_mini_ser_is_C01",
        "no hook: the runner uses only public items of scylla-cql / scylla (request structs, SerializedRequest::make / set_stream, decompress, SerializedValues::from_closure / from_serializable, RawBatchValues, RawBatchValuesAdapter, the built-in SerializeRow impls, SessionBuilder / Session)",
        "vh::mocknode captures the frames of the e2e kind (its own frame reader); harness/src/c09_e2e.rs states what a Session call is expected to ask for",
    ],
    "assumptions": [
        "codec_ok cd (LZ4/Snappy: decompress (compress b) = b) is an explicit premise of C09_compressed; the tie validates it on every compressed case by running the real decompress on the real compressed body",
        "req_wf r (timestamp within i64, page size within i32, statement texts and STARTUP strings well-formed UTF-8: Rust type invariants) and mid_matches mid r (the parser is told whether the result-metadata-id extension is in use) are premises of C09_parse_encode / C09_compressed",
        "bodies of 2^32 bytes or more are refused (BodyTooLong, /repo a9f519c): proved (C09_oversize, C09_body_too_long, C09_payload_too_long, C09_make_sizes, C09_lz4_sizes) and tied in every tier by the M cases (make() of a body of calloc'ed zero bytes that are never read or written, at 2^32-1 / 2^32 / 2^32+5, plain / LZ4 / Snappy, sizes only; reported as not-run, with a WARNING, when the host refuses the mapping); the thorough tier adds a real 4 GiB batch body (L 4 40000000, reported as not-run with a WARNING when memory is short)",
        "the 2^31 boundaries of statement texts, the auth token and value cells are proved (C09_int_boundary) and tied by the G cases (2^31 and 2^31+1 in every tier, on calloc'ed zero bytes that are never read or written -- the texts are made with from_utf8_unchecked; 2^31-1 accepted, one 2 GiB copy each, in the thorough tier); the paging-state 2^31 boundary is proved on the model only",
        "typed rows: the value codec is a parameter of the row theorems; the tie instantiates it with i32 / String / Vec<u8> / Option::None / Unset at int / text / blob columns",
        "STARTUP: the HashMap iteration order is an oracle; the runner reports the order the real map iterated in and the model is run with that order (theorems hold for every order); in the e2e kind STARTUP maps and REGISTER lists are compared as sets",
        "e2e (kind N): no Session model; the extracted independent parser applied to the captured frames is compared with what the harness asked for according to the documented Session semantics (harness/src/c09_e2e.rs header)",
    ],
}

def main(argv):
    return run_check(SPEC, argv)
