from orchestrate.common import run_check

def _nontrivial(ln):
    # everything except OPTIONS (empty body) is a non-trivial encoding
    return not ln.startswith("O ")

def _extra(lines, verdicts):
    comp = {"n": 0, "l": 0, "s": 0}
    refused = 0
    big = 0
    for ln in lines:
        f = ln.split(" ", 3)
        if len(f) > 1 and f[1] in comp:
            comp[f[1]] += 1
        if "| err " in ln:
            refused += 1
        if len(ln) > 100000:
            big += 1
    return {"compression_histogram": {"none": comp["n"], "lz4": comp["l"], "snappy": comp["s"]},
            "refused_by_implementation": refused, "cases_over_100k_chars": big}

SPEC = {
    "pid": "C09",
    "coq_targets": ["Props/C09.vo", "Extract/ExC09.vo"],
    "bin": "c09",
    "sizes": {"quick": 40000, "thorough": 300000},
    "search_n": 100000,
    "rule": ("fixed boundary stream (counts and lengths 65534..65537 for values, statements, ids, metadata ids, "
             "strings, map entries, event types; statement/token lengths 0,1,65535,65536,65537; batch count "
             "mismatches; x {none,LZ4,Snappy}) + all 64 subsets of the optional QUERY/EXECUTE parts x 6 (quick) / "
             "40 (thorough) x {QUERY, EXECUTE} + seeded random requests: Q=QUERY, E=EXECUTE (v1 struct / ExecuteV2 "
             "with and without result metadata id), B=BATCH (prepared/unprepared mix, value lists through a "
             "RawBatchValues impl or Vec<SerializedValues>, 10% count mismatches), P=PREPARE, S=STARTUP, R=REGISTER, "
             "O=OPTIONS, A=AUTH_RESPONSE; cells null/unset/empty/marker-looking; compression none 60% / lz4 20% / "
             "snappy 20%; tracing 1/3.  Comparison: byte equality of SerializedRequest::make(..).get_data() with the "
             "extracted encode_request (for compressed frames with the real compressor's output as codec oracle, and "
             "real decompress(real body) == model's uncompressed body); refusals: same error class.  "
             "non-trivial = every case except OPTIONS; distinct = distinct case lines"),
    "nontrivial": _nontrivial,
    "extra_coverage": _extra,
    "trusted_base": [
        "Model/Request.v PART 2 (parse_frame / p_request) is the specification: transcribed by hand from the CQL binary protocol v4 document sections 2, 3, 4.1.1-4.1.8, 5 and ScyllaDB's result-metadata-id extension of EXECUTE",
        "strings are modelled as their UTF-8 bytes (validity is a Rust type invariant, not modelled)",
        "no hook: the runner uses only public items of scylla-cql (request structs, SerializedRequest::make, decompress, SerializedValues::from_closure, RawBatchValues)",
    ],
    "assumptions": [
        "codec_ok cd (LZ4/Snappy: decompress (compress b) = b) is an explicit premise of C09_compressed; the tie validates it on every compressed case by running the real decompress on the real compressed body",
        "bodies of 2^32 bytes or more are refused (BodyTooLong, /repo a9f519c): modelled and proved (C09_oversize, C09_body_too_long, C09_uniform_batch); tied by the single case `L 4 40000000` (sizes only, ~5 GiB RAM for ~3 s, reported as skipped when MemAvailable is short) — reverting the fix turns that case into a viol",
        "the 2^31 boundaries ([long string], [bytes], value cells) are proved on the model and tied only at the 2^16 ones",
        "STARTUP: the HashMap iteration order is an oracle; the runner reports the order the real map iterated in and the model is run with that order (theorems hold for every order)",
    ],
}

def main(argv):
    return run_check(SPEC, argv)
