import re

from orchestrate.common import run_check


def _kind(lines, k):
    return [ln for ln in lines if ln.startswith(k + " ")]


def _metric(verdicts, lines, kind, name):
    tot = 0
    for ln, v in zip(lines, verdicts):
        if ln.startswith(kind + " ") and v:
            m = re.search(r"\b%s=(\d+)" % name, v)
            if m:
                tot += int(m.group(1))
    return tot


def post(lines, verdicts):
    out = []
    e = _kind(lines, "E")
    sk = [ln for ln in e if "| skip-env" in ln]
    if len(sk) > max(3, len(e) // 50):
        out.append(("diff", sk[0], "diff e2e tie not exercised: %d of %d E scenarios could not run (%s)"
                    % (len(sk), len(e), sk[0].split("|", 1)[1].strip()[:80])))
    # the runner emits a FIXED 33 T, 5 B, 9 C, 12 E, 30 S cases for every seed (quick); E tolerates 3 skip-env;
    # S has its own per-shape floors below
    floors = {"T": 25, "B": 4, "C": 8, "E": 8}
    for k, n in floors.items():
        have = [ln for ln in _kind(lines, k) if "| skip-env" not in ln]
        if len(have) < n:
            out.append(("diff", k, "diff tie not exercised: %d cases of kind %s, floor %d" % (len(have), k, n)))
    # what the evidence claims must have happened: contention, all three arms of compute_next, re-sent frames
    # met by the three FIXED 16/16/8-thread yield_now cases alone, also on one starved core (measured there: 65 959)
    if _metric(verdicts, lines, "T", "cross_adjacent") < 10000:
        out.append(("diff", "T", "diff tie not exercised: fewer than 10000 values adjacent across threads (no contention)"))
    for arm in ("ahead", "plus1", "preepoch"):
        if _metric(verdicts, lines, "C", arm) < 500:
            out.append(("diff", "C", "diff tie not exercised: compute_next arm '%s' executed fewer than 500 times under the scripted clock" % arm))
    if _metric(verdicts, lines, "C", "panics") < 3:
        out.append(("diff", "C", "diff tie not exercised: the overflow of the warning branch (reading >= 2^63 us with a warning "
                                 "configuration) was reached fewer than 3 times"))
    if _metric(verdicts, lines, "E", "resent") < 20:
        out.append(("diff", "E", "diff tie not exercised: fewer than 20 requests were re-sent after UNPREPARED"))
    for pace in ("5", "6", "7"):
        if not [ln for ln in _kind(lines, "T") if ln.split("|")[0].split()[-1] == pace]:
            out.append(("diff", "T", "diff tie not exercised: no T case with pace " + pace))
    # wave 4: every request SHAPE, with and without a generator, with and without an explicit timestamp. The runner
    # emits one FIXED 12-request S case per (shape, generator) for every seed and tier (6 requests with, 6 without an
    # explicit timestamp; set-up failures are retried inside the runner); for the shapes whose frame can be answered
    # UNPREPARED two scripted UNPREPARED answers make at least one request re-send its frame.
    for (shape, gen), (ex, ns, rs) in sorted(_shapes(lines, verdicts).items()):
        what = "shape %s %s generator" % (shape, "with" if gen else "without")
        if ex < 4 or ns < 4:
            out.append(("diff", "S", "diff tie not exercised: %s: %d requests with and %d without an explicit timestamp judged, floor 4 / 4"
                        % (what, ex, ns)))
        if shape in S_RESENT and rs < 1:
            out.append(("diff", "S", "diff tie not exercised: %s: no request re-sent after UNPREPARED" % what))
    return out


# request shapes of the S cases (harness/src/bin/c18.rs S_KINDS); S_RESENT = those whose frame names a prepared statement
S_SHAPES = ["q", "i", "p", "x", "j", "s", "w", "y", "z", "b", "c", "P", "V", "W", "M"]
S_RESENT = set("xjswyzcPVWM")


def _shapes(lines, verdicts):
    """(shape, generator configured) -> [requests with an explicit timestamp, without, re-sent] over the S cases judged ok"""
    acc = {(k, g): [0, 0, 0] for k in S_SHAPES for g in (0, 1)}
    for ln, v in zip(lines, verdicts):
        f = ln.split("|")[0].split()
        if len(f) == 5 and f[0] == "S" and v and v.startswith("ok resent="):
            key = (f[3], 1 if int(f[2], 16) else 0)
            if key in acc:
                for j, name in enumerate(("explicit", "notset", "resent")):
                    m = re.search(r"\b%s=(\d+)" % name, v)
                    if m:
                        acc[key][j] += int(m.group(1))
    return acc


def extra_coverage(lines, verdicts):
    return {
        "contention_values_adjacent_across_threads": _metric(verdicts, lines, "T", "cross_adjacent"),
        "contention_values_judged": _metric(verdicts, lines, "T", "values"),
        "scripted_clock_calls_reading_above_last": _metric(verdicts, lines, "C", "ahead"),
        "scripted_clock_calls_reading_not_above_last": _metric(verdicts, lines, "C", "plus1"),
        "scripted_clock_calls_reading_before_epoch": _metric(verdicts, lines, "C", "preepoch"),
        "scripted_clock_calls_panicking_in_the_warning_branch_as_modelled": _metric(verdicts, lines, "C", "panics"),
        "e2e_requests_resent_after_unprepared": _metric(verdicts, lines, "E", "resent"),
        "e2e_scenarios_not_run_env": sum(1 for ln in _kind(lines, "E") if "| skip-env" in ln),
        "e2e_shape_cases_judged": sum(1 for ln, v in zip(lines, verdicts) if ln.startswith("S ") and v and v.startswith("ok resent=")),
        "e2e_rewritten_batch_requests_with_explicit_timestamp": sum(_shapes(lines, verdicts)[(k, g)][0] for k in "VWM" for g in (0, 1)),
        "e2e_rewritten_batch_requests_without_explicit_timestamp": sum(_shapes(lines, verdicts)[(k, g)][1] for k in "VWM" for g in (0, 1)),
        "e2e_rewritten_batch_requests_resent": sum(_shapes(lines, verdicts)[(k, g)][2] for k in "VWM" for g in (0, 1)),
        "e2e_shapes_times_generator_meeting_the_floor": sum(1 for (ex, ns, _r) in _shapes(lines, verdicts).values() if ex >= 4 and ns >= 4),
    }

SPEC = {
    "pid": "C18",
    "coq_targets": ["Props/C18.vo", "Extract/ExC18.vo"],
    "bin": "c18",
    # --n = total number of next_timestamp calls made on real generators
    "sizes": {"quick": 2000000, "thorough": 60000000},
    "search_n": 6000000,
    "post": post,
    "extra_coverage": extra_coverage,
    "min_cases": {"quick": 80, "thorough": 300},
    "nontrivial": lambda ln: "| skip-env" not in ln,
    "rule": ("the runner emits a FIXED number of cases of every kind for every seed (33 T, 5 B, 9 C, 12 E quick / 60 E thorough, 30 S quick / 60 S thorough) "
             "and adds seeded ones up to --n calls. T = one real MonotonicTimestampGenerator (without warnings / default / "
             "with_warning_times(1 us, 0)) shared by 2..16 OS threads x 100..65000 calls; paces 0-3 tight loop, random spins, "
             "yield_now (three FIXED 16/16/8-thread x 3000-call cases of this pace carry the contention floor: they interleave threads even on one "
             "starved core), staggered bursts; 4 two phases around a barrier (phase_ok, C18_call_order); 5 tick sweep: all threads "
             "released together by a spin barrier at -400..+400 ns around the microsecond tick, 3 calls each, again and again; "
             "6/7 a SCRIPTED clock shared by all threads (this binary defines clock_gettime: the reading stalls for 4/32 reads, "
             "steps backwards, is sometimes before the epoch); every value each thread was handed plus one call after the join "
             "is checked by the extracted property predicate prop_ok (= pairwise distinct over all threads and strictly "
             "increasing per thread, C18_prop_ok_iff => viol) and final_ok (diff). B = single thread on the real clock, the "
             "harness' own SystemTime readings around every call, extracted bracket acceptor (the value must be what "
             "compute_next returns for some reading in the bracket). C = single thread under a scripted clock (repeats, small "
             "and large steps, backward steps, pre-epoch readings, readings beyond i64::MAX us), one reading per call, every "
             "value compared EXACTLY with compute_next_checked - all three arms of compute_next, and the overflow panic of the "
             "warning branch's i64 `last - u_cur` (harness built with overflow checks). E = end-to-end on mocknode: a real Session "
             "(generator behind a call counter / no generator) sends 30..900 concurrent requests of 15 kinds (unpaged / iter / "
             "single-page x unprepared without values / unprepared WITH bound values (prepared on the fly) / prepared; batches: all "
             "unprepared without values, unprepared + prepared, all prepared, all unprepared WITH values, unprepared with + without "
             "values, unprepared with values + prepared + unprepared without - the last three make Connection::prepare_batch REWRITE "
             "the batch via Batch::new_from), 40% with an "
             "explicit statement timestamp (boundary values incl. i64::MIN/MAX); the first EXECUTEs are answered UNPREPARED and "
             "all prepared statements are evicted half way, so frames are RE-SENT; every frame of a request must carry frames_ts "
             "(explicit timestamp changed => viol; for generated timestamps the value is only visible in the frame, so presence, "
             "equality across the frames of a request and pairwise distinctness over requests (=> viol) are what is checked); "
             "number of next_timestamp calls = requests without a statement timestamp + internal frames of the window (re-sent "
             "frames do not count). S = the same scenario and verdict with ONE request shape per case (15 shapes x generator / no "
             "generator, 12 requests, the even ones with an explicit timestamp; shapes whose frame names the prepared statement get "
             "two scripted UNPREPARED answers, for batches on the BATCH frame itself, so rewritten batches are re-sent too); emitted "
             "before the E cases, rewritten-batch shapes first; floors per (shape, generator): >= 4 requests with and >= 4 without an "
             "explicit timestamp judged, >= 1 re-sent where possible. non-trivial = every case that ran (skip-env excluded); distinct = distinct case lines (each "
             "carries the serial number of the run)"),
    "trusted_base": [
        "E cases: vh::mocknode (own CQL v4 frame reader) reports the timestamp field of QUERY/EXECUTE/BATCH frames",
        "SeqCst load / compare_exchange are modelled as single atomic steps of a sequentially consistent memory",
        "B cases: the harness reads SystemTime before/after each call and assumes the clock did not step backwards "
        "inside that window unless its own two readings show it",
    ],
    "assumptions": [
        "scripted clock: the harness binary defines the C symbol clock_gettime (std's SystemTime::now resolves to it at "
        "static link time); CLOCK_REALTIME readings are scripted, all other clocks are forwarded to libc via dlsym(RTLD_NEXT)",
        "overflow guard of every schedule theorem (C18_inv, C18_cas_step, C18_distinct, C18_thread_mono, C18_call_order, "
        "C18_model_accepted): all clock readings (as i64) <= B and B + N*M < i64::MAX (C18_overflow_witness shows the model wraps "
        "to i64::MIN without it; in Rust: panic or wrap); C18_compute_next_gt, C18_warn_sub_safe and the acceptor theorems carry "
        "their own bounds (0 <= last < i64::MAX resp. <= i64::MAX, readings below 2^63 us, 0 <= t0, t1 <= i64::MAX)",
        "of the warning branch of compute_next only the i64 subtraction `last - u_cur` is modelled (compute_next_checked: "
        "panic under overflow checks for a reading >= 2^63 us, C18_warn_sub_safe otherwise); the last_warning mutex, the "
        "interval test and the log line are not; the harness is built with overflow-checks = true",
    ],
}

def main(argv):
    return run_check(SPEC, argv)
