import re

from orchestrate.common import run_check


def _kind(lines, k):
    return [ln for ln in lines if ln.startswith(k + " ")]


def _metric(verdicts, lines, kind, name):
    tot = 0
    for ln, v in zip(lines, verdicts):
        if ln.startswith(kind + " ") and v:
            m = re.search(r"\b%s=(\d+)" % name, v)
            if m:
                tot += int(m.group(1))
    return tot


def post(lines, verdicts):
    out = []
    e = _kind(lines, "E")
    sk = [ln for ln in e if "| skip-env" in ln]
    if len(sk) > max(3, len(e) // 50):
        out.append(("diff", sk[0], "diff e2e tie not exercised: %d of %d E scenarios could not run (%s)"
                    % (len(sk), len(e), sk[0].split("|", 1)[1].strip()[:80])))
    # the runner emits a FIXED 30 T, 5 B, 9 C, 12 E cases for every seed (quick); E tolerates 3 skip-env
    floors = {"T": 25, "B": 4, "C": 8, "E": 8}
    for k, n in floors.items():
        have = [ln for ln in _kind(lines, k) if "| skip-env" not in ln]
        if len(have) < n:
            out.append(("diff", k, "diff tie not exercised: %d cases of kind %s, floor %d" % (len(have), k, n)))
    # what the evidence claims must have happened: contention, all three arms of compute_next, re-sent frames
    if _metric(verdicts, lines, "T", "cross_adjacent") < 10000:
        out.append(("diff", "T", "diff tie not exercised: fewer than 10000 values adjacent across threads (no contention)"))
    for arm in ("ahead", "plus1", "preepoch"):
        if _metric(verdicts, lines, "C", arm) < 500:
            out.append(("diff", "C", "diff tie not exercised: compute_next arm '%s' executed fewer than 500 times under the scripted clock" % arm))
    if _metric(verdicts, lines, "C", "panics") < 3:
        out.append(("diff", "C", "diff tie not exercised: the overflow of the warning branch (reading >= 2^63 us with a warning "
                                 "configuration) was reached fewer than 3 times"))
    if _metric(verdicts, lines, "E", "resent") < 20:
        out.append(("diff", "E", "diff tie not exercised: fewer than 20 requests were re-sent after UNPREPARED"))
    for pace in ("5", "6", "7"):
        if not [ln for ln in _kind(lines, "T") if ln.split("|")[0].split()[-1] == pace]:
            out.append(("diff", "T", "diff tie not exercised: no T case with pace " + pace))
    return out


def extra_coverage(lines, verdicts):
    return {
        "contention_values_adjacent_across_threads": _metric(verdicts, lines, "T", "cross_adjacent"),
        "contention_values_judged": _metric(verdicts, lines, "T", "values"),
        "scripted_clock_calls_reading_above_last": _metric(verdicts, lines, "C", "ahead"),
        "scripted_clock_calls_reading_not_above_last": _metric(verdicts, lines, "C", "plus1"),
        "scripted_clock_calls_reading_before_epoch": _metric(verdicts, lines, "C", "preepoch"),
        "scripted_clock_calls_panicking_in_the_warning_branch_as_modelled": _metric(verdicts, lines, "C", "panics"),
        "e2e_requests_resent_after_unprepared": _metric(verdicts, lines, "E", "resent"),
        "e2e_scenarios_not_run_env": sum(1 for ln in _kind(lines, "E") if "| skip-env" in ln),
    }

SPEC = {
    "pid": "C18",
    "coq_targets": ["Props/C18.vo", "Extract/ExC18.vo"],
    "bin": "c18",
    # --n = total number of next_timestamp calls made on real generators
    "sizes": {"quick": 2000000, "thorough": 100000000},
    "search_n": 6000000,
    "post": post,
    "extra_coverage": extra_coverage,
    "min_cases": {"quick": 50, "thorough": 300},
    "nontrivial": lambda ln: "| skip-env" not in ln,
    "rule": ("T = one real MonotonicTimestampGenerator shared by 2..16 OS threads x 100..65000 calls (every thread "
             "count 2..16 once, then seeded sizes; paces: tight loop, random spins, yield_now, staggered bursts; "
             "with and without the clock-skew warning configuration), every value each thread was handed plus one "
             "call after the join, checked by the extracted property predicate prop_ok (= distinct over all threads "
             "and strictly increasing per thread, C18_prop_ok_iff) and final_ok; B = single thread with the harness' "
             "own SystemTime readings around every call, checked by the extracted bracket acceptor (the value must "
             "be exactly what the model's compute_next returns for some reading in the bracket); pace 4 of T = two "
             "phases separated by a barrier, every second-phase value must exceed every first-phase value "
             "(phase_ok, C18_call_order); E = end-to-end: a real Session (generator wrapped in a call counter / no "
             "generator) sends 30..900 concurrent QUERY/EXECUTE/BATCH requests to mocknode, 40% with an explicit "
             "statement timestamp (boundary values incl. i64::MIN/MAX), the timestamp field of every received frame "
             "is compared with the extracted choose_ts, generated ones must be pairwise distinct, and the number of "
             "next_timestamp calls must equal the number of frames without a statement timestamp; non-trivial = every "
             "case; distinct = distinct case lines (each carries the serial number of the run)"),
    "trusted_base": [
        "E cases: vh::mocknode (own CQL v4 frame reader) reports the timestamp field of QUERY/EXECUTE/BATCH frames",
        "SeqCst load / compare_exchange are modelled as single atomic steps of a sequentially consistent memory",
        "B cases: the harness reads SystemTime before/after each call and assumes the clock did not step backwards "
        "inside that window unless its own two readings show it",
    ],
    "assumptions": [
        "scripted clock: the harness binary defines the C symbol clock_gettime (std's SystemTime::now resolves to it at "
        "static link time); CLOCK_REALTIME readings are scripted, all other clocks are forwarded to libc via dlsym(RTLD_NEXT)",
        "overflow guard of every C18 theorem: all clock readings (as i64) <= B and B + N*M < i64::MAX "
        "(C18_overflow_witness shows the model wraps to i64::MIN without it; in Rust: panic or wrap)",
        "of the warning branch of compute_next only the i64 subtraction `last - u_cur` is modelled (compute_next_checked: "
        "panic under overflow checks for a reading >= 2^63 us, C18_warn_sub_safe otherwise); the last_warning mutex, the "
        "interval test and the log line are not; the harness is built with overflow-checks = true",
    ],
}

def main(argv):
    return run_check(SPEC, argv)
